#!/usr/bin/env python3
"""tools/log2matrix.py <suffix> <log>... : turn the output of tools/try_patch.sh runs ("### <prop>" header lines followed by
"[<check> rc=<n>] ... signature=<s>" lines) into rows of a seeds x checks matrix: seed <tab> check <tab> 1|0|2 <tab> signature."""
import re, sys
suffix = sys.argv[1]
for f in sys.argv[2:]:
    seed = None
    for l in open(f, errors='replace'):
        m = re.match(r'### (\S+)', l)
        if m:
            seed = m.group(1) + '-' + suffix if '-m' not in m.group(1) else m.group(1)
            continue
        m = re.match(r'\[(C\d\d) rc=(\d+)\]', l)
        if m and seed:
            sig = re.search(r'signature=(\S+)', l)
            first = re.search(r'first failure seen: ([a-z0-9-]+)', l)
            s = sig.group(1) if sig else ''
            if s == 'flaky' and first: s = 'flaky:' + first.group(1)
            print(f"{seed}\t{m.group(1)}\t{m.group(2)}\tsignature={s} rc={m.group(2)}" if m.group(2) != '0' else f"{seed}\t{m.group(1)}\t0\t")

#!/bin/bash
# tools/confirm_seed.sh <agent-out-dir> <seed-name> <property> : independently confirm a seeded change in a scratch
# worktree (applies, compiles, baseline suite still passes, demo fails with it and passes without it), then store it
# under /verif/seeded/<seed-name>/ with meta.json.
set -u
SRC="$1"; NAME="$2"; PROP="$3"
WT=/tmp/seed/confirm-$NAME
LOG=/tmp/seed/confirm-$NAME.log
: > "$LOG"
git -C /repo worktree add -q --detach "$WT" "${BASE:-HEAD}" || exit 2
cleanup() { git -C /repo worktree remove --force "$WT" >/dev/null 2>&1; }
trap cleanup EXIT
cd "$WT" || exit 2
CRATE=$(head -1 "$SRC/demo.rs" | sed -n 's#^// *crate: *\([A-Za-z0-9_]*\).*#\1#p')
[ -z "$CRATE" ] && { echo "no crate line in demo.rs"; exit 2; }
DEMO=seed_demo_$(echo "$NAME" | tr 'A-Z-' 'a-z_')
cp "$SRC/demo.rs" "crates/$CRATE/tests/$DEMO.rs"
export CARGO_NET_OFFLINE=true
# 1. demo without the patch: must pass
flock /tmp/seed/epmd.lock cargo test -q -p "$CRATE" --test "$DEMO" --offline -j 8 >>"$LOG" 2>&1; RC_CLEAN=$?
# 2. apply patch
git apply "$SRC/patch.diff" >>"$LOG" 2>&1 || { echo "$NAME: patch does not apply"; exit 3; }
flock /tmp/seed/epmd.lock cargo test -q -p "$CRATE" --test "$DEMO" --offline -j 8 >>"$LOG" 2>&1; RC_MUT=$?
# 3. baseline suite with the patch (demo removed)
rm "crates/$CRATE/tests/$DEMO.rs"
REPO_DIR="$WT" python3 /verif/tools/baseline.py >>"$LOG" 2>&1; RC_BASE=$?
BASELINE_LINE=$(grep '^baseline:' "$LOG" | tail -1)
echo "$NAME: demo-clean rc=$RC_CLEAN demo-mutant rc=$RC_MUT baseline rc=$RC_BASE ($BASELINE_LINE)"
if [ $RC_CLEAN -eq 0 ] && [ $RC_MUT -ne 0 ] && [ $RC_BASE -eq 0 ]; then
  D=/verif/seeded/$NAME; mkdir -p "$D"
  cp "$SRC/patch.diff" "$D/patch.diff"; cp "$SRC/demo.rs" "$D/demo.rs"; cp "$SRC/README.md" "$D/README.md" 2>/dev/null
  python3 - "$D" "$NAME" "$PROP" "$CRATE" "$BASELINE_LINE" "${BASE:-HEAD}" <<'PY'
import json,sys,subprocess
d,name,prop,crate,bl,base=sys.argv[1:7]
readme=open(d+'/README.md').read() if __import__('os').path.exists(d+'/README.md') else ''
meta={"name":name,"breaks_property":prop,"demo_crate":crate,
 "base_commit":subprocess.run(['git','-C','/repo','rev-parse','--short',base],capture_output=True,text=True).stdout.strip(),
 "needs_to_manifest":"see README.md (written by the independent sub-agent that produced the change)",
 "confirmed":{"how":"tools/confirm_seed.sh in a scratch worktree of /repo at the base commit","demo_without_patch":"pass","demo_with_patch":"fail","existing_suite_with_patch":bl},
 "detected_by":[]}
json.dump(meta,open(d+'/meta.json','w'),indent=1)
PY
  echo "$NAME: CONFIRMED and stored"
else
  echo "$NAME: NOT confirmed (see $LOG)"
fi
rm -rf "$WT/target"

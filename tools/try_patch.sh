#!/bin/bash
# tools/try_patch.sh <patch.diff> <ID> [<ID>...]  : apply a patch to /repo, run the quick checks, undo the patch.
P="$1"; shift
cd /repo || exit 2
if ! git diff --quiet; then echo "/repo has uncommitted changes; refusing" >&2; exit 2; fi
if git apply --check "$P" 2>/dev/null; then git apply "$P"
elif git apply --3way "$P" >/dev/null 2>&1; then git reset -q   # merged over later hook commits; leave it unstaged
else git checkout -q -- . ; git reset -q; echo "PATCH DOES NOT APPLY: $P"; exit 3; fi
for id in "$@"; do
  out=$(cd /verif && VERIF_SEED=${VERIF_SEED:-1} ./check "$id" ${TIER:-quick} 2>&1); rc=$?
  echo "[$id rc=$rc] $(echo "$out" | grep -E 'VIOLATION|signature=' | head -2 | cut -c1-400 | tr '\n' ' ')"
done
git checkout -q -- . && git clean -fdq crates
rm -f /verif/replays/*.json

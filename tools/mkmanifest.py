#!/usr/bin/env python3
"""Regenerate /verif/MANIFEST.json from the table below (single source of truth)."""
import json, subprocess
ALL = [f"C{i:02d}" for i in range(1, 21)]
# id -> (engine, technique, level text, level note, design ref)
CHECKS = {}
def add(i, engine, technique, text, note, ref):
    CHECKS[i] = dict(engine=engine, technique=technique, text=text, note=note, ref=ref)

add("C01", "pbt", "property-based testing (proptest): independent-decoder differential + round-trip over a boundary-biased term generator",
    "Generated-input search: every generated term (all 17 variants, every listed boundary class, all library representations) is encoded, read back by an independent ETF reader written from the OTP docs, decoded by the library, and re-encoded; any divergence is shrunk to a minimal term. Search, not proof.",
    "Trusts the harness's reference reader (refmodel) as a correct reading of erl_ext_dist; containers > 2^32-1 elements cannot be materialised.",
    "DESIGN.md §7 C01")

add("C11", "pbt", "exhaustive all-pairs / all-triples law checking over a corner-case universe + property-based testing (proptest) over random universes of neighbouring terms",
    "Every pair and triple of a ~700-term corner universe (all numeric representations around 2^53/2^63/2^64, equal-length bigints, +-0.0, binaries vs bit-strings, proper vs improper lists, funs differing in arity, identifiers with/without raw bytes, compounds) is checked against the four order laws, eq=>hash under two hashers, BorrowedTerm agreement and derived sort/BTreeMap/HashMap behaviour; random universes of tweaked neighbours extend this. Exhaustive only for the enumerated universe.",
    "Well-formed terms only (finite floats, minimal bigint digits, zero padding bits).",
    "DESIGN.md §7 C11")
add("C12", "pbt", "differential testing against an independent exact implementation of Erlang's term order: exhaustive all-pairs over a corner universe of values x representations + proptest neighbour pairs",
    "Every pair of the corner value universe in every library representation, and random neighbour pairs, is compared by OwnedTerm::cmp and BorrowedTerm::cmp and by an independent arbitrary-precision implementation of the OTP term order; disagreement is shrunk to a minimal pair.",
    "Trusts refmodel::order as a reading of the OTP manual; order among distinct identifiers/funs not prescribed; int-vs-float map keys and arity-only fun differences accepted either way.",
    "DESIGN.md §7 C12")

hooks_commits = []
try:
    out = subprocess.run(["git", "-C", "/repo", "log", "--format=%H %s"], capture_output=True, text=True).stdout
    hooks_commits = [l.split()[0] for l in out.splitlines() if l.split(" ", 1)[1].startswith("verif-hook:")]
except Exception:
    pass

m = {
    "version": 1,
    "setup_cmd": "cd /verif/harness && CARGO_NET_OFFLINE=true cargo build --profile verif -p verif --offline",
    "hooks": {
        "guard": "--cfg edp_rs_verif",
        "enable": "harness/.cargo/config.toml sets build.rustflags = [\"--cfg\", \"edp_rs_verif\"]; the harness depends on /repo/crates/* by path, so every check rebuilds the working tree with hooks on",
        "baseline_off_cmd": "python3 /verif/tools/baseline.py",
        "source_commits": hooks_commits,
        "add_only": True,
    },
    "engines": [
        {"name": "pbt", "path": "harness/verif/src/engine.rs", "serves_properties": sorted(CHECKS),
         "kind_free_text": "seeded, sharded proptest runner + exhaustive enumerators with shrinking, known-finding split, replay files and evidence writer"},
        {"name": "refmodel", "path": "harness/refmodel", "serves_properties": sorted(CHECKS),
         "kind_free_text": "independent reference model: Erlang values, ETF reader/writer, term order, MD5, protocol tables (no dependency on the crates under test)"},
    ],
    "checks": [],
    "not_applicable": [],
    "notes": "All checks: ./check <ID> quick|thorough (cwd /verif). Exit 0 held / 1 VIOLATION / 2 infrastructure or inconclusive. Known findings: known_findings.json.",
}
for i in ALL:
    if i in CHECKS:
        c = CHECKS[i]
        m["checks"].append({
            "property_id": i,
            "quick_cmd": f"./check {i} quick",
            "thorough_cmd": f"./check {i} thorough",
            "evidence_file": f"/verif/evidence/{i}.json",
            "replay_cmd_template": f"./check {i} --replay {{path}}",
            "engine": c["engine"],
            "level_claimed": {"category": "exploration", "text": c["text"], "design_ref": c["ref"]},
            "level_note": c["note"],
            "technique": c["technique"],
        })
    else:
        m["not_applicable"].append({"property_id": i, "reason": "check not built yet in this session (planned, see DESIGN.md §7); no claim is made"})
json.dump(m, open("/verif/MANIFEST.json", "w"), indent=1)
print("checks:", len(m["checks"]), "not_applicable:", len(m["not_applicable"]))

#!/usr/bin/env python3
"""Regenerate /verif/MANIFEST.json from the table below (single source of truth)."""
import json, subprocess
ALL = [f"C{i:02d}" for i in range(1, 21)]
# id -> (engine, technique, level text, level note, design ref)
CHECKS = {}
def add(i, engine, technique, text, note, ref):
    CHECKS[i] = dict(engine=engine, technique=technique, text=text, note=note, ref=ref)

add("C01", "pbt", "property-based testing (proptest): independent-decoder differential + round-trip over a boundary-biased term generator",
    "Generated-input search: every generated term (all 17 variants, every listed boundary class, all library representations) is encoded, read back by an independent ETF reader written from the OTP docs, decoded by the library, and re-encoded (encode_to_writer also into sinks that take 1..4096 bytes per call and into a full sink); any divergence is shrunk to a minimal term. Search, not proof.",
    "Trusts the harness's reference reader (refmodel) as a correct reading of erl_ext_dist; containers > 2^32-1 elements cannot be materialised.",
    "DESIGN.md §7 C01")

add("C11", "pbt", "exhaustive all-pairs / all-triples law checking over a corner-case universe + property-based testing (proptest) over random universes of neighbouring terms",
    "Every pair and triple of a ~700-term corner universe (all numeric representations around 2^53/2^63/2^64, equal-length bigints, +-0.0, binaries vs bit-strings, proper vs improper lists, funs differing in arity, identifiers with/without raw bytes, compounds) is checked against the four order laws, eq=>hash under two hashers, BorrowedTerm agreement and derived sort/BTreeMap/HashMap behaviour; random universes of tweaked neighbours extend this. Exhaustive only for the enumerated universe.",
    "Well-formed terms only (finite floats, minimal bigint digits, zero padding bits).",
    "DESIGN.md §7 C11")
add("C12", "pbt", "differential testing against an independent exact implementation of Erlang's term order: exhaustive all-pairs over a corner universe of values x representations + proptest neighbour pairs",
    "Every pair of the corner value universe in every library representation, and random neighbour pairs, is compared by OwnedTerm::cmp and BorrowedTerm::cmp and by an independent arbitrary-precision implementation of the OTP term order; disagreement is shrunk to a minimal pair.",
    "Trusts refmodel::order as a reading of the OTP manual; order among distinct identifiers/funs not prescribed; int-vs-float map keys and arity-only fun differences accepted either way.",
    "DESIGN.md §7 C12")

add("C03", "pbt", "property-based testing (proptest): independent encoder with per-node choice among all admissible encodings -> library decoder, value equality + trailing-data check",
    "An independent ETF writer emits every generated value in a generated mix of all admissible forms (small/large, legacy, text float, four atom tags incl. Latin-1, STRING_EXT, split lists, legacy/NEW_PORT identifier tags, LOCAL_EXT, COMPRESSED stored and deflate) with and without junk appended; the library's decode, decode_with_trailing, decode_raw_term and decode_with_atom_cache must return exactly that value / report the trailing bytes; a valid term nested up to 250 levels must decode whatever the same thread decoded (and rejected) before.",
    "Trusts refmodel's writer to emit only encodings erl_ext_dist permits (self-checked against refmodel's reader). Known open finding C03-F1 (maps with ==-equal keys).",
    "DESIGN.md §7 C03")
add("C05", "pbt", "exhaustive enumeration of all chunkings of short streams + property-based testing over random streams through a custom chunking/Pending AsyncRead and AsyncWrite + generated connect/write/close/mode histories of the socket-bound FramedTransport over loopback streams",
    "Every way of cutting short framed streams into reads (all 2^(n-1)), and random message sequences x chunk patterns x Pending patterns x EOF positions x over-cap lengths, with framer and deframer built directly in the mode or switched to it by set_mode, driven by a manual poll loop; frames out must equal messages in, the streaming writer must equal the one-shot framer, over-cap lengths must be refused without a large allocation (scoped counting allocator).",
    "Framer and deframer: no sockets or timers involved (the FramedTransport campaign uses loopback streams and real time, with a 20 s cap per wait); the node's second copy of the read loop (receive_message_from_read_half) is exercised over TCP by C06/C19.",
    "DESIGN.md §7 C05")
add("C08", "pbt", "property-based testing over the tag x arity grid + table-driven differential against the protocol's control-message table (independent copy)",
    "Tuples {Tag,e1..ek} for all tags 0..255 and arities 1..10 (biased to protocol tags at arity +-1, unlink ids over and beyond 64 bits, malformed inputs) must parse/serialise losslessly, to_term == into_term, survive the wire, and map to the variant/field the protocol table names; every table row built as a named variant must serialise to the protocol's tuple as seen by an independent reader.",
    "Trusts refmodel::proto::CONTROL_TABLE as a copy of erl_dist_protocol. Known open finding C08-F1 (SPAWN_REQUEST arity).",
    "DESIGN.md §7 C08")
add("C09", "pbt", "exhaustive enumeration of all n! arrival orders (n<=5/7) x duplicates x out-of-range ids x all merges of two sequences + proptest histories, against a model assembler",
    "Model-based: every call's return value and pending_count() after every step are compared with a model assembler over exhaustive small configurations and random histories with up to 4 interleaved sequences, 64 fragments, duplicates, bogus ids, u64 sequence ids and expiry; plus 60 000 (thorough: 200 000) two-fragment sequences all in flight at once, headers first and continuations first.",
    "Known open findings C09-F1 (ascending-id concatenation, pinned by the repo's tests) and C09-F2 (>100000 fragments never complete); every other clause is still decided on the full domain.",
    "DESIGN.md §7 C09")
add("C10", "pbt", "property-based testing: independent encoder places identifiers (plain / LOCAL_EXT, every inner tag) in every context; byte spans located by an independent reader; generated conversion sequences",
    "Carrier terms with identifiers in every context are decoded, put through generated sequences of clone / owned->zero-copy->owned / wire trip / moves into containers, and re-encoded; identifier byte spans (found by an independent reader) must be byte-identical - through encode, through the distribution-header encoder, and for identifiers received in a distribution-header frame (a map whose keys the library's order does not order totally may come out reordered: then the value and every identifier's bytes must be unchanged) - and the same logical identifier in plain and LOCAL_EXT form (different hashes, differently spelled node atom) must be ==, hash alike and compare Equal.",
    "Byte identity is required for LOCAL_EXT and for plain identifiers in the form the library reconstructs from fields; a plain identifier received in another equivalent tag must keep its logical fields.",
    "DESIGN.md §7 C10")
add("C13", "pbt", "differential testing owned vs zero-copy decoder over valid encodings, every truncation of a sample, mutations and raw bytes (proptest + exhaustive truncations)",
    "For every generated input: zero-copy accepts => owned accepts and to_owned() is structurally identical; modern-tag-only well-formed inputs (judged by an independent tag walker) accepted by the owned decoder must be accepted by the zero-copy one; error offsets lie within the input.",
    "Nesting depth of inputs is bounded (stack exhaustion is C02's subject).",
    "DESIGN.md §7 C13")
add("C14", "pbt", "exhaustive sweep of atom counts 0..258 x long-atom x payload + proptest; independent distribution-header reader and a conforming sender model with persistent 2048-slot cache",
    "(a) The library's header-mode encodings for every atom count/parity/length class are read by an independent header reader and by the library's own reader; (b) sequences of messages from a conforming sender model (new entries, re-use across messages, overwrites, all segments, position != slot, inline and long atoms, headers of up to 255 references mixing new and known entries) must decode, with one AtomCache, to exactly what the sender meant, also when an earlier message was cut short behind its (complete) header.",
    "Trusts refmodel::dist as a reading of the distribution header layout.",
    "DESIGN.md §7 C14")
add("C15", "pbt", "property-based round-trip testing over a family of 38 Rust types (serde derive + derive(ElixirStruct)), via term and via bytes",
    "from_term(to_term(v)) == v and from_bytes(to_bytes(v)) == v (floats by bits) for generated values over full integer ranges, floats (infinities: round trip or an error), sequences and strings of 65534..200000 elements, chars incl. non-BMP, strings, options, tuples, sequences, maps with several key types, all struct and enum shapes and nestings; the bytes must also be readable by an independent ETF reader.",
    "Excludes nested options and NaN (inherent ambiguity of the format); Option<()>, Option<unit struct> and Option<bool> are generated: in the default build only `undefined` reads as None.",
    "DESIGN.md §7 C15")
add("C20", "pbt", "property-based testing: i128 reference model for ranges; round trip (memory + wire) and wrong-shape mutation of every wrapper; validating date/time constructors against an independent proleptic-Gregorian calendar; proplist/map metamorphic relations",
    "ElixirRange len/contains/iteration/size_hint against an exact i128 model at the i64 extremes under overflow checks; every Elixir wrapper over all field values its Rust type admits must round-trip in memory and through the wire, and must answer None (or the term's own values) for out-of-range fields, wrong types, missing keys and wrong struct tags; builders and proplist<->map conversions lose and invent nothing.",
    "Embedded terms compared by denoted value after the wire; documented conventions of the wrappers (nil = absent, module prefix stripping) are respected by the generator.",
    "DESIGN.md §7 C20")

add("C02", "pbt", "adversarial input generation + fuzz-style mutation, executed in an isolated worker process (2 MiB-stack threads, counting allocator); proptest shrinking in the parent",
    "Count bombs for every length-bearing tag, thousands of two-byte atom-cache references to long atoms of the frame's own distribution header, nesting to depth 10^6 through every container tag, compressed sections that inflate to less/exactly/10^7x more than declared, every truncation of sampled encodings, mutations and raw bytes are run through all nine decoding entry points; each must return, the worker must stay alive (no abort / stack overflow), and peak requested memory must stay within 1 MiB + 256 x (input + legitimately inflated bytes).",
    "2 MiB stack = tokio default worker; harness built with opt-level 2; allocation bound constants justified in DESIGN.md.",
    "DESIGN.md §7 C02")

add("C16", "sched", "exhaustive schedule enumeration (stateless DFS) under a deterministic baton-passing thread scheduler + random schedules (proptest) + long sequential histories + OS-thread stress",
    "Every interleaving of the instrumented atomic steps of 2..3 concurrent allocate()/make_reference() calls is enumerated from counter positions around the wrap point and the serial's 32-bit wrap; random schedules for up to 4 threads; 3 x 2^20 sequential allocations across three wraps with creation changes; hook-free OS-thread stress across the wrap; a node started against the harness's EPMD in both reply forms (creation in force = what EPMD assigned); node operations that make references (monitor of local / unreachable / unconnected targets, unlink) interleaved with make_reference at the node's yield points. Oracle: pairwise distinct, never a pid the current epoch already issued, right creation, ids restart at 1, no deadlock.",
    "Interleavings are controlled only at the sync_point hooks (cfg edp_rs_verif); a rewrite that drops the hooks is only reachable by the stress and history campaigns. The 2^32-call horizon of reference words is outside every history.",
    "DESIGN.md §7 C16")

add("C04", "netbed", "stateful property-based testing of the handshake API against a peer model (proptest histories) + scripted-peer fault injection over loopback under a harness-owned virtual clock",
    "(a) Generated call histories on HandshakeStateMachine (any order, valid/invalid arguments, reuse after disconnect) with a peer model that learns this side's challenge only from the 'r' message; (b) Connection::connect() against a scripted responder with every deviation at every step (refusals, wrong/misdirected digests, malformed/truncated/oversized frames, out-of-order ack, close, reset, silence). Connected <=> correct ack for this handshake's challenge; flags = intersection; n/c/r layouts and digests checked with an own MD5; errors within the configured timeout in virtual time; no panic.",
    "Own MD5 and handshake layouts from the OTP docs; virtual time moves only when the script advances it (auto-advance inhibited), real-time watchdog => inconclusive.",
    "DESIGN.md §7 C04")
add("C06", "netbed", "model-based property testing: scripts from a conforming sender model (pass-through / distribution header with persistent atom cache / fragments / ticks / junk incl. runs of 250..400 bad frames) over a real loopback socket with generated TCP segmentation",
    "Generated scripts of valid messages of every control kind in every wire form, interleaved with ticks and malformed frames, are written in arbitrary segments; Connection::receive_message and receive_message_from_read_half must return each valid message exactly once, in order, unchanged, with at most one error per bad frame and no panic; a frame the peer started and abandoned by closing the connection must not be returned as a message; on the read-half loop the peer may fall silent for longer than the per-frame timeout and end the silence with a frame in two pieces.",
    "Known open finding C06-F1 (messages in >= 2 fragments, root cause C09-F1); junk never poses as a header frame of the connection.",
    "DESIGN.md §7 C06")
add("C07", "netbed", "property-based testing with an independent protocol reader on the peer side + generated task schedules at instrumented yield points (concurrent senders through one Node)",
    "Sequences of the six send-side operations with generated arguments in both framing modes (incl. asymmetric flag offers, payloads with 248..320 distinct atoms around the header's limit of 255, sends whose frame length steps byte by byte across 2^12..2^16, consecutive sends whose payloads differ only in the sign of a zero, unencodable operations, never-connected and closed connections) are read back by an independent deframer and reader and compared with the protocol's control tuple; 1..5 tasks issue operations through one Node under generated schedules that yield between the partial writes of a frame: frames must not interleave and per-task order must hold.",
    "Task interleaving is controlled at sched_point hooks and real I/O waits only.",
    "DESIGN.md §7 C07")
add("C17", "netbed", "stateful property-based testing: generated waves of concurrent remote calls against a scripted peer (replies in generated order, late / duplicate / stray replies, silence, peer close before or during a wave, calls whose request cannot be encoded) + generated task schedules, virtual clock",
    "1..3 waves of 1..6 concurrent rpc_call_raw_with_timeout calls through one Node, each with its own virtual timeout and a unique argument; the peer answers at once, late, never, twice, or again during the next wave, in generated order, sends replies to pids that never had a call, and closes before or during the last wave. A single caller can be held at a yield point right after its request was written until the peer's reply has been routed (a reply must find its call registered). Caller identifiers are optionally re-used one allocator round later; the stalled-peer campaign also lets the peer close, reset or half-close while the request is stuck in the full socket (calls return / the node stays live and deregisters the peer); a second campaign sends a request larger than the socket buffers to a peer that reads only after the call's timeout has passed (the frame must arrive whole). A call must return its own reply or a timeout / cancellation / connection error, never another call's reply; a reply consumed before the timeout must not be reported as a timeout; when all calls have returned the outstanding-call table must be empty (hook accessor).",
    "Virtual time moves only when the script advances it; task interleaving is controlled at sched_point hooks (registration / request-written / wait / lookup steps).",
    "DESIGN.md §7 C17")
add("C18", "netbed", "model-based stateful property testing (proptest histories of spawn/register/link/monitor/send/failure/$gen_call/$gen_cast/$gen_notify against a process-table model) under generated yield schedules + unshrunk parallel stress on a multi-threaded runtime",
    "Histories over recorder processes, a GenServerProcess and a GenEventManager on a started Node are interpreted against a model of liveness, names, links and monitors; every handler log must equal the model (each accepted message once and in sender order, exactly one Exit/MonitorExit per surviving linked/monitoring process with the right pid and reference, none after unlink/demonitor), dead pids and their names stop resolving and names can be re-registered, a held name cannot be taken, whereis/registered/process_count agree, each $gen_call is answered once with the caller's reference. A second campaign asks the same questions with real parallelism (4 workers): parallel senders, parallel registration of one free name, simultaneous failures.",
    "Deterministic interleavings are controlled at sched_point hooks; sends racing with a failure and links created while the target dies are not generated (the statement gives no outcome for them). The parallel campaign is not schedule-pinned: its failing inputs are saved unshrunk and replayed 40 times.",
    "DESIGN.md §7 C18")
add("C19", "netbed", "property-based testing of inbound scripts from a scripted peer (valid routes, unroutable targets, ignored kinds, malformed frames, ticks, silence, bursts into a busy mailbox, registered names changing hands locally between inbound messages, fatal transport events) against a routing model",
    "Generated inbound scripts over a real loopback socket: every SEND/REG_SEND/EXIT/MONITOR_P_EXIT for a live process must reach exactly that process once and in order, unroutable or malformed input - single bad frames and runs of 17..96 of them - must change nothing and must not stop the receiver (a marker message after each bad item must still arrive), quiet periods with peer ticks must not drop the connection, and transport-fatal events must remove the connection and let calls fail.",
    "Inbound frames in pass-through form (header-mode decoding is C06/C14's subject).",
    "DESIGN.md §7 C19")

FUZZ = {"C01": "c01", "C02": "decode", "C03": "c03, decode", "C05": "c05", "C08": "c08", "C09": "c09", "C10": "c10, c10id", "C12": "c12",
        "C13": "c13, decode", "C14": "c14seq, disthdr", "C20": "c20range, c20terms"}
hooks_commits = []
try:
    out = subprocess.run(["git", "-C", "/repo", "log", "--format=%H %s"], capture_output=True, text=True).stdout
    hooks_commits = [l.split()[0] for l in out.splitlines() if l.split(" ", 1)[1].startswith("verif-hook:")]
except Exception:
    pass

m = {
    "version": 1,
    "setup_cmd": "cd /verif/harness && CARGO_NET_OFFLINE=true cargo build --profile verif -p verif --offline",
    "hooks": {
        "guard": "--cfg edp_rs_verif",
        "enable": "harness/.cargo/config.toml sets build.rustflags = [\"--cfg\", \"edp_rs_verif\"]; the harness depends on /repo/crates/* by path, so every check rebuilds the working tree with hooks on",
        "baseline_off_cmd": "python3 /verif/tools/baseline.py",
        "source_commits": hooks_commits,
        "add_only": True,
    },
    "engines": [
        {"name": "pbt", "path": "harness/verif/src/engine.rs", "serves_properties": sorted(CHECKS),
         "kind_free_text": "seeded, sharded proptest runner + exhaustive enumerators with shrinking, known-finding split, replay files and evidence writer"},
        {"name": "sched", "path": "harness/verif/src/sched.rs", "serves_properties": ["C16"],
         "kind_free_text": "baton-passing deterministic scheduler for OS threads driven through the sync_point hook, stateless DFS over schedules"},
        {"name": "isolate", "path": "harness/verif/src/isolate.rs", "serves_properties": ["C02"],
         "kind_free_text": "isolated worker process (2 MiB-stack threads, counting allocator) so crashes and blow-ups are observed, not suffered"},
        {"name": "fuzz", "path": "harness/fuzz", "serves_properties": sorted(FUZZ),
         "kind_free_text": "cargo-fuzz package with one libFuzzer binary (fz); VERIF_FUZZ_TARGET selects one of 14 targets defined in harness/verif/src/fuzzbridge.rs; bytes are mapped onto the proptest campaigns' Case types by a total serde deserializer (fuzzde.rs) and clamped into the generators' domains; corpora are seeded from the proptest generators; artifacts are re-evaluated in-process"},
        {"name": "netbed", "path": "harness/verif/src/netbed.rs", "serves_properties": ["C04", "C06", "C07", "C17", "C18", "C19"],
         "kind_free_text": "network test-bed: fake EPMD, scripted peer over loopback, harness-owned virtual clock (paused tokio clock with auto-advance inhibited), kernel-queue settling, panic capture, real-time watchdog"},
        {"name": "refmodel", "path": "harness/refmodel", "serves_properties": sorted(CHECKS),
         "kind_free_text": "independent reference model: Erlang values, ETF reader/writer, term order, MD5, protocol tables (no dependency on the crates under test)"},
    ],
    "checks": [],
    "not_applicable": [],
    "notes": "All checks: ./check <ID> quick|thorough (cwd /verif). Exit 0 held / 1 VIOLATION / 2 infrastructure or inconclusive. Known findings: known_findings.json.",
}
for i in ALL:
    if i in CHECKS:
        c = CHECKS[i]
        if i in FUZZ:
            c = dict(c)
            c["technique"] += f"; thorough tier adds coverage-guided fuzzing (libFuzzer via cargo-fuzz, ASan, structure-aware byte->case mapping, the same oracle inside the target; targets: {FUZZ[i]})"
            c["note"] += " Fuzz campaigns are pinned only approximately by -seed; a saved artifact is re-evaluated through the deterministic oracle before it counts."
        m["checks"].append({
            "property_id": i,
            "quick_cmd": f"./check {i} quick",
            "thorough_cmd": f"./check {i} thorough",
            "evidence_file": f"/verif/evidence/{i}.json",
            "replay_cmd_template": f"./check {i} --replay {{path}}",
            "engine": c["engine"],
            "level_claimed": {"category": "exploration", "text": c["text"], "design_ref": c["ref"]},
            "level_note": c["note"],
            "technique": c["technique"],
        })
    else:
        m["not_applicable"].append({"property_id": i, "reason": "check not built yet in this session (planned, see DESIGN.md §7); no claim is made"})
json.dump(m, open("/verif/MANIFEST.json", "w"), indent=1)
print("checks:", len(m["checks"]), "not_applicable:", len(m["not_applicable"]))

#!/bin/bash
# tools/revert_matrix.sh <scratch-dir> : for every "fix:" commit of /repo, revert it alone in a scratch worktree and run the
# quick check of each property the known-findings file attributes to that commit. Output: <scratch>/reverts.tsv
set -u
S="${1:?scratch dir}"; mkdir -p "$S"
[ -d "$S/repo" ] || git -C /repo worktree add -q --detach "$S/repo" HEAD || exit 2
rsync -a --delete --exclude harness/target --exclude 'harness/.build*' --exclude evidence --exclude replays --exclude harness/fuzz/corpus --exclude harness/fuzz/artifacts /verif/ "$S/verif/"
mkdir -p "$S/verif/evidence" "$S/verif/replays"
sed -i "s#/repo/crates/#$S/repo/crates/#" "$S/verif/harness/verif/Cargo.toml"
OUT="$S/reverts.tsv"; : > "$OUT"
python3 - > "$S/plan.txt" <<'PY'
import json,re,collections
d=json.load(open('/verif/known_findings.json'))
m=collections.OrderedDict()
for l in d['fixed']:
    g=re.match(r'fixed: property=(C\d+) ([0-9a-f]{7}) ',l)
    if g: m.setdefault(g.group(2),[]).append(g.group(1))
for c,ps in m.items(): print(c,' '.join(sorted(set(ps))))
PY
while read -r c props; do
  cd "$S/repo" && git checkout -q -- . && git reset -q --hard HEAD >/dev/null
  if ! git revert --no-commit "$c" >/dev/null 2>&1; then git revert --abort >/dev/null 2>&1; git reset -q --hard HEAD; echo -e "$c\t-\t3\tREVERT-CONFLICTS" >> "$OUT"; continue; fi
  for id in $props; do
    out=$(cd "$S/verif" && ./check "$id" quick 2>&1); rc=$?
    sig=$(echo "$out" | grep -o 'signature=[^ ]*' | head -1)
    echo -e "$c\t$id\t$rc\t$sig" >> "$OUT"
    rm -f "$S/verif/replays/"*.json
  done
  git revert --abort >/dev/null 2>&1; git reset -q --hard HEAD
done < "$S/plan.txt"
echo DONE >> "$OUT"

#!/bin/bash
# tools/matrix.sh <scratch-dir> [seed-name ...]
# Full seeds x checks matrix in a scratch copy (never touches /repo's or /verif's working trees):
#   <scratch>/repo  = git worktree of /repo HEAD, <scratch>/verif = copy of /verif (no build output), path deps rewritten.
# Result lines go to <scratch>/matrix.tsv : seed <tab> check <tab> rc <tab> signature
set -u
S="${1:?scratch dir}"; shift
mkdir -p "$S"
if [ ! -d "$S/repo" ]; then git -C /repo worktree add -q --detach "$S/repo" HEAD || exit 2; fi
rsync -a --delete --exclude harness/target --exclude 'harness/.build*' --exclude evidence --exclude replays /verif/ "$S/verif/"
mkdir -p "$S/verif/evidence" "$S/verif/replays"
sed -i "s#/repo/crates/#$S/repo/crates/#" "$S/verif/harness/verif/Cargo.toml"
SEEDS=("$@"); if [ ${#SEEDS[@]} -eq 0 ]; then SEEDS=($(ls /verif/seeded | grep -E '^C[0-9]+-')); fi
CHECKS="${CHECKS:-C01 C02 C03 C04 C05 C06 C07 C08 C09 C10 C11 C12 C13 C14 C15 C16 C17 C18 C19 C20}"
OUT="$S/matrix.tsv"
for seed in "${SEEDS[@]}"; do
  d=/verif/seeded/$seed
  P=$d/patch.diff; [ -f $d/patch-on-hooks.diff ] && P=$d/patch-on-hooks.diff
  cd "$S/repo" && git checkout -q -- . && git reset -q
  if git apply --check "$P" 2>/dev/null; then git apply "$P"
  elif git apply --3way "$P" >/dev/null 2>&1; then git reset -q
  else git checkout -q -- .; git reset -q; echo -e "$seed\t-\t3\tPATCH-DOES-NOT-APPLY" >> "$OUT"; continue; fi
  for id in $CHECKS; do
    out=$(cd "$S/verif" && VERIF_SEED=${VERIF_SEED:-1} ./check "$id" ${TIER:-quick} 2>&1); rc=$?
    sig=$(echo "$out" | grep -o 'signature=[^ ]*' | head -1)
    [ $rc -eq 2 ] && sig="$sig $(echo "$out" | grep -E 'INCONCLUSIVE|BUILD FAILED' | head -1 | cut -c1-200)"
    echo -e "$seed\t$id\t$rc\t$sig" >> "$OUT"
    rm -f "$S/verif/replays/"*.json
  done
done
cd "$S/repo" && git checkout -q -- . && git reset -q
echo DONE >> "$OUT"

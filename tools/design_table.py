#!/usr/bin/env python3
"""Print the rows of DESIGN.md §10.0 from the evidence files of the last quick runs."""
import json
def n(x): return f"{x:,}".replace(",", " ")
for k in range(1, 21):
    i = f"C{k:02d}"
    d = json.load(open(f"/verif/evidence/{i}.json"))
    c = d["coverage"]
    names = []
    for x in c["campaigns"]:
        nm = "regression corpus" if x["name"] == "regression-corpus" else x["name"]
        if x["name"] in c.get("exhaustive_campaigns", []):
            nm += " (exhaustive)"
        if nm not in names:
            names.append(nm)
    print(f"| {i} | {', '.join(names)} | {n(c['evaluations'])} | {n(c['distinct_nontrivial'])} | {d['wall_s']:.0f} s |")

#!/usr/bin/env python3
"""Print the rows of DESIGN.md §10.0 from the evidence files of the last quick runs."""
import json
for k in range(1, 21):
    i = f"C{k:02d}"
    d = json.load(open(f"/verif/evidence/{i}.json"))
    camps = d["coverage"]["campaigns"]
    names = ", ".join(("regression corpus" if c["name"] == "regression-corpus" else c["name"]) + (" (exhaustive)" if c.get("kind") == "exhaustive" and c.get("complete") else "") for c in camps)
    ev = sum(c.get("evaluations", 0) for c in camps)
    nt = sum(c.get("new_distinct_nontrivial", 0) for c in camps)
    print(f"| {i} | {names} | {ev:,} | {nt:,} | {d['wall_s']:.0f} s | {d['tier']} |".replace(",", " ").replace("  ", ", ").replace("|, ", "| "))

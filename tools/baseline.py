#!/usr/bin/env python3
"""Run the repository's own test suite (guard OFF: no --cfg edp_rs_verif) and check that every test
listed as stable in /root/.vp/BASELINE.json still passes.  Exit 0 iff none of them failed or vanished."""
import json, re, subprocess, sys, os
base = json.load(open('/root/.vp/BASELINE.json'))
stable = set(base['stable_pass'])
env = dict(os.environ, CARGO_NET_OFFLINE='true')
env.pop('RUSTFLAGS', None)
p = subprocess.run(['cargo', 'test', '--workspace', '--no-fail-fast', '--offline'], cwd=os.environ.get('REPO_DIR','/repo'),
                   stdout=subprocess.PIPE, stderr=subprocess.STDOUT, text=True, env=env)
results = {}
crate = binary = None
for line in p.stdout.splitlines():
    m = re.match(r'\s*Running (\S+) \(target/\S+/deps/([A-Za-z0-9_]+)-[0-9a-f]+\)', line)
    if m:
        path, binary = m.group(1), m.group(2)
        mm = re.match(r'crates/([^/]+)/', path)
        # unittests: "unittests src/lib.rs" has a different shape; handled below
        crate = mm.group(1) if mm else None
        continue
    m = re.match(r'\s*Running unittests (\S+) \(target/\S+/deps/([A-Za-z0-9_]+)-[0-9a-f]+\)', line)
    if m:
        crate, binary = None, m.group(2)
        continue
    m = re.match(r'test (\S+) \.\.\. (ok|FAILED|ignored)', line)
    if m and binary:
        name, res = m.group(1), m.group(2)
        results.setdefault(binary + '::' + name, res)
# baseline names are <crate>::<binary>::<test>; match on the <binary>::<test> suffix
bad = []
for s in sorted(stable):
    suffix = s.split('::', 1)[1]
    r = results.get(suffix)
    if r != 'ok':
        bad.append((s, r))
print(f"baseline: {len(stable)} stable tests, {len(stable) - len(bad)} passed, {len(bad)} not passing; "
      f"suite total ok={sum(1 for v in results.values() if v == 'ok')} failed={sum(1 for v in results.values() if v == 'FAILED')}")
for s, r in bad[:40]:
    print("  NOT PASSING:", s, r)
sys.exit(1 if bad else 0)

#!/bin/bash
# tools/run_thorough.sh <scratch-dir> [ID ...] : run thorough tiers in a scratch copy (repo worktree + verif copy), one after the other.
# Result lines: <scratch>/thorough.tsv : ID rc wall_s summary
set -u
S="${1:?scratch dir}"; shift
mkdir -p "$S"
[ -d "$S/repo" ] || git -C /repo worktree add -q --detach "$S/repo" HEAD || exit 2
( cd "$S/repo" && git checkout -q --detach $(git -C /repo rev-parse HEAD) )
rsync -a --delete --exclude harness/target --exclude 'harness/.build*' --exclude evidence --exclude replays --exclude harness/fuzz/corpus --exclude harness/fuzz/artifacts /verif/ "$S/verif/"
mkdir -p "$S/verif/evidence" "$S/verif/replays"
sed -i "s#/repo/crates/#$S/repo/crates/#" "$S/verif/harness/verif/Cargo.toml"
IDS=("$@"); [ ${#IDS[@]} -eq 0 ] && IDS=(C01 C02 C03 C04 C05 C06 C07 C08 C09 C10 C11 C12 C13 C14 C15 C16 C17 C18 C19 C20)
for id in "${IDS[@]}"; do
  t0=$(date +%s)
  out=$(cd "$S/verif" && VERIF_SEED=${VERIF_SEED:-1} ./check "$id" thorough 2>&1); rc=$?
  t1=$(date +%s)
  echo -e "$id\t$rc\t$((t1-t0))\t$(echo "$out" | grep -E "^$id thorough|VIOLATION|INCONCLUSIVE" | head -3 | tr '\n' ' ' | cut -c1-500)" >> "$S/thorough.tsv"
  cp "$S/verif/evidence/$id.json" "$S/evidence-thorough-$id.json" 2>/dev/null
done
echo DONE >> "$S/thorough.tsv"

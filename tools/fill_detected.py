#!/usr/bin/env python3
"""Fill detected_by in /verif/seeded/*/meta.json from the seeds x checks matrices (seeded/MATRIX-*.tsv) plus
seeded/manual_detection.tsv (seed <tab> check <tab> signature; runs made by hand with tools/try_patch.sh after a check was
strengthened, i.e. later than the matrix run)."""
import json, glob, os, collections
det = collections.defaultdict(dict)
for f in sorted(glob.glob('/verif/seeded/MATRIX-*.tsv')) + ['/verif/seeded/manual_detection.tsv']:
    if not os.path.exists(f): continue
    for l in open(f):
        r = l.rstrip('\n').split('\t')
        if len(r) < 3 or r[2] != '1': continue
        det[r[0]][r[1]] = (r[3] if len(r) > 3 else '').replace('signature=', '').strip()
for d in sorted(glob.glob('/verif/seeded/C*-m*')):
    mp = os.path.join(d, 'meta.json')
    if not os.path.exists(mp): continue
    m = json.load(open(mp)); name = m['name']
    m['detected_by'] = [{"check": c, "tier": "quick", "signature": s} for c, s in sorted(det.get(name, {}).items())]
    own = m['breaks_property']
    m['detected_by_own_check'] = own in det.get(name, {})
    json.dump(m, open(mp, 'w'), indent=1)
    if not m['detected_by']: print('NOT DETECTED:', name)
print('seeds:', len(glob.glob('/verif/seeded/C*-m*')))

//! Protocol tables and tiny independent implementations of framing / handshake messages,
//! written from the erl_dist_protocol documentation (OTP 26/27).

/// Control message table: (name, tag, arity including the tag, field names in wire order).
/// SPAWN_REQUEST's ArgList travels as the payload, not in the control tuple.
pub const CONTROL_TABLE: &[(&str, u8, usize, &[&str])] = &[
    ("LINK", 1, 3, &["FromPid", "ToPid"]),
    ("SEND", 2, 3, &["Unused", "ToPid"]),
    ("EXIT", 3, 4, &["FromPid", "ToPid", "Reason"]),
    ("UNLINK", 4, 3, &["FromPid", "ToPid"]),
    ("NODE_LINK", 5, 1, &[]),
    ("REG_SEND", 6, 4, &["FromPid", "Unused", "ToName"]),
    ("GROUP_LEADER", 7, 3, &["FromPid", "ToPid"]),
    ("EXIT2", 8, 4, &["FromPid", "ToPid", "Reason"]),
    ("SEND_TT", 12, 4, &["Unused", "ToPid", "TraceToken"]),
    ("EXIT_TT", 13, 5, &["FromPid", "ToPid", "TraceToken", "Reason"]),
    ("REG_SEND_TT", 16, 5, &["FromPid", "Unused", "ToName", "TraceToken"]),
    ("EXIT2_TT", 18, 5, &["FromPid", "ToPid", "TraceToken", "Reason"]),
    ("MONITOR_P", 19, 4, &["FromPid", "ToProc", "Ref"]),
    ("DEMONITOR_P", 20, 4, &["FromPid", "ToProc", "Ref"]),
    ("MONITOR_P_EXIT", 21, 5, &["FromProc", "ToPid", "Ref", "Reason"]),
    ("SEND_SENDER", 22, 3, &["FromPid", "ToPid"]),
    ("SEND_SENDER_TT", 23, 4, &["FromPid", "ToPid", "TraceToken"]),
    ("PAYLOAD_EXIT", 24, 3, &["FromPid", "ToPid"]),
    ("PAYLOAD_EXIT_TT", 25, 4, &["FromPid", "ToPid", "TraceToken"]),
    ("PAYLOAD_EXIT2", 26, 3, &["FromPid", "ToPid"]),
    ("PAYLOAD_EXIT2_TT", 27, 4, &["FromPid", "ToPid", "TraceToken"]),
    ("PAYLOAD_MONITOR_P_EXIT", 28, 4, &["FromProc", "ToPid", "Ref"]),
    ("SPAWN_REQUEST", 29, 6, &["ReqId", "From", "GroupLeader", "MFA", "OptList"]),
    ("SPAWN_REQUEST_TT", 30, 7, &["ReqId", "From", "GroupLeader", "MFA", "OptList", "TraceToken"]),
    ("SPAWN_REPLY", 31, 5, &["ReqId", "To", "Flags", "Result"]),
    ("SPAWN_REPLY_TT", 32, 6, &["ReqId", "To", "Flags", "Result", "TraceToken"]),
    ("ALIAS_SEND", 33, 3, &["FromPid", "Alias"]),
    ("ALIAS_SEND_TT", 34, 4, &["FromPid", "Alias", "TraceToken"]),
    ("UNLINK_ID", 35, 4, &["Id", "FromPid", "ToPid"]),
    ("UNLINK_ID_ACK", 36, 4, &["Id", "FromPid", "ToPid"]),
];

pub fn control_row(tag: u8) -> Option<&'static (&'static str, u8, usize, &'static [&'static str])> {
    CONTROL_TABLE.iter().find(|r| r.1 == tag)
}

// ---- framing ---------------------------------------------------------------------------------

pub fn frame2(payload: &[u8]) -> Vec<u8> {
    let mut o = (payload.len() as u16).to_be_bytes().to_vec();
    o.extend_from_slice(payload);
    o
}

pub fn frame4(payload: &[u8]) -> Vec<u8> {
    let mut o = (payload.len() as u32).to_be_bytes().to_vec();
    o.extend_from_slice(payload);
    o
}

/// Independent incremental deframer.
#[derive(Default)]
pub struct Deframer {
    pub buf: Vec<u8>,
}

impl Deframer {
    pub fn push(&mut self, data: &[u8]) {
        self.buf.extend_from_slice(data);
    }
    /// next complete frame with an n-byte (2 or 4) length prefix
    pub fn next(&mut self, prefix: usize) -> Option<Vec<u8>> {
        if self.buf.len() < prefix {
            return None;
        }
        let len = if prefix == 2 {
            u16::from_be_bytes([self.buf[0], self.buf[1]]) as usize
        } else {
            u32::from_be_bytes([self.buf[0], self.buf[1], self.buf[2], self.buf[3]]) as usize
        };
        if self.buf.len() < prefix + len {
            return None;
        }
        let f = self.buf[prefix..prefix + len].to_vec();
        self.buf.drain(..prefix + len);
        Some(f)
    }
}

// ---- handshake messages (initiator = library, responder = scripted peer) -----------------------

#[derive(Debug, Clone, PartialEq, Eq)]
pub enum SendName {
    /// 'n' Version(2)=5 Flags(4) Name
    Old { version: u16, flags: u32, name: Vec<u8> },
    /// 'N' Flags(8) Creation(4) NameLen(2) Name
    New { flags: u64, creation: u32, name: Vec<u8> },
}

pub fn parse_send_name(p: &[u8]) -> Result<SendName, String> {
    match p.first() {
        Some(b'n') => {
            if p.len() < 7 {
                return Err("short 'n'".into());
            }
            Ok(SendName::Old {
                version: u16::from_be_bytes([p[1], p[2]]),
                flags: u32::from_be_bytes([p[3], p[4], p[5], p[6]]),
                name: p[7..].to_vec(),
            })
        }
        Some(b'N') => {
            if p.len() < 15 {
                return Err("short 'N'".into());
            }
            let flags = u64::from_be_bytes(p[1..9].try_into().unwrap());
            let creation = u32::from_be_bytes(p[9..13].try_into().unwrap());
            let nlen = u16::from_be_bytes([p[13], p[14]]) as usize;
            if p.len() != 15 + nlen {
                return Err(format!("'N' name length {} but {} bytes follow", nlen, p.len() - 15));
            }
            Ok(SendName::New { flags, creation, name: p[15..].to_vec() })
        }
        other => Err(format!("send_name tag {:?}", other)),
    }
}

pub fn status(s: &str) -> Vec<u8> {
    let mut o = vec![b's'];
    o.extend_from_slice(s.as_bytes());
    o
}

/// new-style challenge: 'N' Flags(8) Challenge(4) Creation(4) NameLen(2) Name
pub fn challenge_new(flags: u64, challenge: u32, creation: u32, name: &[u8]) -> Vec<u8> {
    let mut o = vec![b'N'];
    o.extend_from_slice(&flags.to_be_bytes());
    o.extend_from_slice(&challenge.to_be_bytes());
    o.extend_from_slice(&creation.to_be_bytes());
    o.extend_from_slice(&(name.len() as u16).to_be_bytes());
    o.extend_from_slice(name);
    o
}

/// complement: 'c' FlagsHigh(4) Creation(4)
pub fn parse_complement(p: &[u8]) -> Result<(u32, u32), String> {
    if p.len() != 9 || p[0] != b'c' {
        return Err(format!("bad complement message ({} bytes, tag {:?})", p.len(), p.first()));
    }
    Ok((u32::from_be_bytes(p[1..5].try_into().unwrap()), u32::from_be_bytes(p[5..9].try_into().unwrap())))
}

/// reply: 'r' Challenge(4) Digest(16)
pub fn parse_reply(p: &[u8]) -> Result<(u32, [u8; 16]), String> {
    if p.len() != 21 || p[0] != b'r' {
        return Err(format!("bad challenge reply ({} bytes, tag {:?})", p.len(), p.first()));
    }
    let mut d = [0u8; 16];
    d.copy_from_slice(&p[5..21]);
    Ok((u32::from_be_bytes(p[1..5].try_into().unwrap()), d))
}

pub fn ack(digest: &[u8; 16]) -> Vec<u8> {
    let mut o = vec![b'a'];
    o.extend_from_slice(digest);
    o
}

//! Minimal arbitrary-precision signed integer: sign + little-endian base-256 magnitude.
//! Only what the oracles need: construction, normalisation, exact comparison with other
//! integers and with finite f64 values.  Written from scratch (no bigint crate offline).

use serde::{Deserialize, Serialize};
use std::cmp::Ordering;

#[derive(Clone, Debug, PartialEq, Eq, PartialOrd, Ord, Hash, Serialize, Deserialize)]
pub struct BigI {
    pub neg: bool,
    /// little-endian base-256 digits, no trailing (most significant) zero bytes; zero = empty
    pub mag: Vec<u8>,
}

pub fn trim(mut mag: Vec<u8>) -> Vec<u8> {
    while let Some(&0) = mag.last() {
        mag.pop();
    }
    mag
}

pub fn cmp_mag(a: &[u8], b: &[u8]) -> Ordering {
    // both normalised
    if a.len() != b.len() {
        return a.len().cmp(&b.len());
    }
    for i in (0..a.len()).rev() {
        if a[i] != b[i] {
            return a[i].cmp(&b[i]);
        }
    }
    Ordering::Equal
}

impl BigI {
    pub fn zero() -> Self {
        BigI { neg: false, mag: vec![] }
    }
    pub fn from_parts(neg: bool, digits: &[u8]) -> Self {
        let mag = trim(digits.to_vec());
        let neg = neg && !mag.is_empty();
        BigI { neg, mag }
    }
    pub fn from_u128(neg: bool, v: u128) -> Self {
        Self::from_parts(neg, &v.to_le_bytes())
    }
    pub fn from_i128(v: i128) -> Self {
        Self::from_u128(v < 0, v.unsigned_abs())
    }
    pub fn from_i64(v: i64) -> Self {
        Self::from_i128(v as i128)
    }
    pub fn from_u64(v: u64) -> Self {
        Self::from_u128(false, v as u128)
    }
    pub fn is_zero(&self) -> bool {
        self.mag.is_empty()
    }
    pub fn to_i128(&self) -> Option<i128> {
        if self.mag.len() > 16 {
            return None;
        }
        let mut b = [0u8; 16];
        b[..self.mag.len()].copy_from_slice(&self.mag);
        let m = u128::from_le_bytes(b);
        if self.neg {
            if m <= (i128::MAX as u128) + 1 {
                Some((m as i128).wrapping_neg())
            } else {
                None
            }
        } else if m <= i128::MAX as u128 {
            Some(m as i128)
        } else {
            None
        }
    }
    pub fn to_i64(&self) -> Option<i64> {
        self.to_i128().and_then(|v| i64::try_from(v).ok())
    }
    pub fn to_u64(&self) -> Option<u64> {
        self.to_i128().and_then(|v| u64::try_from(v).ok())
    }
    pub fn signum(&self) -> i32 {
        if self.mag.is_empty() {
            0
        } else if self.neg {
            -1
        } else {
            1
        }
    }
    pub fn cmp_value(&self, o: &BigI) -> Ordering {
        match self.signum().cmp(&o.signum()) {
            Ordering::Equal => {}
            x => return x,
        }
        let m = cmp_mag(&self.mag, &o.mag);
        if self.neg {
            m.reverse()
        } else {
            m
        }
    }
    /// Exact comparison with a finite float.
    pub fn cmp_f64(&self, f: f64) -> Ordering {
        assert!(f.is_finite());
        let sf = if f == 0.0 {
            0
        } else if f < 0.0 {
            -1
        } else {
            1
        };
        match self.signum().cmp(&sf) {
            Ordering::Equal => {}
            x => return x,
        }
        if sf == 0 {
            return Ordering::Equal;
        }
        let (floor, frac_nz) = f64_abs_floor(f.abs());
        let mut c = cmp_mag(&self.mag, &floor);
        if c == Ordering::Equal && frac_nz {
            c = Ordering::Less;
        }
        if self.neg {
            c.reverse()
        } else {
            c
        }
    }
    /// Decimal rendering (for samples / messages); O(n^2), fine for <= a few hundred digits.
    pub fn to_decimal(&self) -> String {
        if self.mag.is_empty() {
            return "0".into();
        }
        let mut digits: Vec<u8> = Vec::new(); // decimal, little-endian
        let mut m: Vec<u8> = self.mag.clone(); // LE base 256
        while !m.is_empty() {
            // divide m by 10
            let mut rem: u32 = 0;
            for i in (0..m.len()).rev() {
                let cur = rem * 256 + m[i] as u32;
                m[i] = (cur / 10) as u8;
                rem = cur % 10;
            }
            digits.push(rem as u8);
            m = trim(m);
        }
        let mut s = String::new();
        if self.neg {
            s.push('-');
        }
        for d in digits.iter().rev() {
            s.push((b'0' + d) as char);
        }
        s
    }
}

/// |a| > 0 finite: returns (floor(a) as normalised LE magnitude, fractional part non-zero)
pub fn f64_abs_floor(a: f64) -> (Vec<u8>, bool) {
    let bits = a.to_bits();
    let exp = ((bits >> 52) & 0x7ff) as i32;
    let frac = bits & ((1u64 << 52) - 1);
    let (m, e) = if exp == 0 { (frac, -1074) } else { (frac | (1u64 << 52), exp - 1075) };
    if e >= 0 {
        let e = e as usize;
        let mut v = vec![0u8; e / 8];
        let sh = (m as u128) << (e % 8);
        v.extend_from_slice(&sh.to_le_bytes());
        (trim(v), false)
    } else {
        let sh = (-e) as u32;
        if sh >= 64 {
            (vec![], m != 0)
        } else {
            let fl = m >> sh;
            let fr = m & ((1u64 << sh) - 1);
            (trim(fl.to_le_bytes().to_vec()), fr != 0)
        }
    }
}

#[cfg(test)]
mod tests {
    use super::*;
    #[test]
    fn cmp_float_exact() {
        let p53 = BigI::from_u64(1 << 53);
        let p53p1 = BigI::from_u64((1 << 53) + 1);
        let f = (1u64 << 53) as f64;
        assert_eq!(p53.cmp_f64(f), Ordering::Equal);
        assert_eq!(p53p1.cmp_f64(f), Ordering::Greater);
        assert_eq!(BigI::from_i64(-3).cmp_f64(-2.5), Ordering::Less);
        assert_eq!(BigI::from_i64(-2).cmp_f64(-2.5), Ordering::Greater);
        assert_eq!(BigI::from_i64(2).cmp_f64(2.5), Ordering::Less);
        assert_eq!(BigI::from_i64(0).cmp_f64(-0.0), Ordering::Equal);
        assert_eq!(BigI::from_i64(0).cmp_f64(5e-324), Ordering::Less);
        assert_eq!(BigI::from_u128(false, 1u128 << 100).cmp_f64(2f64.powi(100)), Ordering::Equal);
        assert_eq!(BigI::from_u128(false, (1u128 << 100) + 1).cmp_f64(2f64.powi(100)), Ordering::Greater);
        assert_eq!(BigI::from_i128(i128::MIN + 1).to_i128(), Some(i128::MIN + 1));
        assert_eq!(BigI::from_u64(1234567890123).to_decimal(), "1234567890123");
        assert_eq!(BigI::from_i64(i64::MIN).to_i64(), Some(i64::MIN));
    }
}

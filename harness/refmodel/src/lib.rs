//! Independent reference model for the edp-rs verification harness.
//! Nothing in this crate depends on the crates under test.
pub mod big;
pub mod dist;
pub mod etf;
pub mod md5;
pub mod order;
pub mod proto;
pub mod value;

pub use big::BigI;
pub use order::{erl_cmp, erl_eq, Cmp};
pub use value::Value;

//! The Erlang value a term denotes, independent of any wire or in-memory representation.

use crate::big::BigI;
use serde::{Deserialize, Serialize};

#[derive(Clone, Debug, PartialEq, Eq, PartialOrd, Ord, Hash, Serialize, Deserialize)]
pub enum Value {
    Int(BigI),
    /// IEEE bits (finite only in generated data)
    Float(u64),
    Atom(String),
    /// bit string: `last_bits` (1..=8) significant bits in the last byte, unused low bits zero;
    /// empty => bytes empty and last_bits = 8
    Bits { bytes: Vec<u8>, last_bits: u8 },
    Tuple(Vec<Value>),
    /// flattened list: tail is never a List; `[]` is List{[],None}
    List { elems: Vec<Value>, tail: Option<Box<Value>> },
    /// association list keyed by exact equality; kept sorted by the derived structural order
    /// (see `canon`)
    Map(Vec<(Value, Value)>),
    Pid { node: String, id: u32, serial: u32, creation: u32 },
    Port { node: String, id: u64, creation: u32 },
    Ref { node: String, creation: u32, ids: Vec<u32> },
    ExportFun { module: String, function: String, arity: u8 },
    Fun {
        arity: u8,
        uniq: [u8; 16],
        index: u32,
        module: String,
        old_index: u32,
        old_uniq: u32,
        pid: Box<Value>,
        free: Vec<Value>,
    },
}

impl Value {
    pub fn int(v: i128) -> Value {
        Value::Int(BigI::from_i128(v))
    }
    pub fn float(f: f64) -> Value {
        Value::Float(f.to_bits())
    }
    pub fn atom(s: &str) -> Value {
        Value::Atom(s.to_string())
    }
    pub fn binary(b: &[u8]) -> Value {
        Value::Bits { bytes: b.to_vec(), last_bits: 8 }
    }
    pub fn nil() -> Value {
        Value::List { elems: vec![], tail: None }
    }
    pub fn list(elems: Vec<Value>) -> Value {
        Value::List { elems, tail: None }
    }
    pub fn is_nil(&self) -> bool {
        matches!(self, Value::List { elems, tail: None } if elems.is_empty())
    }

    /// Build a list value from elements and an arbitrary tail value, flattening list tails.
    pub fn cons_list(mut elems: Vec<Value>, tail: Value) -> Value {
        match tail {
            Value::List { elems: e2, tail: t2 } => {
                elems.extend(e2);
                Value::List { elems, tail: t2 }
            }
            other => {
                if elems.is_empty() {
                    other
                } else {
                    Value::List { elems, tail: Some(Box::new(other)) }
                }
            }
        }
    }

    /// Bit string with masking of unused bits and normalisation of the empty case.
    pub fn bits(bytes: &[u8], last_bits: u8) -> Value {
        let mut b = bytes.to_vec();
        if b.is_empty() {
            return Value::Bits { bytes: b, last_bits: 8 };
        }
        assert!((1..=8).contains(&last_bits));
        if last_bits < 8 {
            let n = b.len();
            b[n - 1] &= 0xffu8 << (8 - last_bits);
        }
        Value::Bits { bytes: b, last_bits }
    }

    /// Canonical form: map entries sorted by the structural order, recursively. Two values are
    /// the same Erlang value (exact, 1 =/= 1.0) iff their canonical forms are `==`.
    pub fn canon(&self) -> Value {
        match self {
            Value::Tuple(v) => Value::Tuple(v.iter().map(|x| x.canon()).collect()),
            Value::List { elems, tail } => Value::List {
                elems: elems.iter().map(|x| x.canon()).collect(),
                tail: tail.as_ref().map(|t| Box::new(t.canon())),
            },
            Value::Map(m) => {
                let mut v: Vec<(Value, Value)> = m.iter().map(|(k, x)| (k.canon(), x.canon())).collect();
                v.sort();
                Value::Map(v)
            }
            Value::Fun { arity, uniq, index, module, old_index, old_uniq, pid, free } => Value::Fun {
                arity: *arity,
                uniq: *uniq,
                index: *index,
                module: module.clone(),
                old_index: *old_index,
                old_uniq: *old_uniq,
                pid: Box::new(pid.canon()),
                free: free.iter().map(|x| x.canon()).collect(),
            },
            other => other.clone(),
        }
    }

    pub fn same(&self, other: &Value) -> bool {
        self.canon() == other.canon()
    }

    pub fn node_count(&self) -> usize {
        1 + match self {
            Value::Tuple(v) => v.iter().map(|x| x.node_count()).sum(),
            Value::List { elems, tail } => {
                elems.iter().map(|x| x.node_count()).sum::<usize>() + tail.as_ref().map_or(0, |t| t.node_count())
            }
            Value::Map(m) => m.iter().map(|(k, v)| k.node_count() + v.node_count()).sum(),
            Value::Fun { pid, free, .. } => pid.node_count() + free.iter().map(|x| x.node_count()).sum::<usize>(),
            _ => 0,
        }
    }

    pub fn depth(&self) -> usize {
        1 + match self {
            Value::Tuple(v) => v.iter().map(|x| x.depth()).max().unwrap_or(0),
            Value::List { elems, tail } => elems
                .iter()
                .map(|x| x.depth())
                .chain(tail.iter().map(|t| t.depth()))
                .max()
                .unwrap_or(0),
            Value::Map(m) => m.iter().map(|(k, v)| k.depth().max(v.depth())).max().unwrap_or(0),
            Value::Fun { pid, free, .. } => free.iter().map(|x| x.depth()).max().unwrap_or(0).max(pid.depth()),
            _ => 0,
        }
    }

    /// Visit every node.
    pub fn walk<'a>(&'a self, f: &mut dyn FnMut(&'a Value)) {
        f(self);
        match self {
            Value::Tuple(v) => v.iter().for_each(|x| x.walk(f)),
            Value::List { elems, tail } => {
                elems.iter().for_each(|x| x.walk(f));
                if let Some(t) = tail {
                    t.walk(f)
                }
            }
            Value::Map(m) => m.iter().for_each(|(k, v)| {
                k.walk(f);
                v.walk(f)
            }),
            Value::Fun { pid, free, .. } => {
                pid.walk(f);
                free.iter().for_each(|x| x.walk(f))
            }
            _ => {}
        }
    }

    /// Short human rendering for samples (truncated).
    pub fn render(&self) -> String {
        let mut s = String::new();
        self.render_into(&mut s, 400);
        s
    }

    fn render_into(&self, s: &mut String, budget: usize) {
        use std::fmt::Write;
        if s.len() > budget {
            if !s.ends_with("...") {
                s.push_str("...");
            }
            return;
        }
        match self {
            Value::Int(b) => {
                if b.mag.len() <= 20 {
                    s.push_str(&b.to_decimal())
                } else {
                    let _ = write!(s, "{}<int {} bytes>", if b.neg { "-" } else { "" }, b.mag.len());
                }
            }
            Value::Float(b) => {
                let _ = write!(s, "{:e}", f64::from_bits(*b));
            }
            Value::Atom(a) => {
                if a.len() <= 24 {
                    let _ = write!(s, "'{}'", a);
                } else {
                    let _ = write!(s, "<atom {} bytes>", a.len());
                }
            }
            Value::Bits { bytes, last_bits } => {
                if bytes.len() <= 8 {
                    let _ = write!(s, "<<{:?}:{}>>", bytes, last_bits);
                } else {
                    let _ = write!(s, "<<{} bytes:{}>>", bytes.len(), last_bits);
                }
            }
            Value::Tuple(v) => {
                s.push('{');
                for (i, x) in v.iter().enumerate() {
                    if i > 0 {
                        s.push(',');
                    }
                    if i > 12 {
                        let _ = write!(s, "..+{}", v.len() - i);
                        break;
                    }
                    x.render_into(s, budget);
                }
                s.push('}');
            }
            Value::List { elems, tail } => {
                s.push('[');
                for (i, x) in elems.iter().enumerate() {
                    if i > 0 {
                        s.push(',');
                    }
                    if i > 12 {
                        let _ = write!(s, "..+{}", elems.len() - i);
                        break;
                    }
                    x.render_into(s, budget);
                }
                if let Some(t) = tail {
                    s.push('|');
                    t.render_into(s, budget);
                }
                s.push(']');
            }
            Value::Map(m) => {
                s.push_str("#{");
                for (i, (k, v)) in m.iter().enumerate() {
                    if i > 0 {
                        s.push(',');
                    }
                    if i > 8 {
                        let _ = write!(s, "..+{}", m.len() - i);
                        break;
                    }
                    k.render_into(s, budget);
                    s.push_str("=>");
                    v.render_into(s, budget);
                }
                s.push('}');
            }
            Value::Pid { node, id, serial, creation } => {
                let _ = write!(s, "pid<{}:{}.{}.{}>", trunc(node), id, serial, creation);
            }
            Value::Port { node, id, creation } => {
                let _ = write!(s, "port<{}:{}.{}>", trunc(node), id, creation);
            }
            Value::Ref { node, creation, ids } => {
                if ids.len() <= 5 {
                    let _ = write!(s, "ref<{}:{}:{:?}>", trunc(node), creation, ids);
                } else {
                    let _ = write!(s, "ref<{}:{}:{} words>", trunc(node), creation, ids.len());
                }
            }
            Value::ExportFun { module, function, arity } => {
                let _ = write!(s, "fun {}:{}/{}", trunc(module), trunc(function), arity);
            }
            Value::Fun { arity, index, module, old_index, old_uniq, free, .. } => {
                let _ = write!(s, "fun<{}.{}/{} oi={} ou={} free=[", trunc(module), index, arity, old_index, old_uniq);
                for (i, x) in free.iter().enumerate() {
                    if i > 0 {
                        s.push(',');
                    }
                    x.render_into(s, budget);
                }
                s.push_str("]>");
            }
        }
    }
}

fn trunc(s: &str) -> String {
    if s.len() <= 24 {
        s.to_string()
    } else {
        format!("<{} bytes>", s.len())
    }
}

//! Erlang's standard term order on `Value`s (OTP reference manual, "Term Comparisons"):
//! number < atom < reference < fun < port < pid < tuple < map < nil < list < bit string.
//! The relative order of two *distinct* references / funs / ports / pids is left unspecified
//! here on purpose (`Cmp::Unspecified`): the listed property fixes rank and equality only.

use crate::big::BigI;
use crate::value::Value;
use std::cmp::Ordering;

#[derive(Clone, Copy, Debug, PartialEq, Eq)]
pub enum Cmp {
    Less,
    Equal,
    Greater,
    /// not equal, direction not prescribed by the oracle
    Unspecified,
    /// the listed property does not say (e.g. funs differing only in arity, maps whose keys are
    /// numerically equal but of different numeric type): any answer is accepted
    Either,
}

impl From<Ordering> for Cmp {
    fn from(o: Ordering) -> Cmp {
        match o {
            Ordering::Less => Cmp::Less,
            Ordering::Equal => Cmp::Equal,
            Ordering::Greater => Cmp::Greater,
        }
    }
}

impl Cmp {
    pub fn reverse(self) -> Cmp {
        match self {
            Cmp::Less => Cmp::Greater,
            Cmp::Greater => Cmp::Less,
            x => x,
        }
    }
    /// does an observed Ordering satisfy this oracle verdict?
    pub fn admits(self, o: Ordering) -> bool {
        match self {
            Cmp::Less => o == Ordering::Less,
            Cmp::Equal => o == Ordering::Equal,
            Cmp::Greater => o == Ordering::Greater,
            Cmp::Unspecified => o != Ordering::Equal,
            Cmp::Either => true,
        }
    }
}

pub fn rank(v: &Value) -> u8 {
    match v {
        Value::Int(_) | Value::Float(_) => 0,
        Value::Atom(_) => 1,
        Value::Ref { .. } => 2,
        Value::ExportFun { .. } | Value::Fun { .. } => 3,
        Value::Port { .. } => 4,
        Value::Pid { .. } => 5,
        Value::Tuple(_) => 6,
        Value::Map(_) => 7,
        Value::List { elems, tail } => {
            if elems.is_empty() && tail.is_none() {
                8
            } else {
                9
            }
        }
        Value::Bits { .. } => 10,
    }
}

fn num_cmp(a: &Value, b: &Value) -> Ordering {
    match (a, b) {
        (Value::Int(x), Value::Int(y)) => x.cmp_value(y),
        (Value::Float(x), Value::Float(y)) => {
            f64::from_bits(*x).partial_cmp(&f64::from_bits(*y)).expect("finite floats")
        }
        (Value::Int(x), Value::Float(y)) => x.cmp_f64(f64::from_bits(*y)),
        (Value::Float(x), Value::Int(y)) => y.cmp_f64(f64::from_bits(*x)).reverse(),
        _ => unreachable!(),
    }
}

/// Compare two bit strings bit by bit; a proper prefix is smaller.
pub fn bits_cmp(a: &[u8], abits: u8, b: &[u8], bbits: u8) -> Ordering {
    let total = |bytes: &[u8], last: u8| -> usize {
        if bytes.is_empty() {
            0
        } else {
            (bytes.len() - 1) * 8 + last as usize
        }
    };
    let ta = total(a, abits);
    let tb = total(b, bbits);
    let common = ta.min(tb);
    let full = common / 8;
    match a[..full].cmp(&b[..full]) {
        Ordering::Equal => {}
        x => return x,
    }
    for i in (full * 8)..common {
        let ba = (a[i / 8] >> (7 - (i % 8))) & 1;
        let bb = (b[i / 8] >> (7 - (i % 8))) & 1;
        if ba != bb {
            return ba.cmp(&bb);
        }
    }
    ta.cmp(&tb)
}

fn seq(a: &[Value], b: &[Value]) -> Cmp {
    for (x, y) in a.iter().zip(b.iter()) {
        match erl_cmp(x, y) {
            Cmp::Equal => continue,
            other => return other,
        }
    }
    Cmp::Equal
}

/// Order used to sort map keys before comparing maps: the term order, except that an integer
/// sorts before a float it is numerically equal to.  Only used on keys of one map, which
/// are pairwise distinct by exact equality.
fn key_sort_cmp(a: &Value, b: &Value) -> Ordering {
    match erl_cmp(a, b) {
        Cmp::Less => Ordering::Less,
        Cmp::Greater => Ordering::Greater,
        // numerically equal but distinct, or distinct identifiers: fall back to a deterministic
        // structural order with Int < Float (derive order of the enum has Int first).
        Cmp::Equal | Cmp::Unspecified | Cmp::Either => a.cmp(b),
    }
}

pub fn erl_cmp(a: &Value, b: &Value) -> Cmp {
    let (ra, rb) = (rank(a), rank(b));
    if ra != rb {
        return ra.cmp(&rb).into();
    }
    match (a, b) {
        (Value::Int(_) | Value::Float(_), Value::Int(_) | Value::Float(_)) => num_cmp(a, b).into(),
        (Value::Atom(x), Value::Atom(y)) => x.as_bytes().cmp(y.as_bytes()).into(),
        (Value::Ref { .. }, Value::Ref { .. })
        | (Value::Port { .. }, Value::Port { .. })
        | (Value::Pid { .. }, Value::Pid { .. }) => {
            if a == b {
                Cmp::Equal
            } else {
                Cmp::Unspecified
            }
        }
        (Value::ExportFun { .. } | Value::Fun { .. }, Value::ExportFun { .. } | Value::Fun { .. }) => {
            fun_cmp(a, b)
        }
        (Value::Tuple(x), Value::Tuple(y)) => {
            if x.len() != y.len() {
                return x.len().cmp(&y.len()).into();
            }
            seq(x, y)
        }
        (Value::Map(x), Value::Map(y)) => {
            if x.len() != y.len() {
                return x.len().cmp(&y.len()).into();
            }
            // Keys are compared "in key order".  When that order is itself left open for two keys of one map (distinct
            // identifiers, or keys whose comparison meets an open case further down), which key of one map meets which key
            // of the other is open too: then only equality is decided (same keys exactly, values ==).
            let open_order = |m: &[(Value, Value)]| (0..m.len()).any(|i| (i + 1..m.len()).any(|j| !matches!(erl_cmp(&m[i].0, &m[j].0), Cmp::Less | Cmp::Greater)));
            if open_order(x) || open_order(y) {
                let equal = x.iter().all(|(k, v)| y.iter().any(|(k2, v2)| k.canon() == k2.canon() && erl_cmp(v, v2) == Cmp::Equal));
                // (keys that are == but of different numeric type: the statement is silent, as below)
                return if equal { Cmp::Equal } else if loose_eq(a, b) { Cmp::Either } else { Cmp::Unspecified };
            }
            let mut xs: Vec<&(Value, Value)> = x.iter().collect();
            let mut ys: Vec<&(Value, Value)> = y.iter().collect();
            xs.sort_by(|p, q| key_sort_cmp(&p.0, &q.0));
            ys.sort_by(|p, q| key_sort_cmp(&p.0, &q.0));
            for (p, q) in xs.iter().zip(ys.iter()) {
                match erl_cmp(&p.0, &q.0) {
                    Cmp::Equal => {
                        // keys == but not identical (1 vs 1.0 somewhere inside): Erlang orders the
                        // integer first; the property statement is silent, accept any answer
                        if p.0.canon() != q.0.canon() {
                            return Cmp::Either;
                        }
                    }
                    other => return other,
                }
            }
            for (p, q) in xs.iter().zip(ys.iter()) {
                match erl_cmp(&p.1, &q.1) {
                    Cmp::Equal => continue,
                    other => return other,
                }
            }
            Cmp::Equal
        }
        (Value::List { elems: x, tail: tx }, Value::List { elems: y, tail: ty }) => {
            // both nil handled by rank equality (8,8) -> falls here with empty elems
            match seq(x, y) {
                Cmp::Equal => {}
                other => return other,
            }
            if x.len() == y.len() {
                match (tx, ty) {
                    (None, None) => Cmp::Equal,
                    (None, Some(t)) => 8u8.cmp(&rank(t)).into(),
                    (Some(t), None) => rank(t).cmp(&8u8).into(),
                    (Some(p), Some(q)) => erl_cmp(p, q),
                }
            } else if x.len() < y.len() {
                // a's rest: its tail or nil; b's rest: a cons cell (rank 9)
                let r = tx.as_ref().map_or(8, |t| rank(t));
                r.cmp(&9u8).into()
            } else {
                let r = ty.as_ref().map_or(8, |t| rank(t));
                9u8.cmp(&r).into()
            }
        }
        (Value::Bits { bytes: x, last_bits: xb }, Value::Bits { bytes: y, last_bits: yb }) => {
            bits_cmp(x, *xb, y, *yb).into()
        }
        _ => unreachable!("same rank, different kind"),
    }
}

/// funs: identified by their identifying fields; order between distinct funs unspecified.
fn fun_cmp(a: &Value, b: &Value) -> Cmp {
    match (a, b) {
        (Value::ExportFun { .. }, Value::ExportFun { .. }) => {
            if a == b {
                Cmp::Equal
            } else {
                Cmp::Unspecified
            }
        }
        (
            Value::Fun { arity: a1, uniq: u1, index: i1, module: m1, old_index: oi1, old_uniq: ou1, pid: p1, free: f1 },
            Value::Fun { arity: a2, uniq: u2, index: i2, module: m2, old_index: oi2, old_uniq: ou2, pid: p2, free: f2 },
        ) => {
            if u1 != u2 || i1 != i2 || m1 != m2 || oi1 != oi2 || ou1 != ou2 || p1 != p2 || f1.len() != f2.len() {
                return Cmp::Unspecified;
            }
            match seq(f1, f2) {
                // the arity is implied by module/index/uniq in a real system; a pair differing in
                // nothing but the arity is outside what the property pins down
                Cmp::Equal => {
                    if a1 != a2 {
                        Cmp::Either
                    } else {
                        Cmp::Equal
                    }
                }
                Cmp::Either => Cmp::Either,
                _ => Cmp::Unspecified,
            }
        }
        _ => Cmp::Unspecified,
    }
}

pub fn erl_eq(a: &Value, b: &Value) -> bool {
    erl_cmp(a, b) == Cmp::Equal
}

/// Equality under an order that compares numbers by value *everywhere*, also where Erlang compares exactly (between the
/// keys of two maps): `#{0 => a}` and `#{0.0 => a}` are different maps in Erlang (and unequal under `==`), but equal here.
/// This is the equality of the library's term order, under which its maps are keyed (known finding C03-F1).
pub fn loose_eq(a: &Value, b: &Value) -> bool {
    match (a, b) {
        (Value::Map(x), Value::Map(y)) => x.len() == y.len() && x.iter().all(|(k, v)| y.iter().any(|(k2, v2)| loose_eq(k, k2) && loose_eq(v, v2))),
        (Value::Tuple(x), Value::Tuple(y)) => x.len() == y.len() && x.iter().zip(y).all(|(p, q)| loose_eq(p, q)),
        (Value::List { elems: x, tail: tx }, Value::List { elems: y, tail: ty }) => {
            x.len() == y.len()
                && x.iter().zip(y).all(|(p, q)| loose_eq(p, q))
                && match (tx, ty) {
                    (None, None) => true,
                    (Some(p), Some(q)) => loose_eq(p, q),
                    _ => false,
                }
        }
        (Value::Fun { free: fx, .. }, Value::Fun { free: fy, .. }) => {
            // same fun apart from loosely equal free variables
            let strip = |v: &Value| match v {
                Value::Fun { arity, uniq, index, module, old_index, old_uniq, pid, .. } => (*arity, *uniq, *index, module.clone(), *old_index, *old_uniq, pid.clone()),
                _ => unreachable!(),
            };
            strip(a) == strip(b) && fx.len() == fy.len() && fx.iter().zip(fy).all(|(p, q)| loose_eq(p, q))
        }
        _ => erl_cmp(a, b) == Cmp::Equal,
    }
}

/// Does the value contain, anywhere in a map, two keys that the library's order calls equal although they are not
/// identical (1 and 1.0; `#{0 => a}` and `#{0.0 => a}`)?  Such maps are not representable in the library (known finding).
pub fn has_numerically_equal_keys(v: &Value) -> bool {
    let mut found = false;
    v.walk(&mut |x| {
        if let Value::Map(m) = x {
            for i in 0..m.len() {
                for j in (i + 1)..m.len() {
                    if loose_eq(&m[i].0, &m[j].0) {
                        found = true;
                    }
                }
            }
        }
    });
    found
}

#[allow(dead_code)]
fn _unused(_: &BigI) {}

#[cfg(test)]
mod tests {
    use super::*;
    fn i(v: i128) -> Value {
        Value::int(v)
    }
    #[test]
    fn basics() {
        assert_eq!(erl_cmp(&i(1), &Value::float(1.0)), Cmp::Equal);
        assert_eq!(erl_cmp(&i(1), &Value::atom("a")), Cmp::Less);
        assert_eq!(erl_cmp(&Value::nil(), &Value::list(vec![i(1)])), Cmp::Less);
        assert_eq!(erl_cmp(&Value::list(vec![i(1)]), &Value::list(vec![i(1), i(2)])), Cmp::Less);
        // [1|2] vs [1,2]: tails 2 vs [2] -> number < list
        let imp = Value::cons_list(vec![i(1)], i(2));
        assert_eq!(erl_cmp(&imp, &Value::list(vec![i(1), i(2)])), Cmp::Less);
        // [1|<<>>] vs [1]: tail bitstring > nil
        let imp2 = Value::cons_list(vec![i(1)], Value::binary(b""));
        assert_eq!(erl_cmp(&imp2, &Value::list(vec![i(1)])), Cmp::Greater);
        assert_eq!(erl_cmp(&imp2, &Value::list(vec![i(1), i(0)])), Cmp::Greater);
        // bits
        assert_eq!(erl_cmp(&Value::bits(&[0x80], 1), &Value::binary(&[0x80])), Cmp::Less);
        assert_eq!(erl_cmp(&Value::bits(&[0xff], 7), &Value::binary(&[0x80, 1])), Cmp::Greater);
        // maps: keys first
        let m1 = Value::Map(vec![(i(1), i(2)), (i(3), i(0))]);
        let m2 = Value::Map(vec![(i(1), i(1)), (i(4), i(0))]);
        assert_eq!(erl_cmp(&m1, &m2), Cmp::Less);
        // tuples by size
        assert_eq!(erl_cmp(&Value::Tuple(vec![i(9)]), &Value::Tuple(vec![i(1), i(1)])), Cmp::Less);
    }
}

pub mod placeholder {}

//! Distribution header (atom cache) and fragment layouts, written from erl_dist_protocol
//! ("Distribution Header", "Protocol between Connected Nodes").
//!
//! `131 68 NumberOfAtomCacheRefs [Flags AtomCacheRefs]`; Flags = NumberOfAtomCacheRefs/2+1 bytes of
//! half-bytes, least significant half first; half-byte i: bit 3 NewCacheEntryFlag, bits 0..2
//! SegmentIndex; the half-byte after the last reference: bit 0 LongAtoms.  A new entry is
//! `InternalSegmentIndex Length(1|2) AtomText`, an existing one `InternalSegmentIndex`.
//! Cache slot = SegmentIndex*256 + InternalSegmentIndex.  `82 i` in the terms that follow means
//! the i-th reference of this header.

use crate::etf::{Dec, Enc, Picker, RefErr};
use crate::value::Value;
use std::collections::HashMap;

pub const CACHE_SLOTS: usize = 2048;

#[derive(Clone)]
pub struct PeerCache {
    pub slots: Vec<Option<String>>,
}

impl Default for PeerCache {
    fn default() -> Self {
        PeerCache { slots: vec![None; CACHE_SLOTS] }
    }
}

#[derive(Debug, Clone, PartialEq, Eq)]
pub struct HeaderRef {
    pub slot: u16,
    pub new: bool,
    pub atom: String,
}

#[derive(Debug, Clone, PartialEq, Eq)]
pub enum HdrErr {
    Eof,
    Utf8,
    EmptySlot(u16),
    NotAHeader,
}

/// Read `NumberOfAtomCacheRefs Flags AtomCacheRefs` (input starts right after `131 68`).
/// Updates the receiver-side cache; returns the atoms by header position and the bytes consumed.
pub fn hdr_read(b: &[u8], cache: &mut PeerCache) -> Result<(Vec<HeaderRef>, usize), HdrErr> {
    let n = *b.first().ok_or(HdrErr::Eof)? as usize;
    if n == 0 {
        return Ok((vec![], 1));
    }
    let flen = n / 2 + 1;
    if b.len() < 1 + flen {
        return Err(HdrErr::Eof);
    }
    let flags = &b[1..1 + flen];
    let nib = |i: usize| -> u8 {
        let byte = flags[i / 2];
        if i % 2 == 0 {
            byte & 0x0f
        } else {
            byte >> 4
        }
    };
    let long = nib(n) & 1 != 0;
    let mut p = 1 + flen;
    let mut refs = vec![];
    for i in 0..n {
        let f = nib(i);
        let seg = (f & 7) as u16;
        let new = f & 8 != 0;
        let idx = *b.get(p).ok_or(HdrErr::Eof)? as u16;
        p += 1;
        let slot = seg * 256 + idx;
        if new {
            let len = if long {
                if b.len() < p + 2 {
                    return Err(HdrErr::Eof);
                }
                let l = u16::from_be_bytes([b[p], b[p + 1]]) as usize;
                p += 2;
                l
            } else {
                let l = *b.get(p).ok_or(HdrErr::Eof)? as usize;
                p += 1;
                l
            };
            if b.len() < p + len {
                return Err(HdrErr::Eof);
            }
            let atom = String::from_utf8(b[p..p + len].to_vec()).map_err(|_| HdrErr::Utf8)?;
            p += len;
            cache.slots[slot as usize] = Some(atom.clone());
            refs.push(HeaderRef { slot, new, atom });
        } else {
            let atom = cache.slots[slot as usize].clone().ok_or(HdrErr::EmptySlot(slot))?;
            refs.push(HeaderRef { slot, new, atom });
        }
    }
    Ok((refs, p))
}

/// Write `NumberOfAtomCacheRefs Flags AtomCacheRefs` for the given references.
pub fn hdr_write(refs: &[HeaderRef]) -> Vec<u8> {
    let n = refs.len();
    assert!(n <= 255);
    let mut out = vec![n as u8];
    if n == 0 {
        return out;
    }
    let long = refs.iter().any(|r| r.new && r.atom.len() > 255);
    let flen = n / 2 + 1;
    let mut flags = vec![0u8; flen];
    let mut set = |i: usize, v: u8| {
        if i % 2 == 0 {
            flags[i / 2] |= v & 0x0f
        } else {
            flags[i / 2] |= (v & 0x0f) << 4
        }
    };
    for (i, r) in refs.iter().enumerate() {
        set(i, ((r.slot / 256) as u8 & 7) | if r.new { 8 } else { 0 });
    }
    if long {
        set(n, 1);
    }
    out.extend_from_slice(&flags);
    for r in refs {
        out.push((r.slot % 256) as u8);
        if r.new {
            if long {
                out.extend_from_slice(&(r.atom.len() as u16).to_be_bytes());
            } else {
                out.push(r.atom.len() as u8);
            }
            out.extend_from_slice(r.atom.as_bytes());
        }
    }
    out
}

/// Everything an independent receiver learns from one `131 68 ...` message.
#[derive(Debug)]
pub struct DistMessage {
    pub refs: Vec<HeaderRef>,
    pub control: Value,
    pub payload: Option<Value>,
}

#[derive(Debug)]
pub enum DistErr {
    Hdr(HdrErr),
    Term(RefErr),
    Trailing(usize),
}

/// Independent reader of a complete header-mode message `131 68 hdr Control [Payload]`.
pub fn read_dist_message(b: &[u8], cache: &mut PeerCache) -> Result<DistMessage, DistErr> {
    if b.len() < 2 || b[0] != 131 || b[1] != 68 {
        return Err(DistErr::Hdr(HdrErr::NotAHeader));
    }
    let (refs, used) = hdr_read(&b[2..], cache).map_err(DistErr::Hdr)?;
    let atoms: Vec<String> = refs.iter().map(|r| r.atom.clone()).collect();
    let body = &b[2 + used..];
    let mut d = Dec::new(body);
    d.atoms = Some(&atoms);
    let control = d.term().map_err(DistErr::Term)?;
    let payload = if d.pos < body.len() { Some(d.term().map_err(DistErr::Term)?) } else { None };
    if d.pos != body.len() {
        return Err(DistErr::Trailing(body.len() - d.pos));
    }
    Ok(DistMessage { refs, control, payload })
}

/// Sender model with a persistent 2048-slot cache.
#[derive(Clone)]
pub struct SenderCache {
    pub slots: Vec<Option<String>>,
}

impl Default for SenderCache {
    fn default() -> Self {
        SenderCache { slots: vec![None; CACHE_SLOTS] }
    }
}

pub fn atoms_of(v: &Value, out: &mut Vec<String>) {
    v.walk(&mut |x| {
        let mut add = |s: &String| {
            if !out.contains(s) {
                out.push(s.clone())
            }
        };
        match x {
            Value::Atom(a) => add(a),
            Value::Pid { node, .. } | Value::Port { node, .. } | Value::Ref { node, .. } => add(node),
            Value::ExportFun { module, function, .. } => {
                add(module);
                add(function)
            }
            Value::Fun { module, .. } => add(module),
            _ => {}
        }
    });
}

/// A conforming sender: encode `control` (+ `payload`) with a distribution header.  For each
/// distinct atom (up to 255, the rest stay inline) `slot_of` picks the cache slot; an atom
/// already in that slot is referenced, otherwise the slot is (over)written.  `order` permutes the
/// header positions so that position != slot in general.
pub fn sender_encode(
    control: &Value,
    payload: Option<&Value>,
    cache: &mut SenderCache,
    slot_of: &mut dyn FnMut(&str) -> Option<u16>,
    picker: &mut dyn Picker,
) -> (Vec<u8>, Vec<HeaderRef>) {
    sender_encode_opts(control, payload, cache, slot_of, picker, false)
}

/// `allow_local`: identifiers may be wrapped as LOCAL_EXT (what a node does with identifiers it got from this peer).
pub fn sender_encode_opts(
    control: &Value,
    payload: Option<&Value>,
    cache: &mut SenderCache,
    slot_of: &mut dyn FnMut(&str) -> Option<u16>,
    picker: &mut dyn Picker,
    allow_local: bool,
) -> (Vec<u8>, Vec<HeaderRef>) {
    let mut atoms = vec![];
    atoms_of(control, &mut atoms);
    if let Some(p) = payload {
        atoms_of(p, &mut atoms);
    }
    let mut refs: Vec<HeaderRef> = vec![];
    let mut used_slots: Vec<u16> = vec![];
    for a in atoms {
        if refs.len() >= 255 || a.len() > 65535 {
            break;
        }
        if let Some(slot) = slot_of(&a) {
            let slot = slot % CACHE_SLOTS as u16;
            if used_slots.contains(&slot) {
                continue; // two atoms of one message cannot share a slot; this one stays inline
            }
            used_slots.push(slot);
            let present = cache.slots[slot as usize].as_deref() == Some(a.as_str());
            cache.slots[slot as usize] = Some(a.clone());
            refs.push(HeaderRef { slot, new: !present, atom: a });
        }
    }
    let map: HashMap<String, u8> = refs.iter().enumerate().map(|(i, r)| (r.atom.clone(), i as u8)).collect();
    let mut out = vec![131u8, 68];
    out.extend_from_slice(&hdr_write(&refs));
    let mut e = Enc::new(picker);
    e.allow_local = allow_local;
    e.allow_legacy = false;
    e.atom_refs = Some(&map);
    e.term(control);
    if let Some(p) = payload {
        e.term(p);
    }
    out.extend_from_slice(&e.out);
    (out, refs)
}

/// Fragment a complete header-mode message (`131 68 rest`) the way the protocol prescribes:
/// first `131 69 Seq(8) FragId(8) rest[..c0]`, then `131 70 Seq(8) FragId(8) data` counting down to 1.
/// `cuts` are split points into `rest` (ascending, may repeat = empty fragments).
pub fn fragment(msg: &[u8], seq: u64, cuts: &[usize]) -> Vec<Vec<u8>> {
    assert!(msg.len() >= 2 && msg[0] == 131 && msg[1] == 68);
    let rest = &msg[2..];
    // the distribution header (count, flags, atom cache references) belongs to the first fragment
    let mut scratch = PeerCache::default();
    for s in scratch.slots.iter_mut() {
        *s = Some(String::new());
    }
    let hdr_len = hdr_read(rest, &mut scratch).map(|x| x.1).unwrap_or(1);
    let mut pts: Vec<usize> = cuts.iter().map(|c| (*c).clamp(hdr_len, rest.len().max(hdr_len))).collect();
    pts.sort();
    let n = pts.len() as u64 + 1;
    let mut frames = vec![];
    let mut start = 0;
    for (k, end) in pts.iter().copied().chain(std::iter::once(rest.len())).enumerate() {
        let id = n - k as u64;
        let mut f = vec![131u8, if k == 0 { 69 } else { 70 }];
        f.extend_from_slice(&seq.to_be_bytes());
        f.extend_from_slice(&id.to_be_bytes());
        f.extend_from_slice(&rest[start..end]);
        frames.push(f);
        start = end;
    }
    frames
}

#[cfg(test)]
mod tests {
    use super::*;
    use crate::etf::Canonical;
    #[test]
    fn header_roundtrip() {
        for n in [0usize, 1, 2, 3, 4, 5, 254, 255] {
            for long in [false, true] {
                let refs: Vec<HeaderRef> = (0..n)
                    .map(|i| HeaderRef {
                        slot: ((i * 37) % 2048) as u16,
                        new: i % 3 != 1,
                        atom: if long && i == 0 { "x".repeat(300) } else { format!("a{i}") },
                    })
                    .collect();
                let mut sc = PeerCache::default();
                for r in &refs {
                    if !r.new {
                        sc.slots[r.slot as usize] = Some(r.atom.clone());
                    }
                }
                let b = hdr_write(&refs);
                let (got, used) = hdr_read(&b, &mut sc).unwrap();
                assert_eq!(used, b.len());
                assert_eq!(got, refs);
            }
        }
    }
    #[test]
    fn sender_receiver() {
        let mut sc = SenderCache::default();
        let mut pc = PeerCache::default();
        let ctrl = Value::Tuple(vec![Value::int(2), Value::atom(""), Value::Pid { node: "n@h".into(), id: 1, serial: 2, creation: 3 }]);
        let pay = Value::list(vec![Value::atom("hello"), Value::atom("n@h"), Value::atom("hello")]);
        for round in 0..3 {
            let mut k = 0u16;
            let mut slot_of = |_a: &str| {
                k += 300;
                Some(k + round)
            };
            let (b, _) = sender_encode(&ctrl, Some(&pay), &mut sc, &mut slot_of, &mut Canonical);
            let m = read_dist_message(&b, &mut pc).unwrap();
            assert_eq!(m.control, ctrl);
            assert_eq!(m.payload.unwrap(), pay);
        }
    }
}

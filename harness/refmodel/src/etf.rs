//! Independent reader and writer of the Erlang External Term Format, written from the
//! erl_ext_dist documentation (OTP 26/27).  No code from the crate under test is used.

use crate::big::BigI;
use crate::value::Value;
use std::collections::HashMap;

pub const VERSION: u8 = 131;

#[derive(Debug, Clone, PartialEq, Eq)]
pub enum RefErr {
    Eof(usize),
    BadTag(u8, usize),
    Invalid(String, usize),
    Unsupported(String, usize),
    Trailing(usize),
    TooDeep,
}

#[derive(Debug, Clone, PartialEq, Eq)]
pub struct Span {
    pub path: String,
    pub kind: &'static str,
    pub start: usize,
    pub end: usize,
    pub local: bool,
}

pub struct Dec<'a> {
    pub data: &'a [u8],
    pub pos: usize,
    /// atoms by header position for ATOM_CACHE_REF (82)
    pub atoms: Option<&'a [String]>,
    pub spans: Vec<Span>,
    pub record_spans: bool,
    path: Vec<String>,
    depth: usize,
    pub max_depth: usize,
    /// tags seen (for classification)
    pub tags_seen: Vec<u8>,
}

type R<T> = Result<T, RefErr>;

impl<'a> Dec<'a> {
    pub fn new(data: &'a [u8]) -> Self {
        Dec {
            data,
            pos: 0,
            atoms: None,
            spans: vec![],
            record_spans: false,
            path: vec![],
            depth: 0,
            max_depth: 5_000,
            tags_seen: vec![],
        }
    }
    fn u8(&mut self) -> R<u8> {
        let b = *self.data.get(self.pos).ok_or(RefErr::Eof(self.pos))?;
        self.pos += 1;
        Ok(b)
    }
    fn take(&mut self, n: usize) -> R<&'a [u8]> {
        if self.data.len() - self.pos < n {
            return Err(RefErr::Eof(self.pos));
        }
        let s = &self.data[self.pos..self.pos + n];
        self.pos += n;
        Ok(s)
    }
    fn u16(&mut self) -> R<u16> {
        let s = self.take(2)?;
        Ok(u16::from_be_bytes([s[0], s[1]]))
    }
    fn u32(&mut self) -> R<u32> {
        let s = self.take(4)?;
        Ok(u32::from_be_bytes([s[0], s[1], s[2], s[3]]))
    }
    fn u64(&mut self) -> R<u64> {
        let s = self.take(8)?;
        let mut b = [0u8; 8];
        b.copy_from_slice(s);
        Ok(u64::from_be_bytes(b))
    }
    fn utf8(&mut self, n: usize) -> R<String> {
        let p = self.pos;
        let s = self.take(n)?;
        String::from_utf8(s.to_vec()).map_err(|_| RefErr::Invalid("atom not UTF-8".into(), p))
    }
    fn latin1(&mut self, n: usize) -> R<String> {
        let s = self.take(n)?;
        Ok(s.iter().map(|&b| b as char).collect())
    }
    fn atom(&mut self) -> R<String> {
        let p = self.pos;
        // only the atom tags are admissible here; never recurse into arbitrary terms
        match self.data.get(self.pos) {
            Some(100) | Some(115) | Some(118) | Some(119) | Some(82) => match self.term()? {
                Value::Atom(a) => Ok(a),
                _ => Err(RefErr::Invalid("expected atom".into(), p)),
            },
            Some(_) => Err(RefErr::Invalid("expected atom".into(), p)),
            None => Err(RefErr::Eof(p)),
        }
    }
    fn small_nonneg(&mut self, what: &str) -> R<u32> {
        let p = self.pos;
        match self.term()? {
            Value::Int(b) => b
                .to_i128()
                .and_then(|v| u32::try_from(v).ok())
                .ok_or(RefErr::Invalid(format!("{what} out of range"), p)),
            _ => Err(RefErr::Invalid(format!("{what} not integer"), p)),
        }
    }
    fn with_path<T>(&mut self, seg: String, f: impl FnOnce(&mut Self) -> R<T>) -> R<T> {
        if self.record_spans {
            self.path.push(seg);
        }
        let r = f(self);
        if self.record_spans {
            self.path.pop();
        }
        r
    }
    fn span(&mut self, kind: &'static str, start: usize, local: bool) {
        if self.record_spans {
            self.spans.push(Span { path: self.path.join("/"), kind, start, end: self.pos, local });
        }
    }

    /// One term (no version byte).
    pub fn term(&mut self) -> R<Value> {
        self.depth += 1;
        if self.depth > self.max_depth {
            return Err(RefErr::TooDeep);
        }
        let r = self.term_inner();
        self.depth -= 1;
        r
    }

    fn term_inner(&mut self) -> R<Value> {
        let start = self.pos;
        let tag = self.u8()?;
        self.tags_seen.push(tag);
        match tag {
            97 => Ok(Value::int(self.u8()? as i128)),
            98 => Ok(Value::int(self.u32()? as i32 as i128)),
            99 => {
                let p = self.pos;
                let s = self.take(31)?;
                let end = s.iter().position(|&b| b == 0).unwrap_or(31);
                let txt = std::str::from_utf8(&s[..end]).map_err(|_| RefErr::Invalid("float text".into(), p))?;
                let f: f64 = txt.trim().parse().map_err(|_| RefErr::Invalid("float text".into(), p))?;
                Ok(Value::float(f))
            }
            70 => Ok(Value::Float(self.u64()?)),
            100 => {
                let n = self.u16()? as usize;
                Ok(Value::Atom(self.latin1(n)?))
            }
            115 => {
                let n = self.u8()? as usize;
                Ok(Value::Atom(self.latin1(n)?))
            }
            118 => {
                let n = self.u16()? as usize;
                Ok(Value::Atom(self.utf8(n)?))
            }
            119 => {
                let n = self.u8()? as usize;
                Ok(Value::Atom(self.utf8(n)?))
            }
            82 => {
                let i = self.u8()? as usize;
                match self.atoms {
                    Some(t) if i < t.len() => Ok(Value::Atom(t[i].clone())),
                    _ => Err(RefErr::Invalid(format!("atom cache ref {i} without entry"), start)),
                }
            }
            104 | 105 => {
                let n = if tag == 104 { self.u8()? as usize } else { self.u32()? as usize };
                let mut v = Vec::with_capacity(n.min(self.data.len() - self.pos));
                for i in 0..n {
                    v.push(self.with_path(format!("t{i}"), |d| d.term())?);
                }
                Ok(Value::Tuple(v))
            }
            106 => Ok(Value::nil()),
            107 => {
                let n = self.u16()? as usize;
                let s = self.take(n)?;
                Ok(Value::list(s.iter().map(|&b| Value::int(b as i128)).collect()))
            }
            108 => {
                let n = self.u32()? as usize;
                let mut v = Vec::with_capacity(n.min(self.data.len() - self.pos));
                for i in 0..n {
                    v.push(self.with_path(format!("l{i}"), |d| d.term())?);
                }
                let tail = self.with_path("tail".into(), |d| d.term())?;
                Ok(Value::cons_list(v, tail))
            }
            109 => {
                let n = self.u32()? as usize;
                Ok(Value::binary(self.take(n)?))
            }
            77 => {
                let n = self.u32()? as usize;
                let bits = self.u8()?;
                let p = self.pos;
                let bytes = self.take(n)?;
                if n == 0 {
                    if bits != 0 && bits != 8 {
                        // tolerated by nobody; treat as invalid
                        return Err(RefErr::Invalid("bit binary: empty with bits".into(), p));
                    }
                    return Ok(Value::binary(b""));
                }
                if !(1..=8).contains(&bits) {
                    return Err(RefErr::Invalid("bit binary: bits out of range".into(), p));
                }
                Ok(Value::bits(bytes, bits))
            }
            110 | 111 => {
                let n = if tag == 110 { self.u8()? as usize } else { self.u32()? as usize };
                let sign = self.u8()?;
                let d = self.take(n)?;
                Ok(Value::Int(BigI::from_parts(sign != 0, d)))
            }
            116 => {
                let n = self.u32()? as usize;
                let mut m = Vec::with_capacity(n.min(self.data.len() - self.pos));
                for i in 0..n {
                    let k = self.with_path(format!("k{i}"), |d| d.term())?;
                    let v = self.with_path(format!("v{i}"), |d| d.term())?;
                    m.push((k, v));
                }
                Ok(Value::Map(m))
            }
            88 => {
                let node = self.atom()?;
                let id = self.u32()?;
                let serial = self.u32()?;
                let creation = self.u32()?;
                self.span("pid", start, false);
                Ok(Value::Pid { node, id, serial, creation })
            }
            103 => {
                let node = self.atom()?;
                let id = self.u32()?;
                let serial = self.u32()?;
                let creation = self.u8()? as u32;
                self.span("pid", start, false);
                Ok(Value::Pid { node, id, serial, creation })
            }
            120 => {
                let node = self.atom()?;
                let id = self.u64()?;
                let creation = self.u32()?;
                self.span("port", start, false);
                Ok(Value::Port { node, id, creation })
            }
            89 => {
                let node = self.atom()?;
                let id = self.u32()? as u64;
                let creation = self.u32()?;
                self.span("port", start, false);
                Ok(Value::Port { node, id, creation })
            }
            102 => {
                let node = self.atom()?;
                let id = self.u32()? as u64;
                let creation = self.u8()? as u32;
                self.span("port", start, false);
                Ok(Value::Port { node, id, creation })
            }
            90 => {
                let n = self.u16()? as usize;
                let node = self.atom()?;
                let creation = self.u32()?;
                let mut ids = Vec::with_capacity(n.min(self.data.len()));
                for _ in 0..n {
                    ids.push(self.u32()?);
                }
                self.span("ref", start, false);
                Ok(Value::Ref { node, creation, ids })
            }
            114 => {
                let n = self.u16()? as usize;
                let node = self.atom()?;
                let creation = self.u8()? as u32;
                let mut ids = Vec::with_capacity(n.min(self.data.len()));
                for _ in 0..n {
                    ids.push(self.u32()?);
                }
                self.span("ref", start, false);
                Ok(Value::Ref { node, creation, ids })
            }
            101 => {
                let node = self.atom()?;
                let id = self.u32()?;
                let creation = self.u8()? as u32;
                self.span("ref", start, false);
                Ok(Value::Ref { node, creation, ids: vec![id] })
            }
            113 => {
                let module = self.atom()?;
                let function = self.atom()?;
                let p = self.pos;
                let arity = self.small_nonneg("export arity")?;
                let arity = u8::try_from(arity).map_err(|_| RefErr::Invalid("export arity > 255".into(), p))?;
                Ok(Value::ExportFun { module, function, arity })
            }
            112 => {
                let size_pos = self.pos;
                let size = self.u32()? as usize;
                let arity = self.u8()?;
                let mut uniq = [0u8; 16];
                uniq.copy_from_slice(self.take(16)?);
                let index = self.u32()?;
                let num_free = self.u32()? as usize;
                let module = self.atom()?;
                let old_index = self.small_nonneg("old_index")?;
                let old_uniq = self.small_nonneg("old_uniq")?;
                let p = self.pos;
                let pid = self.with_path("funpid".into(), |d| d.term())?;
                if !matches!(pid, Value::Pid { .. }) {
                    return Err(RefErr::Invalid("fun pid not a pid".into(), p));
                }
                let mut free = Vec::with_capacity(num_free.min(self.data.len() - self.pos));
                for i in 0..num_free {
                    free.push(self.with_path(format!("f{i}"), |d| d.term())?);
                }
                if self.pos - size_pos != size {
                    return Err(RefErr::Invalid(
                        format!("fun size field {} != actual {}", size, self.pos - size_pos),
                        size_pos,
                    ));
                }
                Ok(Value::Fun { arity, uniq, index, module, old_index, old_uniq, pid: Box::new(pid), free })
            }
            121 => {
                let _hash = self.u64()?;
                let nspans = self.spans.len();
                let v = self.term()?;
                if self.record_spans {
                    // the identifier directly inside becomes one span covering the LOCAL_EXT wrapper
                    let kind = match v {
                        Value::Pid { .. } => Some("pid"),
                        Value::Port { .. } => Some("port"),
                        Value::Ref { .. } => Some("ref"),
                        _ => None,
                    };
                    if let Some(k) = kind {
                        self.spans.truncate(nspans);
                        self.span(k, start, true);
                    }
                }
                Ok(v)
            }
            80 => {
                let declared = self.u32()? as usize;
                let (out, used) = inflate_stored(&self.data[self.pos..])
                    .map_err(|e| RefErr::Unsupported(format!("compressed: {e}"), self.pos))?;
                if out.len() != declared {
                    return Err(RefErr::Invalid("compressed: size mismatch".into(), self.pos));
                }
                self.pos += used;
                let mut inner = Dec::new(&out);
                inner.atoms = self.atoms;
                inner.max_depth = self.max_depth;
                let v = inner.term()?;
                if inner.pos != out.len() {
                    return Err(RefErr::Invalid("compressed: trailing data inside".into(), self.pos));
                }
                self.tags_seen.extend(inner.tags_seen);
                Ok(v)
            }
            t => Err(RefErr::BadTag(t, start)),
        }
    }
}

/// `131 Term`, everything consumed.
pub fn refdec(data: &[u8]) -> R<Value> {
    let mut d = Dec::new(data);
    let v = d.u8()?;
    if v != VERSION {
        return Err(RefErr::Invalid("version".into(), 0));
    }
    let t = d.term()?;
    if d.pos != data.len() {
        return Err(RefErr::Trailing(data.len() - d.pos));
    }
    Ok(t)
}

/// `131 Term`, returning identifier spans as well.
pub fn refdec_spans(data: &[u8]) -> R<(Value, Vec<Span>)> {
    let mut d = Dec::new(data);
    d.record_spans = true;
    let v = d.u8()?;
    if v != VERSION {
        return Err(RefErr::Invalid("version".into(), 0));
    }
    let t = d.term()?;
    if d.pos != data.len() {
        return Err(RefErr::Trailing(data.len() - d.pos));
    }
    Ok((t, d.spans))
}

// ---------------------------------------------------------------------------------------------
// zlib, stored blocks only (enough to build COMPRESSED inputs without the library's zlib)

pub fn adler32(data: &[u8]) -> u32 {
    let (mut a, mut b) = (1u32, 0u32);
    for &x in data {
        a = (a + x as u32) % 65521;
        b = (b + a) % 65521;
    }
    (b << 16) | a
}

pub fn zlib_stored(data: &[u8]) -> Vec<u8> {
    let mut out = vec![0x78, 0x01];
    let mut chunks: Vec<&[u8]> = data.chunks(65535).collect();
    if chunks.is_empty() {
        chunks.push(&[]);
    }
    let n = chunks.len();
    for (i, c) in chunks.iter().enumerate() {
        out.push(if i + 1 == n { 1 } else { 0 });
        let len = c.len() as u16;
        out.extend_from_slice(&len.to_le_bytes());
        out.extend_from_slice(&(!len).to_le_bytes());
        out.extend_from_slice(c);
    }
    out.extend_from_slice(&adler32(data).to_be_bytes());
    out
}

/// Inflate a zlib stream consisting of stored blocks only. Returns (data, bytes consumed).
pub fn inflate_stored(z: &[u8]) -> Result<(Vec<u8>, usize), String> {
    if z.len() < 2 || (z[0] & 0x0f) != 8 || ((z[0] as u16) << 8 | z[1] as u16) % 31 != 0 {
        return Err("bad zlib header".into());
    }
    let mut p = 2;
    let mut out = vec![];
    loop {
        let h = *z.get(p).ok_or("eof")?;
        p += 1;
        if (h >> 1) & 3 != 0 {
            return Err("non-stored block".into());
        }
        if z.len() < p + 4 {
            return Err("eof".into());
        }
        let len = u16::from_le_bytes([z[p], z[p + 1]]);
        let nlen = u16::from_le_bytes([z[p + 2], z[p + 3]]);
        if len != !nlen {
            return Err("len/nlen".into());
        }
        p += 4;
        if z.len() < p + len as usize {
            return Err("eof".into());
        }
        out.extend_from_slice(&z[p..p + len as usize]);
        p += len as usize;
        if h & 1 == 1 {
            break;
        }
    }
    if z.len() < p + 4 {
        return Err("eof adler".into());
    }
    let ad = u32::from_be_bytes([z[p], z[p + 1], z[p + 2], z[p + 3]]);
    if ad != adler32(&out) {
        return Err("adler".into());
    }
    Ok((out, p + 4))
}

// ---------------------------------------------------------------------------------------------
// Writer

/// How the writer chooses among admissible encodings.  `pick(n)` returns a value in `0..n`;
/// alternative 0 is always the "canonical modern" form (what OTP 26+ and this library emit).
pub trait Picker {
    fn pick(&mut self, n: usize, what: &'static str) -> usize;
}

pub struct Canonical;
impl Picker for Canonical {
    fn pick(&mut self, _n: usize, _what: &'static str) -> usize {
        0
    }
}

/// Choices from a byte vector (shrinks towards canonical as bytes go to 0 / run out).
pub struct VecPicker<'a> {
    pub bytes: &'a [u8],
    pub pos: usize,
    /// number of non-canonical picks made
    pub noncanonical: usize,
    pub used: Vec<&'static str>,
}
impl<'a> VecPicker<'a> {
    pub fn new(bytes: &'a [u8]) -> Self {
        VecPicker { bytes, pos: 0, noncanonical: 0, used: vec![] }
    }
}
impl<'a> Picker for VecPicker<'a> {
    fn pick(&mut self, n: usize, what: &'static str) -> usize {
        let b = self.bytes.get(self.pos).copied().unwrap_or(0) as usize;
        self.pos += 1;
        // monotone map of 0..=255 onto 0..n
        let i = (b * n) >> 8;
        if i != 0 {
            self.noncanonical += 1;
            self.used.push(what);
        }
        i
    }
}

pub struct Enc<'p> {
    pub out: Vec<u8>,
    pub picker: &'p mut dyn Picker,
    /// atom -> header position; when set, atoms present in the map are written as ATOM_CACHE_REF
    pub atom_refs: Option<&'p HashMap<String, u8>>,
    /// allow LOCAL_EXT wrapping of identifiers
    pub allow_local: bool,
    /// allow legacy tags (99,100,115,101,102,103,114,107, big forms for small ints, ...)
    pub allow_legacy: bool,
    next_atom_in_full: bool,
    pub local_hash: [u8; 8],
}

pub fn float_text(f: f64) -> [u8; 31] {
    // C printf("%.20e")
    let s = format!("{:.20e}", f);
    let (mant, exp) = s.split_once('e').unwrap();
    let e: i32 = exp.parse().unwrap();
    let txt = format!("{}e{}{:02}", mant, if e < 0 { '-' } else { '+' }, e.abs());
    let mut out = [0u8; 31];
    out[..txt.len()].copy_from_slice(txt.as_bytes());
    out
}

impl<'p> Enc<'p> {
    pub fn new(picker: &'p mut dyn Picker) -> Self {
        Enc { out: vec![], picker, atom_refs: None, allow_local: true, allow_legacy: true, local_hash: [0xA5; 8], next_atom_in_full: false }
    }
    fn pick(&mut self, n: usize, what: &'static str) -> usize {
        if n <= 1 {
            0
        } else {
            self.picker.pick(n, what)
        }
    }
    fn be16(&mut self, v: u16) {
        self.out.extend_from_slice(&v.to_be_bytes())
    }
    fn be32(&mut self, v: u32) {
        self.out.extend_from_slice(&v.to_be_bytes())
    }
    fn be64(&mut self, v: u64) {
        self.out.extend_from_slice(&v.to_be_bytes())
    }

    pub fn atom(&mut self, a: &str) {
        // the node name inside a LOCAL_EXT is written in full: the wrapped bytes are opaque to every other node and
        // must not depend on one message's distribution header
        let inside_local = std::mem::replace(&mut self.next_atom_in_full, false);
        if let (Some(m), false) = (self.atom_refs, inside_local) {
            if let Some(&i) = m.get(a) {
                self.out.push(82);
                self.out.push(i);
                return;
            }
        }
        let blen = a.len();
        let latin1_ok = a.chars().all(|c| (c as u32) <= 0xff);
        let clen = a.chars().count();
        // alternatives
        let mut alts: Vec<u8> = vec![];
        if blen <= 255 {
            alts.push(119);
        }
        alts.push(118);
        if self.allow_legacy && latin1_ok {
            if clen <= 255 {
                alts.push(115);
            }
            alts.push(100);
        }
        let t = alts[self.pick(alts.len(), "atom")];
        self.out.push(t);
        match t {
            119 => {
                self.out.push(blen as u8);
                self.out.extend_from_slice(a.as_bytes());
            }
            118 => {
                self.be16(blen as u16);
                self.out.extend_from_slice(a.as_bytes());
            }
            115 => {
                self.out.push(clen as u8);
                self.out.extend(a.chars().map(|c| c as u32 as u8));
            }
            100 => {
                self.be16(clen as u16);
                self.out.extend(a.chars().map(|c| c as u32 as u8));
            }
            _ => unreachable!(),
        }
    }

    fn int(&mut self, b: &BigI) {
        let small = b.to_i128();
        let mut alts: Vec<u8> = vec![];
        match small {
            Some(v) if (0..=255).contains(&v) => {
                alts.push(97);
                if self.allow_legacy {
                    alts.extend([98, 110, 111]);
                }
            }
            Some(v) if v >= i32::MIN as i128 && v <= i32::MAX as i128 => {
                alts.push(98);
                if self.allow_legacy {
                    alts.extend([110, 111]);
                }
            }
            _ => {
                if b.mag.len() <= 255 {
                    alts.push(110);
                    if self.allow_legacy {
                        alts.push(111);
                    }
                } else {
                    alts.push(111);
                }
            }
        }
        let t = alts[self.pick(alts.len(), "int")];
        self.out.push(t);
        match t {
            97 => self.out.push(small.unwrap() as u8),
            98 => self.be32(small.unwrap() as i32 as u32),
            110 | 111 => {
                // optional zero padding (non-minimal width) when legacy forms are allowed
                let pad = if self.allow_legacy { self.pick(4, "bigpad") } else { 0 };
                let mut n = b.mag.len() + pad;
                if t == 110 && n > 255 {
                    n = 255;
                }
                if t == 110 {
                    self.out.push(n as u8)
                } else {
                    self.be32(n as u32)
                }
                self.out.push(if b.neg { 1 } else { 0 });
                self.out.extend_from_slice(&b.mag);
                self.out.extend(std::iter::repeat(0).take(n - b.mag.len()));
            }
            _ => unreachable!(),
        }
    }

    fn id_alts(&mut self, modern: u8, legacy: &[u8]) -> u8 {
        let mut alts = vec![modern];
        if self.allow_legacy {
            alts.extend_from_slice(legacy);
        }
        alts[self.pick(alts.len(), "idform")]
    }

    fn maybe_local(&mut self) -> bool {
        if self.allow_local && self.pick(4, "local") == 3 {
            self.out.push(121);
            // the hash is opaque: any eight bytes, in particular bytes that look like tags
            let h: [u8; 8] = match self.pick(8, "local-hash") {
                0 => self.local_hash,
                1 => [121, 0xA5, 0xA5, 0xA5, 0xA5, 0xA5, 0xA5, 0xA5],
                2 => [131, 88, 119, 1, 97, 106, 0, 255],
                3 => [0; 8],
                4 => [0xFF; 8],
                5 => [121, 121, 88, 89, 90, 131, 80, 68],
                _ => {
                    let mut h = [0u8; 8];
                    for b in h.iter_mut() {
                        *b = self.pick(256, "local-hash-byte") as u8;
                    }
                    h
                }
            };
            self.out.extend_from_slice(&h);
            self.next_atom_in_full = true;
            true
        } else {
            false
        }
    }

    pub fn term(&mut self, v: &Value) {
        match v {
            Value::Int(b) => self.int(b),
            Value::Float(bits) => {
                let f = f64::from_bits(*bits);
                let t = if self.allow_legacy && f.is_finite() { [70u8, 99][self.pick(2, "float")] } else { 70 };
                self.out.push(t);
                if t == 70 {
                    self.be64(*bits)
                } else {
                    self.out.extend_from_slice(&float_text(f))
                }
            }
            Value::Atom(a) => self.atom(a),
            Value::Bits { bytes, last_bits } => {
                if *last_bits == 8 {
                    let t = if self.allow_legacy && !bytes.is_empty() { [109u8, 77][self.pick(2, "bin")] } else { 109 };
                    self.out.push(t);
                    self.be32(bytes.len() as u32);
                    if t == 77 {
                        self.out.push(8);
                    }
                    self.out.extend_from_slice(bytes);
                } else {
                    self.out.push(77);
                    self.be32(bytes.len() as u32);
                    self.out.push(*last_bits);
                    self.out.extend_from_slice(bytes);
                }
            }
            Value::Tuple(el) => {
                let t = if el.len() <= 255 {
                    if self.allow_legacy {
                        [104u8, 105][self.pick(2, "tuple")]
                    } else {
                        104
                    }
                } else {
                    105
                };
                self.out.push(t);
                if t == 104 {
                    self.out.push(el.len() as u8)
                } else {
                    self.be32(el.len() as u32)
                }
                for e in el {
                    self.term(e)
                }
            }
            Value::List { elems, tail } => self.list(elems, tail.as_deref()),
            Value::Map(m) => {
                self.out.push(116);
                self.be32(m.len() as u32);
                for (k, x) in m {
                    self.term(k);
                    self.term(x);
                }
            }
            Value::Pid { node, id, serial, creation } => {
                self.maybe_local();
                // PID_EXT: creation is one byte of which two bits count; with DFLAG_V4_NC (which every current node sets) the
                // ID and Serial fields may use all 32 bits (only older peers were limited to 15 / 13 bits)
                let legacy_ok = *creation <= 3;
                let t = if legacy_ok { self.id_alts(88, &[103]) } else { 88 };
                self.out.push(t);
                self.atom(node);
                self.be32(*id);
                self.be32(*serial);
                if t == 88 {
                    self.be32(*creation)
                } else {
                    self.out.push(*creation as u8)
                }
            }
            Value::Port { node, id, creation } => {
                self.maybe_local();
                // OTP 26 emits NEW_PORT_EXT whenever the number fits 28 bits, V4_PORT_EXT otherwise.
                let mut alts: Vec<u8> = vec![120];
                if *id < (1 << 28) {
                    alts.push(89);
                }
                // PORT_EXT: a 32-bit ID field (28 bits only for peers without DFLAG_V4_NC)
                if *id <= u32::MAX as u64 && self.allow_legacy && *creation <= 3 {
                    alts.push(102);
                }
                let t = alts[self.pick(alts.len(), "port")];
                self.out.push(t);
                self.atom(node);
                match t {
                    120 => {
                        self.be64(*id);
                        self.be32(*creation)
                    }
                    89 => {
                        self.be32(*id as u32);
                        self.be32(*creation)
                    }
                    _ => {
                        self.be32(*id as u32);
                        self.out.push(*creation as u8)
                    }
                }
            }
            Value::Ref { node, creation, ids } => {
                self.maybe_local();
                let mut alts: Vec<u8> = vec![90];
                if self.allow_legacy && *creation <= 3 {
                    if !ids.is_empty() {
                        alts.push(114);
                    }
                    if ids.len() == 1 && ids[0] < (1 << 18) {
                        alts.push(101);
                    }
                }
                let t = alts[self.pick(alts.len(), "ref")];
                self.out.push(t);
                match t {
                    90 => {
                        self.be16(ids.len() as u16);
                        self.atom(node);
                        self.be32(*creation);
                        for i in ids {
                            self.be32(*i)
                        }
                    }
                    114 => {
                        self.be16(ids.len() as u16);
                        self.atom(node);
                        self.out.push(*creation as u8);
                        for i in ids {
                            self.be32(*i)
                        }
                    }
                    _ => {
                        self.atom(node);
                        self.be32(ids[0]);
                        self.out.push(*creation as u8);
                    }
                }
            }
            Value::ExportFun { module, function, arity } => {
                self.out.push(113);
                self.atom(module);
                self.atom(function);
                self.out.push(97);
                self.out.push(*arity);
            }
            Value::Fun { arity, uniq, index, module, old_index, old_uniq, pid, free } => {
                self.out.push(112);
                let size_pos = self.out.len();
                self.be32(0);
                self.out.push(*arity);
                self.out.extend_from_slice(uniq);
                self.be32(*index);
                self.be32(free.len() as u32);
                self.atom(module);
                self.int(&BigI::from_u64(*old_index as u64));
                self.int(&BigI::from_u64(*old_uniq as u64));
                self.term(pid);
                for f in free {
                    self.term(f)
                }
                let size = (self.out.len() - size_pos) as u32;
                self.out[size_pos..size_pos + 4].copy_from_slice(&size.to_be_bytes());
            }
        }
    }

    fn list(&mut self, elems: &[Value], tail: Option<&Value>) {
        if elems.is_empty() && tail.is_none() {
            // [] : NIL, or (legal but unusual) an empty LIST_EXT with NIL tail
            if self.allow_legacy && self.pick(8, "emptylist") == 7 {
                self.out.push(108);
                self.be32(0);
                self.out.push(106);
            } else {
                self.out.push(106);
            }
            return;
        }
        let all_bytes = tail.is_none()
            && elems.len() <= 65535
            && elems.iter().all(|e| matches!(e, Value::Int(b) if b.to_i128().map_or(false, |v| (0..=255).contains(&v))));
        // alternatives: 0 = LIST_EXT, 1 = STRING_EXT (if admissible), 2 = split list (tail is itself a list)
        let mut alts: Vec<u8> = vec![0];
        if all_bytes {
            // OTP emits STRING_EXT for byte lists: list it first among the non-canonical so it is common
            alts.push(1);
        }
        if self.allow_legacy && elems.len() >= 2 {
            alts.push(2);
        }
        match alts[self.pick(alts.len(), "list")] {
            0 => {
                self.out.push(108);
                self.be32(elems.len() as u32);
                for e in elems {
                    self.term(e)
                }
                match tail {
                    None => self.out.push(106),
                    Some(t) => self.term(t),
                }
            }
            1 => {
                self.out.push(107);
                self.be16(elems.len() as u16);
                for e in elems {
                    if let Value::Int(b) = e {
                        self.out.push(b.to_i128().unwrap() as u8)
                    }
                }
            }
            _ => {
                let cut = 1 + self.pick(elems.len() - 1, "listcut");
                self.out.push(108);
                self.be32(cut as u32);
                for e in &elems[..cut] {
                    self.term(e)
                }
                self.list(&elems[cut..], tail);
            }
        }
    }
}

/// Canonical modern encoding with version byte.
pub fn refenc_canonical(v: &Value) -> Vec<u8> {
    let mut p = Canonical;
    let mut e = Enc::new(&mut p);
    e.allow_local = false;
    e.allow_legacy = false;
    e.out.push(VERSION);
    e.term(v);
    e.out
}

/// Encoding with generated choices; returns (bytes with version byte, number of non-canonical picks).
pub fn refenc_choices(v: &Value, choices: &[u8], allow_local: bool, allow_legacy: bool) -> (Vec<u8>, usize, Vec<&'static str>) {
    let mut p = VecPicker::new(choices);
    let out = {
        let mut e = Enc::new(&mut p);
        e.allow_local = allow_local;
        e.allow_legacy = allow_legacy;
        e.out.push(VERSION);
        e.term(v);
        e.out
    };
    (out, p.noncanonical, p.used)
}

/// Wrap an encoded term (with version byte) into COMPRESSED using stored zlib blocks.
pub fn compress_stored(encoded: &[u8]) -> Vec<u8> {
    assert_eq!(encoded[0], VERSION);
    let body = &encoded[1..];
    let mut out = vec![VERSION, 80];
    out.extend_from_slice(&(body.len() as u32).to_be_bytes());
    out.extend_from_slice(&zlib_stored(body));
    out
}

#[cfg(test)]
mod tests {
    use super::*;
    #[test]
    fn float_text_format() {
        let t = float_text(1.0);
        assert_eq!(&t[..26], b"1.00000000000000000000e+00");
        let t = float_text(-2.5e-300);
        let s = std::str::from_utf8(&t).unwrap().trim_end_matches('\0').to_string();
        assert_eq!(s.parse::<f64>().unwrap(), -2.5e-300);
        assert!(s.ends_with("e-300"));
    }
    #[test]
    fn roundtrip_self() {
        let v = Value::Tuple(vec![
            Value::int(-5),
            Value::int(1 << 70),
            Value::atom("héllo"),
            Value::list(vec![Value::int(1), Value::int(2)]),
            Value::bits(&[0xff, 0xf0], 4),
            Value::Map(vec![(Value::int(1), Value::float(2.0))]),
            Value::Pid { node: "n@h".into(), id: 1, serial: 2, creation: 3 },
            Value::Ref { node: "n@h".into(), creation: 1, ids: vec![5] },
            Value::Port { node: "n@h".into(), id: 77, creation: 2 },
        ]);
        let c = refenc_canonical(&v);
        assert_eq!(refdec(&c).unwrap(), v);
        for seed in 0..200u8 {
            let ch: Vec<u8> = (0..64u32).map(|i| seed.wrapping_mul(31).wrapping_add((i as u8).wrapping_mul(57))).collect();
            let (b, _, _) = refenc_choices(&v, &ch, true, true);
            assert_eq!(refdec(&b).unwrap(), v, "choices {:?}", ch);
            let z = compress_stored(&b);
            assert_eq!(refdec(&z).unwrap(), v);
        }
    }
    #[test]
    fn zlib_ok() {
        let d = vec![7u8; 70000];
        let z = zlib_stored(&d);
        let (o, used) = inflate_stored(&z).unwrap();
        assert_eq!(o, d);
        assert_eq!(used, z.len());
    }
}

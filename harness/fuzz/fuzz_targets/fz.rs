#![no_main]
//! The one libFuzzer binary of the harness: VERIF_FUZZ_TARGET selects the target (see verif/src/fuzzbridge.rs).
use libfuzzer_sys::fuzz_target;

#[global_allocator]
static GLOBAL: verif_lib::alloc_track::Counting = verif_lib::alloc_track::Counting;

fuzz_target!(|data: &[u8]| {
    verif_lib::fuzzbridge::entry(data);
});

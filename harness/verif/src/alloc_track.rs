//! Counting global allocator: per-thread record of requested bytes, used to decide
//! "never requests memory out of proportion" (C02) and "refused before any buffer of that size
//! is allocated" (C05).  Tracking is thread-local and off unless `start()` was called.

use std::alloc::{GlobalAlloc, Layout, System};
use std::cell::Cell;

pub struct Counting;

thread_local! {
    static ON: Cell<bool> = const { Cell::new(false) };
    static CUR: Cell<usize> = const { Cell::new(0) };
    static PEAK: Cell<usize> = const { Cell::new(0) };
    static MAX_SINGLE: Cell<usize> = const { Cell::new(0) };
    static TOTAL: Cell<usize> = const { Cell::new(0) };
    /// requests above this are refused (null) so an absurd reservation becomes an observable
    /// failure instead of exhausting the sandbox
    static REFUSE_ABOVE: Cell<usize> = const { Cell::new(usize::MAX) };
}

#[derive(Clone, Copy, Debug, Default)]
pub struct AllocStats {
    pub peak: usize,
    pub max_single: usize,
    pub total: usize,
}

fn on_alloc(size: usize) -> bool {
    let mut ok = true;
    let _ = ON.try_with(|on| {
        if on.get() {
            let lim = REFUSE_ABOVE.with(|r| r.get());
            if size > lim {
                ok = false;
                MAX_SINGLE.with(|m| m.set(m.get().max(size)));
                return;
            }
            CUR.with(|c| {
                let v = c.get().saturating_add(size);
                c.set(v);
                PEAK.with(|p| p.set(p.get().max(v)));
            });
            MAX_SINGLE.with(|m| m.set(m.get().max(size)));
            TOTAL.with(|t| t.set(t.get().saturating_add(size)));
        }
    });
    ok
}

fn on_dealloc(size: usize) {
    let _ = ON.try_with(|on| {
        if on.get() {
            CUR.with(|c| c.set(c.get().saturating_sub(size)));
        }
    });
}

unsafe impl GlobalAlloc for Counting {
    unsafe fn alloc(&self, l: Layout) -> *mut u8 {
        if !on_alloc(l.size()) {
            return std::ptr::null_mut();
        }
        System.alloc(l)
    }
    unsafe fn alloc_zeroed(&self, l: Layout) -> *mut u8 {
        if !on_alloc(l.size()) {
            return std::ptr::null_mut();
        }
        System.alloc_zeroed(l)
    }
    unsafe fn dealloc(&self, p: *mut u8, l: Layout) {
        on_dealloc(l.size());
        System.dealloc(p, l)
    }
    unsafe fn realloc(&self, p: *mut u8, l: Layout, new: usize) -> *mut u8 {
        if new > l.size() {
            if !on_alloc(new - l.size()) {
                return std::ptr::null_mut();
            }
            // a growing realloc may need old + new at once; count the new block as a single request
            let _ = ON.try_with(|on| {
                if on.get() {
                    MAX_SINGLE.with(|m| m.set(m.get().max(new)));
                }
            });
        } else {
            on_dealloc(l.size() - new);
        }
        System.realloc(p, l, new)
    }
}

pub fn start(refuse_above: usize) {
    CUR.with(|c| c.set(0));
    PEAK.with(|c| c.set(0));
    MAX_SINGLE.with(|c| c.set(0));
    TOTAL.with(|c| c.set(0));
    REFUSE_ABOVE.with(|c| c.set(refuse_above));
    ON.with(|c| c.set(true));
}

pub fn stop() -> AllocStats {
    ON.with(|c| c.set(false));
    REFUSE_ABOVE.with(|c| c.set(usize::MAX));
    AllocStats { peak: PEAK.with(|c| c.get()), max_single: MAX_SINGLE.with(|c| c.get()), total: TOTAL.with(|c| c.get()) }
}

//! Bridge between the library's term types and the reference model's `Value`.

use erltf::types::{ExternalFun, InternalFun};
use erltf::{Atom, BigInt, ExternalPid, ExternalPort, ExternalReference, OwnedTerm};
use refmodel::etf::Picker;
use refmodel::{BigI, Value};
use std::collections::BTreeMap;

/// The Erlang value a library term denotes.
pub fn denote(t: &OwnedTerm) -> Value {
    match t {
        OwnedTerm::Atom(a) => Value::Atom(a.as_str().to_string()),
        OwnedTerm::Integer(i) => Value::int(*i as i128),
        OwnedTerm::BigInt(b) => Value::Int(BigI::from_parts(b.sign.is_negative(), &b.digits)),
        OwnedTerm::Float(f) => Value::Float(f.to_bits()),
        OwnedTerm::Binary(b) => Value::binary(b),
        OwnedTerm::String(s) => Value::binary(s.as_bytes()),
        OwnedTerm::BitBinary { bytes, bits } => {
            if bytes.is_empty() {
                Value::binary(b"")
            } else {
                Value::bits(bytes, (*bits).clamp(1, 8))
            }
        }
        OwnedTerm::Nil => Value::nil(),
        OwnedTerm::List(l) => Value::list(l.iter().map(denote).collect()),
        OwnedTerm::ImproperList { elements, tail } => {
            Value::cons_list(elements.iter().map(denote).collect(), denote(tail))
        }
        OwnedTerm::Tuple(v) => Value::Tuple(v.iter().map(denote).collect()),
        OwnedTerm::Map(m) => Value::Map(m.iter().map(|(k, v)| (denote(k), denote(v))).collect()),
        OwnedTerm::Pid(p) => denote_pid(p),
        OwnedTerm::Port(p) => Value::Port { node: p.node.as_str().to_string(), id: p.id, creation: p.creation },
        OwnedTerm::Reference(r) => {
            Value::Ref { node: r.node.as_str().to_string(), creation: r.creation, ids: r.ids.clone() }
        }
        OwnedTerm::ExternalFun(f) => Value::ExportFun {
            module: f.module.as_str().to_string(),
            function: f.function.as_str().to_string(),
            arity: f.arity,
        },
        OwnedTerm::InternalFun(f) => Value::Fun {
            arity: f.arity,
            uniq: f.uniq,
            index: f.index,
            module: f.module.as_str().to_string(),
            old_index: f.old_index,
            old_uniq: f.old_uniq,
            pid: Box::new(denote_pid(&f.pid)),
            free: f.free_vars.iter().map(denote).collect(),
        },
    }
}

pub fn denote_pid(p: &ExternalPid) -> Value {
    Value::Pid { node: p.node.as_str().to_string(), id: p.id, serial: p.serial, creation: p.creation }
}

pub fn bigint_of(b: &BigI) -> BigInt {
    BigInt::new(b.neg, b.mag.clone())
}

pub fn lift_pid(v: &Value) -> ExternalPid {
    match v {
        Value::Pid { node, id, serial, creation } => ExternalPid::new(Atom::new(node), *id, *serial, *creation),
        _ => panic!("lift_pid on non-pid"),
    }
}

/// Lift a value to one of the library's representations of it.  `pk` chooses among
/// representations (alternative 0 = the form the library's own decoder produces for the
/// library's own encoding, except small integers which decode to Integer).
/// Returns None when the value cannot be represented (a map whose keys collapse in BTreeMap).
pub fn lift(v: &Value, pk: &mut dyn Picker) -> Option<OwnedTerm> {
    Some(match v {
        Value::Int(b) => match b.to_i64() {
            Some(i) => {
                if pk.pick(8, "int-as-bigint") == 7 {
                    OwnedTerm::BigInt(bigint_of(b))
                } else {
                    OwnedTerm::Integer(i)
                }
            }
            None => OwnedTerm::BigInt(bigint_of(b)),
        },
        Value::Float(bits) => OwnedTerm::Float(f64::from_bits(*bits)),
        Value::Atom(a) => OwnedTerm::Atom(Atom::new(a)),
        Value::Bits { bytes, last_bits } => {
            if *last_bits == 8 {
                match pk.pick(4, "bin-repr") {
                    2 => match std::str::from_utf8(bytes) {
                        Ok(s) => OwnedTerm::String(s.to_string()),
                        Err(_) => OwnedTerm::Binary(bytes.clone()),
                    },
                    3 if !bytes.is_empty() => OwnedTerm::BitBinary { bytes: bytes.clone(), bits: 8 },
                    _ => OwnedTerm::Binary(bytes.clone()),
                }
            } else {
                OwnedTerm::BitBinary { bytes: bytes.clone(), bits: *last_bits }
            }
        }
        Value::Tuple(el) => OwnedTerm::Tuple(el.iter().map(|e| lift(e, pk)).collect::<Option<Vec<_>>>()?),
        Value::List { elems, tail } => {
            let els = elems.iter().map(|e| lift(e, pk)).collect::<Option<Vec<_>>>()?;
            match tail {
                None => {
                    if els.is_empty() {
                        if pk.pick(4, "nil-repr") == 3 {
                            OwnedTerm::List(vec![])
                        } else {
                            OwnedTerm::Nil
                        }
                    } else if els.len() >= 2 && pk.pick(8, "list-repr") == 7 {
                        // list-valued tail
                        let cut = 1 + pk.pick(els.len() - 1, "list-cut");
                        let mut els = els;
                        let rest = els.split_off(cut);
                        OwnedTerm::ImproperList { elements: els, tail: Box::new(OwnedTerm::List(rest)) }
                    } else {
                        OwnedTerm::List(els)
                    }
                }
                Some(t) => OwnedTerm::ImproperList { elements: els, tail: Box::new(lift(t, pk)?) },
            }
        }
        Value::Map(m) => {
            let mut bm = BTreeMap::new();
            for (k, x) in m {
                bm.insert(lift(k, pk)?, lift(x, pk)?);
            }
            if bm.len() != m.len() {
                return None;
            }
            OwnedTerm::Map(bm)
        }
        Value::Pid { .. } => {
            let mut p = lift_pid(v);
            if pk.pick(5, "id-local") == 4 {
                p.local_ext_bytes = Some(local_bytes(v, pk).into());
            }
            OwnedTerm::Pid(p)
        }
        Value::Port { node, id, creation } => {
            let mut p = ExternalPort::new(Atom::new(node), *id, *creation);
            // (the inner form of a node-local port must be one the decoder knows)
            if pk.pick(5, "id-local") == 4 {
                p.local_ext_bytes = Some(local_bytes(v, pk).into());
            }
            OwnedTerm::Port(p)
        }
        Value::Ref { node, creation, ids } => {
            let mut r = ExternalReference::new(Atom::new(node), *creation, ids.clone());
            if pk.pick(5, "id-local") == 4 {
                r.local_ext_bytes = Some(local_bytes(v, pk).into());
            }
            OwnedTerm::Reference(r)
        }
        Value::ExportFun { module, function, arity } => {
            OwnedTerm::ExternalFun(ExternalFun::new(Atom::new(module), Atom::new(function), *arity))
        }
        Value::Fun { arity, uniq, index, module, old_index, old_uniq, pid, free } => {
            let fv = free.iter().map(|e| lift(e, pk)).collect::<Option<Vec<_>>>()?;
            OwnedTerm::InternalFun(Box::new(InternalFun::new(
                *arity,
                *uniq,
                *index,
                fv.len() as u32,
                Atom::new(module),
                *old_index,
                *old_uniq,
                lift_pid(pid),
                fv,
            )))
        }
    })
}

/// The raw bytes the decoder captures for a node-local identifier: 8-byte hash followed by the
/// identifier's own (modern) encoding, without the LOCAL_EXT tag byte.
pub fn local_bytes(v: &Value, pk: &mut dyn Picker) -> Vec<u8> {
    let h = pk.pick(256, "local-hash") as u8;
    let mut out = vec![h, h ^ 0x5a, 1, 2, 3, 4, 5, h.wrapping_add(7)];
    out.extend_from_slice(&refmodel::etf::refenc_canonical(v)[1..]);
    out
}

/// Canonical lift (always alternative 0).
pub fn lift0(v: &Value) -> Option<OwnedTerm> {
    lift(v, &mut refmodel::etf::Canonical)
}

/// Structural identity of two library terms: same variant, same fields, floats by bits,
/// raw LOCAL_EXT bytes included.  (`==` on OwnedTerm ignores raw bytes and treats 0.0 == -0.0.)
pub fn identical(a: &OwnedTerm, b: &OwnedTerm) -> bool {
    use OwnedTerm::*;
    match (a, b) {
        (Atom(x), Atom(y)) => x.as_str() == y.as_str(),
        (Integer(x), Integer(y)) => x == y,
        (Float(x), Float(y)) => x.to_bits() == y.to_bits(),
        (Pid(x), Pid(y)) => ident_pid(x, y),
        (Port(x), Port(y)) => {
            x.node.as_str() == y.node.as_str() && x.id == y.id && x.creation == y.creation && x.local_ext_bytes == y.local_ext_bytes
        }
        (Reference(x), Reference(y)) => {
            x.node.as_str() == y.node.as_str()
                && x.creation == y.creation
                && x.ids == y.ids
                && x.local_ext_bytes == y.local_ext_bytes
        }
        (Binary(x), Binary(y)) => x == y,
        (BitBinary { bytes: x, bits: xb }, BitBinary { bytes: y, bits: yb }) => x == y && xb == yb,
        (String(x), String(y)) => x == y,
        (List(x), List(y)) => x.len() == y.len() && x.iter().zip(y).all(|(p, q)| identical(p, q)),
        (ImproperList { elements: x, tail: tx }, ImproperList { elements: y, tail: ty }) => {
            x.len() == y.len() && x.iter().zip(y).all(|(p, q)| identical(p, q)) && identical(tx, ty)
        }
        (Map(x), Map(y)) => {
            x.len() == y.len() && x.iter().zip(y).all(|((k1, v1), (k2, v2))| identical(k1, k2) && identical(v1, v2))
        }
        (Tuple(x), Tuple(y)) => x.len() == y.len() && x.iter().zip(y).all(|(p, q)| identical(p, q)),
        (BigInt(x), BigInt(y)) => x.sign == y.sign && x.digits == y.digits,
        (ExternalFun(x), ExternalFun(y)) => x == y,
        (InternalFun(x), InternalFun(y)) => {
            x.arity == y.arity
                && x.uniq == y.uniq
                && x.index == y.index
                && x.num_free == y.num_free
                && x.module.as_str() == y.module.as_str()
                && x.old_index == y.old_index
                && x.old_uniq == y.old_uniq
                && ident_pid(&x.pid, &y.pid)
                && x.free_vars.len() == y.free_vars.len()
                && x.free_vars.iter().zip(&y.free_vars).all(|(p, q)| identical(p, q))
        }
        (Nil, Nil) => true,
        _ => false,
    }
}

fn ident_pid(x: &ExternalPid, y: &ExternalPid) -> bool {
    x.node.as_str() == y.node.as_str()
        && x.id == y.id
        && x.serial == y.serial
        && x.creation == y.creation
        && x.local_ext_bytes == y.local_ext_bytes
}

pub fn hex(b: &[u8]) -> String {
    let mut s = String::with_capacity(b.len() * 2);
    for x in b.iter().take(600) {
        s.push_str(&format!("{:02x}", x));
    }
    if b.len() > 600 {
        s.push_str(&format!("…[{} bytes]", b.len()));
    }
    s
}

pub fn unhex(s: &str) -> Vec<u8> {
    (0..s.len() / 2).map(|i| u8::from_str_radix(&s[2 * i..2 * i + 2], 16).unwrap_or(0)).collect()
}

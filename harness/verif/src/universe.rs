//! Corner-case universes for the ordering properties (C11, C12).

use crate::gen::{special_floats, special_ints};
use refmodel::{BigI, Value};
use serde::{Deserialize, Serialize};

/// A universe item: a value and the representation choices used to lift it.
#[derive(Clone, Debug, Serialize, Deserialize, PartialEq)]
pub struct Item {
    pub value: Value,
    pub repr: Vec<u8>,
}

fn i(v: i128) -> Value {
    Value::int(v)
}
fn a(s: &str) -> Value {
    Value::atom(s)
}
fn t(v: Vec<Value>) -> Value {
    Value::Tuple(v)
}
fn l(v: Vec<Value>) -> Value {
    Value::list(v)
}
fn il(v: Vec<Value>, tail: Value) -> Value {
    Value::cons_list(v, tail)
}
fn m(v: Vec<(Value, Value)>) -> Value {
    Value::Map(v)
}
fn big(neg: bool, d: &[u8]) -> Value {
    Value::Int(BigI::from_parts(neg, d))
}

pub fn number_corners() -> Vec<Value> {
    let mut v: Vec<Value> = special_ints().into_iter().map(Value::Int).collect();
    // equal-length multi-digit big integers differing in low / high digits
    for d in [
        &[2u8, 0, 0, 0, 0, 0, 0, 0, 1][..],
        &[1, 0, 0, 0, 0, 0, 0, 0, 2],
        &[0, 1, 0, 0, 0, 0, 0, 0, 1],
        &[255, 0, 0, 0, 0, 0, 0, 0, 1],
        &[0, 0, 0, 0, 0, 0, 0, 255, 1],
        &[1, 2, 3, 4, 5, 6, 7, 8, 9, 10, 11, 12],
        &[12, 11, 10, 9, 8, 7, 6, 5, 4, 3, 2, 1],
        &[1, 2, 3, 4, 5, 6, 7, 8, 9, 10, 11, 13],
    ] {
        v.push(big(false, d));
        v.push(big(true, d));
    }
    // 300-digit class and the 255/256 digit boundary
    v.push(big(false, &vec![0x11; 255]));
    v.push(big(false, &vec![0x11; 256]));
    let mut d = vec![0x11u8; 256];
    d[0] = 0x12;
    v.push(big(false, &d));
    v.push(big(true, &vec![0x11; 256]));
    for f in special_floats() {
        v.push(Value::float(f));
    }
    // floats adjacent to the integer corners
    for p in [31u32, 53, 63, 64] {
        let b = (1u128 << p) as f64;
        for f in [b, f64::from_bits(b.to_bits() + 1), f64::from_bits(b.to_bits() - 1), -b, -f64::from_bits(b.to_bits() + 1), -f64::from_bits(b.to_bits() - 1)] {
            v.push(Value::float(f));
        }
    }
    for f in [1e20f64, 1e20 + 16384.0, 0.1, -0.1, 2.5, -2.5, 254.5, 255.5, 1e308, -1e308, 1.0e-300] {
        v.push(Value::float(f));
    }
    dedup(v)
}

pub fn atoms() -> Vec<Value> {
    ["", "a", "b", "ab", "aa", "A", "z", "ok", "error", "é", "ÿ", "中", "a_long_atom_name"].iter().map(|s| a(s)).collect()
}

pub fn identifiers() -> Vec<Value> {
    let mut v = vec![];
    for (node, id, serial, creation) in
        [("a@b", 1u32, 0u32, 1u32), ("a@b", 2, 0, 1), ("a@b", 1, 1, 1), ("a@b", 1, 0, 2), ("b@b", 1, 0, 1), ("a@b", u32::MAX, u32::MAX, u32::MAX)]
    {
        v.push(Value::Pid { node: node.into(), id, serial, creation });
    }
    for (node, id, creation) in [("a@b", 1u64, 1u32), ("a@b", 2, 1), ("a@b", 1, 2), ("b@b", 1, 1), ("a@b", 1 << 40, 1)] {
        v.push(Value::Port { node: node.into(), id, creation });
    }
    for (node, creation, ids) in [
        ("a@b", 1u32, vec![1u32, 2, 3]),
        ("a@b", 1, vec![1, 2, 4]),
        ("a@b", 1, vec![1, 2]),
        ("a@b", 2, vec![1, 2, 3]),
        ("b@b", 1, vec![1, 2, 3]),
        ("a@b", 1, vec![]),
    ] {
        v.push(Value::Ref { node: node.into(), creation, ids });
    }
    v
}

pub fn funs() -> Vec<Value> {
    let pid = Value::Pid { node: "a@b".into(), id: 1, serial: 0, creation: 1 };
    let base = |arity: u8, index: u32, free: Vec<Value>| Value::Fun {
        arity,
        uniq: [7; 16],
        index,
        module: "m".into(),
        old_index: 3,
        old_uniq: 4,
        pid: Box::new(pid.clone()),
        free,
    };
    vec![
        Value::ExportFun { module: "m".into(), function: "f".into(), arity: 1 },
        Value::ExportFun { module: "m".into(), function: "f".into(), arity: 2 },
        Value::ExportFun { module: "m".into(), function: "g".into(), arity: 1 },
        Value::ExportFun { module: "n".into(), function: "f".into(), arity: 1 },
        base(1, 0, vec![]),
        base(2, 0, vec![]), // differs only in arity
        base(1, 1, vec![]),
        base(1, 0, vec![i(1)]),
        base(1, 0, vec![Value::float(1.0)]),
        base(1, 0, vec![i(2)]),
    ]
}

pub fn bitstrings() -> Vec<Value> {
    vec![
        Value::binary(b""),
        Value::binary(&[0]),
        Value::binary(&[0, 0]),
        Value::binary(&[1]),
        Value::binary(&[0x80]),
        Value::binary(&[0xff]),
        Value::binary(b"ab"),
        Value::binary(b"abc"),
        Value::binary(b"abd"),
        Value::binary("é".as_bytes()),
        Value::bits(&[0x80], 1),
        Value::bits(&[0x00], 1),
        Value::bits(&[0x00], 7),
        Value::bits(&[0xfe], 7),
        Value::bits(&[0xff, 0x80], 1),
        Value::bits(&[0xff, 0x00], 1),
        Value::bits(b"ab\x80", 1),
        Value::bits(b"ab\x40", 2),
        Value::bits(&[0x40], 2),
        Value::bits(&[0x40], 3),
    ]
}

pub fn lists() -> Vec<Value> {
    vec![
        Value::nil(),
        l(vec![i(1)]),
        l(vec![i(2)]),
        l(vec![Value::float(1.0)]),
        l(vec![i(1), i(2)]),
        l(vec![i(1), i(2), i(3)]),
        l(vec![i(1), i(3)]),
        il(vec![i(1)], i(2)),
        il(vec![i(1)], i(3)),
        il(vec![i(1), i(2)], i(3)),
        il(vec![i(1)], Value::binary(b"")),
        il(vec![i(1)], a("x")),
        il(vec![i(1)], t(vec![])),
        il(vec![i(1), i(2)], Value::binary(b"")),
        il(vec![i(0)], i(2)),
        l(vec![Value::nil()]),
        l(vec![l(vec![i(1)])]),
        l(vec![a("a"), a("b")]),
        l((0..5).map(|x| i(x + 97)).collect()),
        l((0..5).map(|x| i(x + 98)).collect()),
    ]
}

pub fn tuples_maps() -> Vec<Value> {
    vec![
        t(vec![]),
        t(vec![i(1)]),
        t(vec![i(2)]),
        t(vec![Value::float(1.0)]),
        t(vec![i(9)]),
        t(vec![i(1), i(1)]),
        t(vec![i(1), i(2)]),
        t(vec![a("a"), a("b")]),
        t(vec![a("a"), a("b"), a("c")]),
        t(vec![t(vec![])]),
        m(vec![]),
        m(vec![(i(1), i(2)), (i(3), i(0))]),
        m(vec![(i(1), i(1)), (i(4), i(0))]),
        m(vec![(i(1), i(2)), (i(3), i(1))]),
        m(vec![(a("a"), i(1))]),
        m(vec![(a("a"), i(2))]),
        m(vec![(a("a"), Value::float(1.0))]),
        m(vec![(a("b"), i(1))]),
        m(vec![(a("a"), i(1)), (a("b"), i(1))]),
        m(vec![(i(1), a("x"))]),
        m(vec![(Value::float(1.0), a("x"))]), // int vs float key: verdict `Either` against the previous
        m(vec![(l(vec![i(1)]), i(0))]),
        m(vec![(il(vec![i(1)], i(2)), i(0))]),
        m(vec![(m(vec![]), m(vec![]))]),
    ]
}

fn dedup(v: Vec<Value>) -> Vec<Value> {
    let mut out: Vec<Value> = vec![];
    for x in v {
        let c = x.canon();
        if !out.iter().any(|y| *y == c) {
            out.push(c);
        }
    }
    out
}

/// The full corner universe of values (every type rank, every listed corner).
pub fn corner_values() -> Vec<Value> {
    let mut leaves: Vec<Value> = vec![];
    leaves.extend(number_corners());
    leaves.extend(atoms());
    leaves.extend(identifiers());
    leaves.extend(funs());
    leaves.extend(bitstrings());
    leaves.extend(lists());
    leaves.extend(tuples_maps());
    // compound terms built from a spread of leaves
    let picks: Vec<Value> = leaves.iter().step_by(9).cloned().collect();
    let mut compounds = vec![];
    for x in &picks {
        compounds.push(t(vec![x.clone()]));
        compounds.push(l(vec![x.clone()]));
        compounds.push(m(vec![(a("k"), x.clone())]));
        compounds.push(m(vec![(x.clone(), i(0))]));
    }
    for w in picks.windows(2).step_by(3) {
        compounds.push(t(vec![w[0].clone(), w[1].clone()]));
        if !matches!(w[1], Value::List { .. }) {
            compounds.push(il(vec![w[0].clone()], w[1].clone()));
        }
    }
    leaves.extend(compounds);
    dedup(leaves)
}

/// Representation variants: for each value, the default lift plus every alternative that
/// actually changes the representation (bounded).
pub fn repr_variants(v: &Value) -> Vec<Item> {
    use crate::terms::{identical, lift};
    use refmodel::etf::VecPicker;
    let mut out: Vec<Item> = vec![];
    let mut terms = vec![];
    let cands: Vec<Vec<u8>> = vec![vec![], vec![255; 8], vec![255, 0, 255, 0, 255, 0], vec![0, 255, 0, 255, 0, 255], vec![160; 8], vec![224, 224, 100, 224]];
    for c in cands {
        let mut pk = VecPicker::new(&c);
        if let Some(term) = lift(v, &mut pk) {
            if !terms.iter().any(|t2| identical(t2, &term)) {
                terms.push(term);
                out.push(Item { value: v.clone(), repr: c });
            }
        }
    }
    out
}

//! Shared generators: the boundary-biased term space over `refmodel::Value`.

use proptest::collection::vec;
use proptest::prelude::*;
use proptest::sample::select;
use refmodel::{BigI, Value};

#[derive(Clone, Copy, Debug)]
pub struct GenCfg {
    pub depth: u32,
    pub size: u32,
    /// allow heavy scalars (64 KiB atoms / binaries, 65535-word refs, 256-ary tuples)
    pub heavy: bool,
    pub funs: bool,
    pub ids: bool,
    /// allow a map to contain keys that are == but not identical (1 and 1.0)
    pub eq_num_keys: bool,
    pub floats: bool,
}

impl GenCfg {
    pub const fn std() -> GenCfg {
        GenCfg { depth: 5, size: 48, heavy: true, funs: true, ids: true, eq_num_keys: false, floats: true }
    }
    pub const fn light() -> GenCfg {
        GenCfg { depth: 4, size: 24, heavy: false, funs: true, ids: true, eq_num_keys: false, floats: true }
    }
}

pub fn special_ints() -> Vec<BigI> {
    let mut v: Vec<i128> = vec![0, 1, -1, 2, 127, 128, 254, 255, 256, 257, -255, -256, 65535, 65536];
    for p in [27u32, 31, 32, 53, 63, 64] {
        let b = 1i128 << p;
        v.extend([b - 1, b, b + 1, -b + 1, -b, -b - 1]);
    }
    v.push(100_000_000_000_000_000_000i128); // 10^20
    v.push(-100_000_000_000_000_000_000i128);
    v.push(i128::MAX);
    v.push(i128::MIN + 1);
    v.into_iter().map(BigI::from_i128).collect()
}

pub fn arb_bigi() -> BoxedStrategy<BigI> {
    prop_oneof![
        4 => select(special_ints()),
        3 => (-300i64..300).prop_map(BigI::from_i64),
        2 => any::<i64>().prop_map(BigI::from_i64),
        1 => any::<i32>().prop_map(|v| BigI::from_i64(v as i64)),
        2 => (any::<bool>(), vec(any::<u8>(), 8..=17), 1u8..=255).prop_map(|(neg, mut d, top)| {
            d.push(top);
            BigI::from_parts(neg, &d)
        }),
        1 => (any::<bool>(), vec(any::<u8>(), 0..=125), 1u8..=255).prop_map(|(neg, mut d, top)| {
            d.push(top);
            BigI::from_parts(neg, &d)
        }),
        // SMALL_BIG / LARGE_BIG boundary: 254..257 base-256 digits
        1 => (any::<bool>(), 253usize..=256, any::<u8>(), 1u8..=255).prop_map(|(neg, n, fill, top)| {
            let mut d = vec![fill; n];
            d.push(top);
            BigI::from_parts(neg, &d)
        }),
    ]
    .boxed()
}

pub fn special_floats() -> Vec<f64> {
    vec![
        0.0,
        -0.0,
        1.0,
        -1.0,
        0.5,
        1.5,
        f64::MIN_POSITIVE,
        5e-324,
        -5e-324,
        f64::MAX,
        f64::MIN,
        f64::EPSILON,
        9007199254740991.0,
        9007199254740992.0,
        9007199254740994.0,
        -9007199254740992.0,
        9223372036854775808.0,
        -9223372036854775808.0,
        18446744073709551616.0,
        1e20,
        1e300,
        2147483648.0,
        255.0,
        256.0,
        3.141592653589793,
    ]
}

pub fn arb_f64() -> BoxedStrategy<f64> {
    prop_oneof![
        3 => select(special_floats()),
        3 => any::<u64>().prop_map(|b| {
            let f = f64::from_bits(b);
            if f.is_finite() { f } else { f64::from_bits(b & !(1u64 << 62)) }
        }),
        2 => (-1000i32..1000, 0u8..4).prop_map(|(n, q)| n as f64 + q as f64 * 0.25),
        1 => any::<i64>().prop_map(|i| i as f64),
    ]
    .boxed()
}

pub const COMMON_ATOMS: &[&str] = &[
    "ok", "error", "true", "false", "nil", "undefined", "normal", "shutdown", "infinity", "badarg", "badarith", "badmatch",
    "noproc", "timeout", "rex", "$gen_call", "Elixir.Enum", "__struct__",
    // the wider vocabulary of OTP exit reasons, error classes, message tags and well-known names: any table of
    // "interned" or specially treated atoms in the library is most likely drawn from these
    "noconnection", "nocatch", "killed", "kill", "EXIT", "DOWN", "process", "port", "badfun", "badarity", "function_clause",
    "case_clause", "if_clause", "try_clause", "undef", "badkey", "badmap", "badrecord", "system_limit", "timeout_value",
    "noconnection", "nonode@nohost", "net_kernel", "global_name_server", "user", "init", "erlang", "self", "node", "throw",
    "exit", "$gen_cast", "$gen_event", "$gen_notify", "$gen_sync_notify", "$gen_which_handlers", "$ancestors", "$initial_call",
    "is_auth", "yes", "no", "noreply", "reply", "stop", "ignore", "continue", "hibernate", "call", "cast", "info", "apply", "user",
    "monitor", "demonitor", "link", "unlink", "flush", "alias", "reply_demonitor", "priority", "nosuspend", "noconnect",
    "badrpc", "nodedown", "nodeup", "Elixir.String", "Elixir.Kernel", "Elixir.ArgumentError", "Elixir.RuntimeError", "__exception__",
    "message", "calendar", "Elixir.Calendar.ISO", "Elixir.MapSet", "Elixir.Range", "Elixir.Date", "Elixir.DateTime", "Etc/UTC", "UTC",
    "first", "last", "step", "year", "month", "day", "hour", "minute", "second", "microsecond", "map", "key", "term", "value",
];

fn sized_string(unit: &str, bytes: usize) -> String {
    // string of exactly `bytes` UTF-8 bytes built from `unit` and padded with 'x'
    let mut s = String::with_capacity(bytes);
    while s.len() + unit.len() <= bytes && !unit.is_empty() {
        s.push_str(unit);
    }
    while s.len() < bytes {
        s.push('x');
    }
    s
}

pub fn arb_atom_name(heavy: bool) -> BoxedStrategy<String> {
    let light = prop_oneof![
        5 => select(COMMON_ATOMS.to_vec()).prop_map(|s| s.to_string()),
        6 => "[a-z][a-zA-Z0-9_@.]{0,12}".prop_map(|s| s),
        2 => "[ -~]{0,20}".prop_map(|s| s),
        // Latin-1 range code points (two UTF-8 bytes each)
        2 => vec(0xA0u32..=0xFF, 1..8).prop_map(|v| v.into_iter().map(|c| char::from_u32(c).unwrap()).collect::<String>()),
        2 => vec(prop_oneof![Just('é'), Just('ß'), Just('λ'), Just('Ж'), Just('中'), Just('日'), Just('🎉'), Just('a'), Just('_')], 1..10)
            .prop_map(|v| v.into_iter().collect::<String>()),
        1 => Just(String::new()),
        // pairs of names of which one, written in Latin-1, has exactly the bytes of the other written in UTF-8
        2 => select(vec!["Ã©", "é", "Â\u{a0}", "\u{a0}", "Ã¼", "ü", "Ã\u{9f}", "ß", "Ã©Ã©", "éé", "aÃ©", "aé"]).prop_map(|s| s.to_string()),
        // 20..80 bytes of characters of mixed width: byte offsets such as 32 or 64 fall inside a character
        2 => vec(prop_oneof![Just('a'), Just('é'), Just('ж'), Just('中'), Just('🎉'), Just('z')], 12..40).prop_map(|v| v.into_iter().collect::<String>()),
    ];
    if !heavy {
        return light.boxed();
    }
    prop_oneof![
        40 => light,
        // exact byte-length boundaries
        2 => (select(vec![254usize, 255, 256, 257]), select(vec!["a", "é", "中", "🎉"])).prop_map(|(n, u)| sized_string(u, n)),
        // 255 / 256 *characters* of Latin-1 range (boundary of the Latin-1 small atom tag)
        1 => select(vec![127usize, 128, 255, 256]).prop_map(|n| "ÿ".repeat(n)),
        1 => (select(vec![1000usize, 65534, 65535]), select(vec!["a", "é", "🎉"])).prop_map(|(n, u)| sized_string(u, n)),
    ]
    .boxed()
}

pub fn arb_node_name() -> BoxedStrategy<String> {
    prop_oneof![
        8 => select(vec!["a@b", "node@host", "rabbit@localhost", "x@127.0.0.1", "nonode@nohost"]).prop_map(|s| s.to_string()),
        3 => "[a-z]{1,8}@[a-z0-9.]{1,12}".prop_map(|s| s),
        1 => "[a-z]{1,3}@".prop_map(|s| format!("{s}{}", "é".repeat(3))),
        1 => Just(sized_string("n", 255)),
    ]
    .boxed()
}

pub fn arb_u32_edge() -> BoxedStrategy<u32> {
    prop_oneof![
        4 => select(vec![0u32, 1, 2, 3, 4, 255, 256, (1 << 13) - 1, 1 << 13, (1 << 15) - 1, 1 << 15, (1 << 18) - 1, 1 << 18,
            (1 << 20), (1 << 27) - 1, 1 << 27, (1 << 28) - 1, 1 << 28, (1u32 << 31) - 1, 1u32 << 31, u32::MAX - 1, u32::MAX]),
        3 => any::<u32>(),
        2 => 0u32..1000,
    ]
    .boxed()
}

pub fn arb_u64_edge() -> BoxedStrategy<u64> {
    prop_oneof![
        4 => select(vec![0u64, 1, 255, (1 << 28) - 1, 1 << 28, (1 << 31), (1 << 32) - 1, 1 << 32, (1u64 << 63) - 1, 1u64 << 63, u64::MAX - 1, u64::MAX]),
        3 => any::<u64>(),
        2 => 0u64..100000,
        1 => any::<u32>().prop_map(|v| v as u64),
    ]
    .boxed()
}

pub fn arb_creation() -> BoxedStrategy<u32> {
    prop_oneof![
        5 => select(vec![0u32, 1, 2, 3, 4, 255, 256, u32::MAX]),
        3 => any::<u32>(),
    ]
    .boxed()
}

pub fn arb_pid() -> BoxedStrategy<Value> {
    (arb_node_name(), arb_u32_edge(), arb_u32_edge(), arb_creation())
        .prop_map(|(node, id, serial, creation)| Value::Pid { node, id, serial, creation })
        .boxed()
}

pub fn arb_port() -> BoxedStrategy<Value> {
    (arb_node_name(), arb_u64_edge(), arb_creation()).prop_map(|(node, id, creation)| Value::Port { node, id, creation }).boxed()
}

pub fn arb_ref(heavy: bool) -> BoxedStrategy<Value> {
    let ids = if heavy {
        prop_oneof![
            60 => vec(arb_u32_edge(), 0..=5),
            1 => select(vec![6usize, 65535]).prop_flat_map(|n| any::<u32>().prop_map(move |x| (0..n as u32).map(|i| x.wrapping_add(i)).collect::<Vec<u32>>())),
        ]
        .boxed()
    } else {
        vec(arb_u32_edge(), 0..=5).boxed()
    };
    (arb_node_name(), arb_creation(), ids).prop_map(|(node, creation, ids)| Value::Ref { node, creation, ids }).boxed()
}

pub fn arb_bits(heavy: bool) -> BoxedStrategy<Value> {
    let len = if heavy {
        prop_oneof![
            30 => 0usize..40,
            4 => select(vec![0usize, 1, 2, 255, 256]),
            1 => select(vec![65535usize, 65536, 100_000]),
        ]
        .boxed()
    } else {
        prop_oneof![10 => 0usize..24, 1 => select(vec![255usize, 256])].boxed()
    };
    (len, any::<u64>(), prop_oneof![3 => Just(8u8), 2 => 1u8..=8], any::<bool>())
        .prop_map(|(n, seed, last, ascii)| {
            let mut x = seed | 1;
            let bytes: Vec<u8> = (0..n)
                .map(|_| {
                    x ^= x << 13;
                    x ^= x >> 7;
                    x ^= x << 17;
                    if ascii {
                        b'a' + (x % 26) as u8
                    } else {
                        (x >> 24) as u8
                    }
                })
                .collect();
            Value::bits(&bytes, last)
        })
        .boxed()
}

pub fn arb_export() -> BoxedStrategy<Value> {
    (arb_atom_name(false), arb_atom_name(false), prop_oneof![Just(0u8), Just(1u8), Just(255u8), any::<u8>()])
        .prop_map(|(module, function, arity)| Value::ExportFun { module, function, arity })
        .boxed()
}

pub fn arb_leaf(cfg: GenCfg) -> BoxedStrategy<Value> {
    let mut alts: Vec<(u32, BoxedStrategy<Value>)> = vec![
        (8, arb_bigi().prop_map(Value::Int).boxed()),
        (5, arb_atom_name(cfg.heavy).prop_map(Value::Atom).boxed()),
        (4, arb_bits(cfg.heavy)),
        (1, Just(Value::nil()).boxed()),
        (1, Just(Value::Tuple(vec![])).boxed()),
        (1, Just(Value::Map(vec![])).boxed()),
    ];
    if cfg.floats {
        alts.push((4, arb_f64().prop_map(Value::float).boxed()));
    }
    if cfg.ids {
        alts.push((2, arb_pid()));
        alts.push((2, arb_port()));
        alts.push((2, arb_ref(cfg.heavy)));
    }
    if cfg.funs {
        alts.push((1, arb_export()));
    }
    proptest::strategy::Union::new_weighted(alts).boxed()
}

/// Remove map entries whose key is `==` (or, without `eq_num_keys`, numerically equal) to an
/// earlier key, so the generated value is a well-formed Erlang map.
pub fn dedupe_map(entries: Vec<(Value, Value)>, eq_num_keys: bool) -> Vec<(Value, Value)> {
    let mut out: Vec<(Value, Value)> = Vec::with_capacity(entries.len());
    for (k, v) in entries {
        let dup = out.iter().any(|(k2, _)| {
            if eq_num_keys {
                k2.canon() == k.canon()
            } else {
                refmodel::order::loose_eq(k2, &k)
            }
        });
        if !dup {
            out.push((k, v));
        }
    }
    out
}

pub fn arb_value(cfg: GenCfg) -> BoxedStrategy<Value> {
    let leaf = arb_leaf(cfg);
    leaf.prop_recursive(cfg.depth, cfg.size, 6, move |inner| {
        let mut alts: Vec<(u32, BoxedStrategy<Value>)> = vec![
            (6, vec(inner.clone(), 0..6).prop_map(Value::Tuple).boxed()),
            (6, vec(inner.clone(), 0..6).prop_map(Value::list).boxed()),
            (2, (vec(inner.clone(), 1..4), inner.clone()).prop_map(|(e, t)| Value::cons_list(e, t)).boxed()),
            // byte lists (STRING_EXT candidates)
            (2, vec(any::<u8>(), 0..20).prop_map(|b| Value::list(b.into_iter().map(|x| Value::int(x as i128)).collect())).boxed()),
            (
                5,
                vec((inner.clone(), inner.clone()), 0..5).prop_map(move |e| Value::Map(dedupe_map(e, cfg.eq_num_keys))).boxed(),
            ),
        ];
        // two keys that are neighbours of each other (an identifier with one field changed, a reference with one word more,
        // a fun with another arity, a number next to it ...): distinct terms must stay distinct map entries
        alts.push((
            2,
            (inner.clone(), vec(any::<u8>(), 0..6), inner.clone(), inner.clone())
                .prop_map(move |(k, tw, a, b)| {
                    // (the neighbour is clamped back into the term space: an atom of 65535 bytes has no longer neighbour)
                    let k2 = sanitize(&tweak(&k, &mut refmodel::etf::VecPicker::new(&tw)), 0);
                    Value::Map(dedupe_map(vec![(k, a), (k2, b)], cfg.eq_num_keys))
                })
                .boxed(),
        ));
        if cfg.funs && cfg.ids {
            // the same with keys that are identifiers or funs: the neighbour differs in one field of the identifier, of the
            // fun, or of the fun's creator pid
            let id_or_fun = prop_oneof![
                1 => arb_pid(),
                1 => arb_port(),
                1 => arb_ref(false),
                3 => (any::<u8>(), any::<[u8; 16]>(), arb_u32_edge(), arb_atom_name(false), arb_u32_edge(), arb_u32_edge(), arb_pid(), vec(arb_leaf(GenCfg { heavy: false, ..cfg }), 0..2))
                    .prop_map(|(arity, uniq, index, module, old_index, old_uniq, pid, free)| Value::Fun { arity, uniq, index, module, old_index, old_uniq, pid: Box::new(pid), free }),
            ];
            alts.push((
                1,
                (id_or_fun, vec(any::<u8>(), 0..6), inner.clone(), inner.clone())
                    .prop_map(move |(k, tw, a, b)| {
                        let k2 = sanitize(&tweak(&k, &mut refmodel::etf::VecPicker::new(&tw)), 0);
                        Value::Map(dedupe_map(vec![(k, a), (k2, b)], cfg.eq_num_keys))
                    })
                    .boxed(),
            ));
        }
        if cfg.eq_num_keys {
            alts.push((
                2,
                (-3i64..3, 0u8..7, any::<bool>(), inner.clone(), inner.clone())
                    .prop_map(|(n, kind, swap, a, b)| {
                        let (k1, k2) = match kind {
                            0 | 1 => (Value::int(n as i128), Value::float(n as f64)),
                            2 => (Value::float(0.0), Value::float(-0.0)),
                            3 => (Value::int(1 << 53), Value::float(9007199254740992.0)),
                            4 => (Value::Tuple(vec![Value::int(n as i128)]), Value::Tuple(vec![Value::float(n as f64)])),
                            // maps as keys whose own keys differ only by int / float: different maps in Erlang (even under ==)
                            5 => (Value::Map(vec![(Value::int(n as i128), Value::atom("v"))]), Value::Map(vec![(Value::float(n as f64), Value::atom("v"))])),
                            _ => (Value::list(vec![Value::float(0.0)]), Value::list(vec![Value::float(-0.0)])),
                        };
                        if swap {
                            Value::Map(vec![(k2, a), (k1, b)])
                        } else {
                            Value::Map(vec![(k1, a), (k2, b)])
                        }
                    })
                    .boxed(),
            ));
        }
        if cfg.funs {
            alts.push((
                1,
                (
                    any::<u8>(),
                    any::<[u8; 16]>(),
                    arb_u32_edge(),
                    arb_atom_name(false),
                    arb_u32_edge(),
                    arb_u32_edge(),
                    arb_pid(),
                    vec(inner.clone(), 0..4),
                )
                    .prop_map(|(arity, uniq, index, module, old_index, old_uniq, pid, free)| Value::Fun {
                        arity,
                        uniq,
                        index,
                        module,
                        old_index,
                        old_uniq,
                        pid: Box::new(pid),
                        free,
                    })
                    .boxed(),
            ));
        }
        if cfg.heavy {
            // arity boundaries of the small/large tuple tags and long byte lists
            alts.push((
                1,
                (select(vec![255usize, 256]), inner.clone()).prop_map(|(n, x)| {
                    let mut v = vec![Value::int(7); n];
                    v[n - 1] = x;
                    Value::Tuple(v)
                })
                .boxed(),
            ));
            alts.push((
                1,
                (select(vec![255usize, 256, 65535, 65536]), any::<u8>())
                    .prop_map(|(n, b)| Value::list((0..n).map(|i| Value::int(((i as u8) ^ b) as i128)).collect()))
                    .boxed(),
            ));
        }
        proptest::strategy::Union::new_weighted(alts).boxed()
    })
    .boxed()
}

/// Representation / encoding choice bytes.
pub fn arb_choices(n: usize) -> BoxedStrategy<Vec<u8>> {
    prop_oneof![
        1 => Just(vec![]),
        3 => vec(prop_oneof![3 => Just(0u8), 2 => any::<u8>(), 1 => Just(255u8)], 0..n),
        2 => vec(any::<u8>(), n..=n),
    ]
    .boxed()
}

/// Classification of a value into boundary classes (for evidence histograms).
pub fn classes_of(v: &Value) -> Vec<&'static str> {
    let mut c: Vec<&'static str> = vec![];
    let mut add = |s: &'static str| {
        if !c.contains(&s) {
            c.push(s)
        }
    };
    v.walk(&mut |x| match x {
        Value::Int(b) => {
            match b.to_i128() {
                Some(v) if (0..=255).contains(&v) => add("int:small"),
                Some(v) if v >= i32::MIN as i128 && v <= i32::MAX as i128 => add("int:i32"),
                Some(v) if v >= i64::MIN as i128 && v <= i64::MAX as i128 => add("int:i64"),
                _ => add("int:beyond-i64"),
            }
            if b.mag.len() > 255 {
                add("int:large-big")
            }
        }
        Value::Float(bits) => {
            let f = f64::from_bits(*bits);
            if f == 0.0 && f.is_sign_negative() {
                add("float:-0.0")
            } else if f != 0.0 && f.abs() < f64::MIN_POSITIVE {
                add("float:subnormal")
            } else {
                add("float")
            }
        }
        Value::Atom(a) => {
            if a.len() > 255 {
                add("atom:>255B")
            } else if a.is_empty() {
                add("atom:empty")
            } else if !a.is_ascii() {
                add("atom:non-ascii")
            } else {
                add("atom")
            }
        }
        Value::Bits { bytes, last_bits } => {
            if *last_bits != 8 {
                add("bits:partial")
            } else if bytes.len() >= 65535 {
                add("binary:>=64K")
            } else {
                add("binary")
            }
        }
        Value::Tuple(t) => {
            if t.len() >= 255 {
                add("tuple:>=255")
            } else {
                add("tuple")
            }
        }
        Value::List { elems, tail } => {
            if tail.is_some() {
                add("list:improper")
            } else if elems.is_empty() {
                add("nil")
            } else if elems.len() >= 65535 {
                add("list:>=64K")
            } else {
                add("list")
            }
        }
        Value::Map(m) => {
            if m.is_empty() {
                add("map:empty")
            } else {
                add("map")
            }
        }
        Value::Pid { .. } => add("pid"),
        Value::Port { id, .. } => {
            if *id >= (1 << 28) {
                add("port:wide")
            } else {
                add("port")
            }
        }
        Value::Ref { ids, .. } => {
            if ids.len() > 5 {
                add("ref:long")
            } else {
                add("ref")
            }
        }
        Value::ExportFun { .. } => add("export-fun"),
        Value::Fun { old_index, old_uniq, .. } => {
            if *old_index >= (1 << 31) || *old_uniq >= (1 << 31) {
                add("fun:old>=2^31")
            } else {
                add("fun")
            }
        }
    });
    c
}

/// A small change to a value (a "neighbour" in the term space): used to generate pairs that
/// are equal up to one detail, where comparison bugs live.
pub fn tweak(v: &Value, pk: &mut dyn refmodel::etf::Picker) -> Value {
    use refmodel::BigI;
    match v {
        Value::Int(b) => match pk.pick(5, "tw-int") {
            0 => match b.to_i128() {
                Some(x) if x < i128::MAX => Value::int(x + 1),
                _ => {
                    let mut m = b.mag.clone();
                    m[0] ^= 1;
                    Value::Int(BigI::from_parts(b.neg, &m))
                }
            },
            1 => Value::Int(BigI::from_parts(!b.neg, &b.mag)),
            2 => {
                // nearest float
                let f = b.to_i128().map(|x| x as f64).unwrap_or(1e300);
                Value::float(f)
            }
            3 => {
                let mut m = b.mag.clone();
                if m.is_empty() {
                    m.push(1)
                } else {
                    let n = m.len();
                    m[n - 1] = m[n - 1].wrapping_add(1).max(1);
                }
                Value::Int(BigI::from_parts(b.neg, &m))
            }
            _ => {
                let mut m = b.mag.clone();
                m.insert(0, 0);
                Value::Int(BigI::from_parts(b.neg, &m))
            }
        },
        Value::Float(bits) => {
            let f = f64::from_bits(*bits);
            match pk.pick(4, "tw-float") {
                0 => Value::Float(if f64::from_bits(bits.wrapping_add(1)).is_finite() { bits.wrapping_add(1) } else { bits.wrapping_sub(1) }),
                1 => Value::float(-f),
                2 if f.abs() < 1e30 => Value::Int(BigI::from_i128(f.trunc() as i128)),
                _ => Value::float(f * 2.0 + 1.0).clone().pipe_finite(f),
            }
        }
        Value::Atom(a) => match pk.pick(3, "tw-atom") {
            0 => Value::Atom(format!("{a}a")),
            1 if !a.is_empty() => {
                let mut c: Vec<char> = a.chars().collect();
                c.pop();
                Value::Atom(c.into_iter().collect())
            }
            _ => Value::Atom(format!("{a}é")),
        },
        Value::Bits { bytes, last_bits } => match pk.pick(4, "tw-bits") {
            0 => {
                let mut b = bytes.clone();
                b.push(0);
                Value::bits(&b, *last_bits)
            }
            1 if !bytes.is_empty() => Value::bits(bytes, if *last_bits == 8 { 7 } else { last_bits + 1 }),
            2 if !bytes.is_empty() => {
                let mut b = bytes.clone();
                let n = b.len();
                b[n - 1] ^= 0x80;
                Value::bits(&b, *last_bits)
            }
            _ => Value::bits(&[bytes.as_slice(), &[0x80]].concat(), 1),
        },
        Value::Tuple(el) => {
            if el.is_empty() || pk.pick(3, "tw-tuple") == 0 {
                let mut e = el.clone();
                e.push(Value::int(0));
                Value::Tuple(e)
            } else {
                let i = pk.pick(el.len(), "tw-idx");
                let mut e = el.clone();
                e[i] = tweak(&e[i], pk);
                Value::Tuple(e)
            }
        }
        Value::List { elems, tail } => match pk.pick(4, "tw-list") {
            0 => {
                let mut e = elems.clone();
                e.push(Value::int(0));
                Value::List { elems: e, tail: tail.clone() }
            }
            1 if tail.is_none() && !elems.is_empty() => Value::cons_list(elems.clone(), Value::int(0)),
            2 if tail.is_some() => Value::List { elems: elems.clone(), tail: None },
            _ if !elems.is_empty() => {
                let i = pk.pick(elems.len(), "tw-idx");
                let mut e = elems.clone();
                e[i] = tweak(&e[i], pk);
                Value::cons_list(e, tail.as_ref().map(|t| (**t).clone()).unwrap_or(Value::nil()))
            }
            _ => Value::list(vec![Value::nil()]),
        },
        Value::Map(m) => {
            if m.is_empty() {
                return Value::Map(vec![(Value::int(0), Value::int(0))]);
            }
            let i = pk.pick(m.len(), "tw-idx");
            let mut e = m.clone();
            if pk.pick(2, "tw-map") == 0 {
                e[i].1 = tweak(&e[i].1, pk);
            } else {
                e[i].0 = tweak(&e[i].0, pk);
            }
            Value::Map(dedupe_map(e, false))
        }
        Value::Pid { node, id, serial, creation } => match pk.pick(6, "tw-pid") {
            4 => Value::Pid { node: node.clone(), id: id ^ (1 << 15), serial: *serial, creation: *creation },
            5 => Value::Pid { node: node.clone(), id: *id, serial: serial ^ (1 << 13), creation: *creation },
            0 => Value::Pid { node: node.clone(), id: id.wrapping_add(1), serial: *serial, creation: *creation },
            1 => Value::Pid { node: node.clone(), id: *id, serial: serial.wrapping_add(1), creation: *creation },
            2 => Value::Pid { node: node.clone(), id: *id, serial: *serial, creation: creation.wrapping_add(1) },
            _ => Value::Pid { node: format!("{node}x"), id: *id, serial: *serial, creation: *creation },
        },
        Value::Port { node, id, creation } => match pk.pick(5, "tw-port") {
            0 => Value::Port { node: node.clone(), id: id.wrapping_add(1), creation: *creation },
            // the same low 32 (28) bits, another high part
            3 => Value::Port { node: node.clone(), id: id ^ (1 << 32), creation: *creation },
            4 => Value::Port { node: node.clone(), id: id ^ (1 << 28), creation: *creation },
            1 => Value::Port { node: node.clone(), id: *id, creation: creation.wrapping_add(1) },
            _ => Value::Port { node: format!("{node}x"), id: *id, creation: *creation },
        },
        Value::Ref { node, creation, ids } => match pk.pick(5, "tw-ref") {
            0 => {
                let mut i2 = ids.clone();
                i2.push(0);
                Value::Ref { node: node.clone(), creation: *creation, ids: i2 }
            }
            // one word more in front (the old words become a suffix), one word fewer
            3 if ids.len() < 5 => {
                let mut i2 = ids.clone();
                i2.insert(0, 1);
                Value::Ref { node: node.clone(), creation: *creation, ids: i2 }
            }
            4 if !ids.is_empty() => Value::Ref { node: node.clone(), creation: *creation, ids: ids[1..].to_vec() },
            1 => Value::Ref { node: node.clone(), creation: creation.wrapping_add(1), ids: ids.clone() },
            _ => Value::Ref { node: format!("{node}x"), creation: *creation, ids: ids.clone() },
        },
        Value::ExportFun { module, function, arity } => match pk.pick(3, "tw-exp") {
            0 => Value::ExportFun { module: module.clone(), function: function.clone(), arity: arity.wrapping_add(1) },
            1 => Value::ExportFun { module: format!("{module}x"), function: function.clone(), arity: *arity },
            _ => Value::ExportFun { module: module.clone(), function: format!("{function}x"), arity: *arity },
        },
        Value::Fun { arity, uniq, index, module, old_index, old_uniq, pid, free } => {
            let mut f = (*arity, *uniq, *index, module.clone(), *old_index, *old_uniq, pid.clone(), free.clone());
            match pk.pick(7, "tw-fun") {
                // the fun's creator pid with one field changed (e.g. the same fun before and after a node restart)
                6 => f.6 = Box::new(tweak(&f.6, pk)),
                0 => f.0 = f.0.wrapping_add(1),
                1 => f.1[15] ^= 1,
                2 => f.2 = f.2.wrapping_add(1),
                3 => f.4 = f.4.wrapping_add(1),
                4 => f.7.push(Value::int(0)),
                _ => f.5 = f.5.wrapping_add(1),
            }
            Value::Fun { arity: f.0, uniq: f.1, index: f.2, module: f.3, old_index: f.4, old_uniq: f.5, pid: f.6, free: f.7 }
        }
    }
}

trait PipeFinite {
    fn pipe_finite(self, fallback: f64) -> Value;
}
impl PipeFinite for Value {
    fn pipe_finite(self, fallback: f64) -> Value {
        match self {
            Value::Float(b) if f64::from_bits(b).is_finite() => Value::Float(b),
            _ => Value::float(fallback / 2.0),
        }
    }
}

fn cut(s: &str, max_bytes: usize) -> String {
    if s.len() <= max_bytes {
        return s.to_string();
    }
    let mut end = max_bytes;
    while !s.is_char_boundary(end) {
        end -= 1;
    }
    s[..end].to_string()
}

/// Map an arbitrary `Value` (e.g. one decoded from fuzzer bytes) into the well-formed term space the generators
/// above produce: normalised integers, finite floats, masked bit strings, flattened lists, maps without `==`-equal
/// keys, identifiers with 1..255-byte node names and at most five reference words, funs whose creator is a pid.
pub fn sanitize(v: &Value, depth: usize) -> Value {
    if depth > 40 {
        return Value::nil();
    }
    let s = |x: &Value| sanitize(x, depth + 1);
    let node = |n: &str| if n.is_empty() { "n@h".to_string() } else { cut(n, 255) };
    match v {
        Value::Int(b) => Value::Int(BigI::from_parts(b.neg, &b.mag)),
        Value::Float(bits) => {
            let f = f64::from_bits(*bits);
            Value::Float(if f.is_finite() { *bits } else { *bits & !(1u64 << 62) })
        }
        Value::Atom(a) => Value::Atom(cut(a, 65535)),
        Value::Bits { bytes, last_bits } => Value::bits(bytes, (*last_bits).clamp(1, 8)),
        Value::Tuple(e) => Value::Tuple(e.iter().map(s).collect()),
        Value::List { elems, tail } => {
            let e: Vec<Value> = elems.iter().map(s).collect();
            match tail {
                None => Value::list(e),
                Some(t) => Value::cons_list(e, s(t)),
            }
        }
        Value::Map(m) => Value::Map(dedupe_map(m.iter().map(|(k, x)| (s(k), s(x))).collect(), false)),
        Value::Pid { node: n, id, serial, creation } => Value::Pid { node: node(n), id: *id, serial: *serial, creation: *creation },
        Value::Port { node: n, id, creation } => Value::Port { node: node(n), id: *id, creation: *creation },
        Value::Ref { node: n, creation, ids } => Value::Ref { node: node(n), creation: *creation, ids: ids.iter().copied().take(5).collect() },
        Value::ExportFun { module, function, arity } => Value::ExportFun { module: cut(module, 255), function: cut(function, 255), arity: *arity },
        Value::Fun { arity, uniq, index, module, old_index, old_uniq, pid, free } => Value::Fun {
            arity: *arity,
            uniq: *uniq,
            index: *index,
            module: cut(module, 255),
            old_index: *old_index,
            old_uniq: *old_uniq,
            pid: Box::new(match s(pid) {
                p @ Value::Pid { .. } => p,
                _ => Value::Pid { node: "n@h".into(), id: 1, serial: 2, creation: 3 },
            }),
            free: free.iter().take(8).map(s).collect(),
        },
    }
}

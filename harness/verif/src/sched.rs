//! Deterministic baton-passing scheduler for OS threads, driven through the library's
//! `verif::sync_point` hook, plus a stateless depth-first explorer over schedules.

use std::rc::Rc;
use std::sync::{Arc, Condvar, Mutex};
use std::time::Duration;

struct State {
    at: Vec<Option<&'static str>>,
    finished: Vec<bool>,
    granted: Option<usize>,
    step: u64,
    blocked_since: Vec<Option<u64>>,
    last_progress: u64,
    /// number of times a thread has been seen outside every instrumented critical region
    /// (arrived at an `::enter` / `thread::start` point or finished)
    exits: u64,
    blocked_exits: Vec<u64>,
    /// strict: a thread that found the lock taken is offered again only after some thread has left
    /// the instrumented function (the only place a correct lock is released); eager: after any progress
    strict: bool,
    abort: bool,
}

#[derive(Clone)]
pub struct Baton {
    inner: Arc<(Mutex<State>, Condvar)>,
}

fn is_blocked_tag(tag: &str) -> bool {
    tag.ends_with("::blocked")
}

#[derive(Debug)]
pub enum SchedErr {
    Deadlock(Vec<Option<&'static str>>),
    Timeout,
}

impl Baton {
    pub fn new(n: usize, strict: bool) -> Baton {
        Baton {
            inner: Arc::new((
                Mutex::new(State {
                    at: vec![None; n],
                    finished: vec![false; n],
                    granted: None,
                    step: 0,
                    blocked_since: vec![None; n],
                    last_progress: 0,
                    exits: 0,
                    blocked_exits: vec![0; n],
                    strict,
                    abort: false,
                }),
                Condvar::new(),
            )),
        }
    }

    /// Called by worker thread `i` at every instrumentation point: park until granted.
    pub fn arrive(&self, i: usize, tag: &'static str) {
        let (m, cv) = &*self.inner;
        let mut st = m.lock().unwrap();
        if st.abort {
            return;
        }
        st.at[i] = Some(tag);
        if tag.ends_with("::enter") || tag == "thread::start" {
            st.exits += 1;
        }
        st.blocked_since[i] = if is_blocked_tag(tag) { Some(st.step) } else { None };
        if is_blocked_tag(tag) {
            st.blocked_exits[i] = st.exits;
        }
        cv.notify_all();
        while st.granted != Some(i) && !st.abort {
            st = cv.wait(st).unwrap();
        }
        st.granted = None;
        st.at[i] = None;
        cv.notify_all();
    }

    pub fn finish(&self, i: usize) {
        let (m, cv) = &*self.inner;
        let mut st = m.lock().unwrap();
        st.finished[i] = true;
        st.exits += 1;
        st.at[i] = None;
        cv.notify_all();
    }

    /// Install this baton as the sync-point callback of the current (worker) thread.
    pub fn install(&self, i: usize) {
        let b = self.clone();
        edp_client::verif::set_sync_point(Some(Rc::new(move |tag| b.arrive(i, tag))));
    }

    /// Controller: repeatedly wait until every unfinished thread is parked, pick one of the
    /// runnable ones with `choose(n) -> index`, until all have finished.
    /// Returns the number of scheduling decisions made.
    pub fn drive(&self, choose: &mut dyn FnMut(usize) -> usize) -> Result<u64, SchedErr> {
        let (m, cv) = &*self.inner;
        let mut st = m.lock().unwrap();
        loop {
            // wait for quiescence
            loop {
                let quiet = st.granted.is_none() && (0..st.at.len()).all(|i| st.finished[i] || st.at[i].is_some());
                if quiet {
                    break;
                }
                let (g, to) = cv.wait_timeout(st, Duration::from_secs(120)).unwrap();
                st = g;
                if to.timed_out() {
                    st.abort = true;
                    cv.notify_all();
                    return Err(SchedErr::Timeout);
                }
            }
            if st.finished.iter().all(|f| *f) {
                return Ok(st.step);
            }
            let runnable: Vec<usize> = (0..st.at.len())
                .filter(|&i| {
                    st.at[i].is_some()
                        && match st.blocked_since[i] {
                            // a thread that found the lock taken is offered again only after somebody else moved
                            Some(since) => {
                                if st.strict {
                                    st.exits > st.blocked_exits[i]
                                } else {
                                    st.last_progress > since
                                }
                            }
                            None => true,
                        }
                })
                .collect();
            if runnable.is_empty() {
                let at = st.at.clone();
                st.abort = true;
                cv.notify_all();
                return Err(SchedErr::Deadlock(at));
            }
            let k = choose(runnable.len()).min(runnable.len() - 1);
            let t = runnable[k];
            st.step += 1;
            if !st.at[t].map_or(false, is_blocked_tag) {
                st.last_progress = st.step;
            }
            st.granted = Some(t);
            cv.notify_all();
        }
    }
}

/// Stateless depth-first exploration of all schedules.  `run(choose)` executes the scenario once,
/// calling `choose(n)` at every scheduling decision; returns false to stop the exploration.
/// Returns (schedules explored, complete?).
pub fn explore_all(max_schedules: u64, mut run: impl FnMut(&mut dyn FnMut(usize) -> usize) -> bool) -> (u64, bool) {
    let mut stack: Vec<(usize, usize)> = vec![];
    let mut count = 0u64;
    loop {
        let mut depth = 0usize;
        let mut newstack = stack.clone();
        let keep_going = {
            let mut choose = |n: usize| -> usize {
                let c = if depth < newstack.len() {
                    // replaying the prefix (n may legitimately equal the recorded n)
                    newstack[depth].1 = n;
                    newstack[depth].0.min(n - 1)
                } else {
                    newstack.push((0, n));
                    0
                };
                depth += 1;
                c
            };
            run(&mut choose)
        };
        count += 1;
        newstack.truncate(depth);
        stack = newstack;
        if !keep_going {
            return (count, false);
        }
        // backtrack
        while let Some(&(c, n)) = stack.last() {
            if c + 1 < n {
                break;
            }
            stack.pop();
        }
        match stack.last_mut() {
            None => return (count, true),
            Some(top) => top.0 += 1,
        }
        if count >= max_schedules {
            return (count, false);
        }
    }
}

//! Network test-bed: one current-thread tokio runtime per case with a paused clock that moves
//! only when the script says so (auto-advance inhibited), a fake EPMD, a scripted peer on a
//! loopback socket, kernel-queue based settling, and a real-time watchdog.

use refmodel::md5::handshake_digest;
use refmodel::proto;
use std::collections::HashMap;
use std::future::Future;
use std::sync::atomic::{AtomicBool, Ordering};
use std::sync::{Arc, Mutex};
use std::time::Duration;
use tokio::io::{AsyncReadExt, AsyncWriteExt};
use tokio::net::{TcpListener, TcpStream};

#[derive(Debug)]
pub enum BedErr {
    /// the real-time cap was hit: inconclusive, never a violation by itself
    RealTimeCap,
    Setup(String),
}

thread_local! {
    /// the thread on which the last case of this (oracle) thread ran its runtime: panics are attributed through it
    static CASE_THREAD: std::cell::Cell<Option<std::thread::ThreadId>> = const { std::cell::Cell::new(None) };
}

/// Run one case.  `f` receives the bed and returns the case future.
///
/// The case's runtime lives on a thread of its own.  A soft watchdog ends a case whose future merely never
/// completes; if the runtime thread itself is blocked (a synchronous deadlock inside the library, e.g. a lock held
/// across an await on a single-threaded runtime) the caller stops waiting `real_cap` + 5 s after the start, the
/// blocked thread is abandoned, and the case is reported as `RealTimeCap` as well.
pub fn run_case<T, F, Fut>(real_cap: Duration, f: F) -> Result<T, BedErr>
where
    T: Send + 'static,
    F: FnOnce(Bed) -> Fut + Send + 'static,
    Fut: Future<Output = T>,
{
    let (tx, rx) = std::sync::mpsc::channel::<Result<T, BedErr>>();
    let h = std::thread::Builder::new()
        .name("case-runtime".into())
        .stack_size(32 << 20)
        .spawn(move || {
            let _ = tx.send(run_case_here(real_cap, f));
        })
        .map_err(|e| BedErr::Setup(e.to_string()))?;
    CASE_THREAD.with(|c| c.set(Some(h.thread().id())));
    match rx.recv_timeout(real_cap + Duration::from_secs(5)) {
        Ok(r) => {
            let _ = h.join();
            r
        }
        Err(std::sync::mpsc::RecvTimeoutError::Timeout) => Err(BedErr::RealTimeCap),
        Err(std::sync::mpsc::RecvTimeoutError::Disconnected) => match h.join() {
            // a panic inside the case future (library code called directly by the case): seen by the caller as before
            Err(payload) => std::panic::resume_unwind(payload),
            Ok(()) => Err(BedErr::Setup("the case thread ended without a result".into())),
        },
    }
}

fn run_case_here<T, F, Fut>(real_cap: Duration, f: F) -> Result<T, BedErr>
where
    F: FnOnce(Bed) -> Fut,
    Fut: Future<Output = T>,
{
    let rt = tokio::runtime::Builder::new_current_thread()
        .enable_all()
        .start_paused(true)
        .build()
        .map_err(|e| BedErr::Setup(e.to_string()))?;
    let done = Arc::new(AtomicBool::new(false));
    let (wd_tx, wd_rx) = tokio::sync::oneshot::channel::<()>();
    let d2 = done.clone();
    let wd = std::thread::spawn(move || {
        let t0 = std::time::Instant::now();
        while !d2.load(Ordering::SeqCst) {
            if t0.elapsed() > real_cap {
                let _ = wd_tx.send(());
                return;
            }
            std::thread::sleep(Duration::from_millis(5));
        }
    });
    let (park_tx, park_rx) = std::sync::mpsc::channel::<()>();
    let out = rt.block_on(async {
        // a parked blocking task inhibits the paused clock's auto-advance for the whole case:
        // virtual time then moves only through `advance`
        let parked = tokio::task::spawn_blocking(move || {
            let _ = park_rx.recv();
        });
        let bed = match Bed::new().await {
            Ok(b) => b,
            Err(e) => return Err(BedErr::Setup(e)),
        };
        edp_client::verif::set_epmd_port(Some(bed.epmd_port));
        let r = tokio::select! {
            biased;
            r = f(bed) => Ok(r),
            _ = wd_rx => Err(BedErr::RealTimeCap),
        };
        edp_client::verif::set_epmd_port(None);
        drop(park_tx);
        let _ = parked.await;
        r
    });
    done.store(true, Ordering::SeqCst);
    let _ = wd.join();
    // dropping the runtime cancels every task the library spawned
    rt.shutdown_timeout(Duration::from_millis(200));
    out
}

/// Run one case on a multi-threaded runtime with the real clock (nothing timed is exercised there):
/// the library's tasks and the case's own tasks then run truly in parallel.  `f` is polled on the
/// calling thread, so the thread-local EPMD port override is seen by `Node::start`.
pub fn run_case_mt<T, F, Fut>(workers: usize, real_cap: Duration, f: F) -> Result<T, BedErr>
where
    F: FnOnce(Bed) -> Fut,
    Fut: Future<Output = T>,
{
    let rt = tokio::runtime::Builder::new_multi_thread().worker_threads(workers).enable_all().build().map_err(|e| BedErr::Setup(e.to_string()))?;
    let out = rt.block_on(async {
        let bed = match Bed::new().await {
            Ok(b) => b,
            Err(e) => return Err(BedErr::Setup(e)),
        };
        edp_client::verif::set_epmd_port(Some(bed.epmd_port));
        let r = match tokio::time::timeout(real_cap, f(bed)).await {
            Ok(r) => Ok(r),
            Err(_) => Err(BedErr::RealTimeCap),
        };
        edp_client::verif::set_epmd_port(None);
        r
    });
    rt.shutdown_timeout(Duration::from_millis(200));
    out
}

pub async fn advance(d: Duration) {
    tokio::time::advance(d).await;
    drain().await;
}

/// let every ready task run (chains of wake-ups need several rounds)
pub async fn drain() {
    for _ in 0..40 {
        tokio::task::yield_now().await;
    }
}

#[derive(Clone)]
pub struct Bed {
    pub epmd_port: u16,
    pub epmd_names: Arc<Mutex<HashMap<String, u16>>>,
    pub epmd_creation: Arc<Mutex<u32>>,
    /// answer registrations with the older ALIVE2_RESP (tag 121, 16-bit creation) instead of ALIVE2_X_RESP
    pub epmd_legacy: Arc<Mutex<bool>>,
}

impl Bed {
    async fn new() -> Result<Bed, String> {
        let l = TcpListener::bind("127.0.0.1:0").await.map_err(|e| format!("bind fake EPMD: {e}"))?;
        let port = l.local_addr().map_err(|e| e.to_string())?.port();
        let names: Arc<Mutex<HashMap<String, u16>>> = Arc::new(Mutex::new(HashMap::new()));
        let creation = Arc::new(Mutex::new(0x0102_0304u32));
        let legacy = Arc::new(Mutex::new(false));
        let l2 = legacy.clone();
        let (n2, c2) = (names.clone(), creation.clone());
        tokio::spawn(async move {
            loop {
                let Ok((mut s, _)) = l.accept().await else { break };
                let (n3, c3, l3) = (n2.clone(), c2.clone(), l2.clone());
                tokio::spawn(async move {
                    let _ = s.set_nodelay(true);
                    // every harness socket is closed with RST (linger 0) *after* the other side is done
                    // with it, so that the library's ephemeral ports do not pile up in TIME_WAIT
                    let _ = s.set_linger(Some(Duration::from_secs(0)));
                    let Ok(len) = s.read_u16().await else { return };
                    let mut req = vec![0u8; len as usize];
                    if s.read_exact(&mut req).await.is_err() || req.is_empty() {
                        return;
                    }
                    match req[0] {
                        120 => {
                            // ALIVE2_REQ -> ALIVE2_X_RESP Result(0) Creation(4)
                            let c = *c3.lock().unwrap();
                            let mut resp = if *l3.lock().unwrap() { vec![121u8, 0] } else { vec![118u8, 0] };
                            if resp[0] == 121 {
                                resp.extend_from_slice(&(c as u16).to_be_bytes());
                            } else {
                                resp.extend_from_slice(&c.to_be_bytes());
                            }
                            let _ = s.write_all(&resp).await;
                            // keep the registration connection open until the client drops it
                            let mut b = [0u8; 1];
                            let _ = s.read(&mut b).await;
                        }
                        122 => {
                            let name = String::from_utf8_lossy(&req[1..]).to_string();
                            let port = n3.lock().unwrap().get(&name).copied();
                            let mut resp = vec![119u8];
                            match port {
                                Some(p) => {
                                    resp.push(0);
                                    resp.extend_from_slice(&p.to_be_bytes());
                                    resp.extend_from_slice(&[77, 0]);
                                    resp.extend_from_slice(&6u16.to_be_bytes());
                                    resp.extend_from_slice(&5u16.to_be_bytes());
                                    resp.extend_from_slice(&(name.len() as u16).to_be_bytes());
                                    resp.extend_from_slice(name.as_bytes());
                                    resp.extend_from_slice(&0u16.to_be_bytes());
                                }
                                None => resp.push(1),
                            }
                            let _ = s.write_all(&resp).await;
                            // wait for the client's FIN before resetting, so it has read the answer
                            let mut b = [0u8; 1];
                            let _ = s.read(&mut b).await;
                        }
                        _ => {}
                    }
                });
            }
        });
        Ok(Bed { epmd_port: port, epmd_names: names, epmd_creation: creation, epmd_legacy: legacy })
    }

    /// Listen for the library's distribution connection under `short_name` (the part before '@').
    pub async fn listen(&self, short_name: &str) -> Result<PeerListener, String> {
        let l = TcpListener::bind("127.0.0.1:0").await.map_err(|e| format!("bind peer: {e}"))?;
        let port = l.local_addr().map_err(|e| e.to_string())?.port();
        self.epmd_names.lock().unwrap().insert(short_name.to_string(), port);
        Ok(PeerListener { l, port })
    }
}

pub struct PeerListener {
    l: TcpListener,
    pub port: u16,
}

impl PeerListener {
    pub async fn accept(&self) -> Result<PeerConn, String> {
        let (s, addr) = self.l.accept().await.map_err(|e| format!("accept: {e}"))?;
        let _ = s.set_nodelay(true);
        let _ = s.set_linger(Some(Duration::from_secs(0)));
        let c = PeerConn { s, my_port: self.port, their_port: addr.port(), deframer: proto::Deframer::default(), eof: false };
        c.quickack();
        Ok(c)
    }
}

/// Graceful close (FIN) instead of the default reset-on-drop.
impl PeerConn {
    pub fn close_gracefully(self) {
        let _ = self.s.set_linger(None);
        drop(self);
    }
}

pub struct PeerConn {
    pub s: TcpStream,
    pub my_port: u16,
    pub their_port: u16,
    pub deframer: proto::Deframer,
    pub eof: bool,
}

/// What the responder side of a handshake saw and did.
#[derive(Debug, Clone, Default)]
pub struct HandshakeRecord {
    pub send_name: Vec<u8>,
    pub complement: Vec<u8>,
    pub reply: Vec<u8>,
    pub completed: bool,
}

#[derive(Debug, Clone)]
pub struct PeerIdentity {
    pub name: String,
    pub flags: u64,
    pub challenge: u32,
    pub creation: u32,
    pub cookie: Vec<u8>,
}

impl PeerConn {
    pub fn quickack(&self) {
        use std::os::fd::AsRawFd;
        let fd = self.s.as_raw_fd();
        let one: libc::c_int = 1;
        unsafe {
            libc::setsockopt(fd, libc::IPPROTO_TCP, libc::TCP_QUICKACK, &one as *const _ as *const libc::c_void, std::mem::size_of::<libc::c_int>() as u32);
        }
    }

    /// next complete frame (prefix 2 or 4 bytes); None on EOF / reset
    pub async fn read_frame(&mut self, prefix: usize) -> Option<Vec<u8>> {
        loop {
            if let Some(f) = self.deframer.next(prefix) {
                return Some(f);
            }
            if self.eof {
                return None;
            }
            let mut buf = [0u8; 65536];
            match self.s.read(&mut buf).await {
                Ok(0) | Err(_) => {
                    self.eof = true;
                }
                Ok(n) => {
                    self.deframer.push(&buf[..n]);
                    self.quickack();
                }
            }
        }
    }

    /// Like `read_frame`, but gives up (after a last look at the socket) once `done` is set: used
    /// when the other side may legitimately stop talking, e.g. after it has failed the handshake.
    pub async fn read_frame_until(&mut self, prefix: usize, done: &std::cell::Cell<bool>) -> Option<Vec<u8>> {
        loop {
            self.poll_in();
            if let Some(f) = self.deframer.next(prefix) {
                return Some(f);
            }
            if self.eof {
                return None;
            }
            if done.get() {
                drain().await;
                self.poll_in();
                return self.deframer.next(prefix);
            }
            drain().await;
            std::thread::sleep(Duration::from_micros(100));
        }
    }

    /// Non-blocking: pull whatever the kernel has into the deframer.
    pub fn poll_in(&mut self) {
        let mut buf = [0u8; 65536];
        loop {
            match self.s.try_read(&mut buf) {
                Ok(0) => {
                    self.eof = true;
                    break;
                }
                Ok(n) => self.deframer.push(&buf[..n]),
                Err(_) => break,
            }
        }
        self.quickack();
    }

    pub async fn write(&mut self, data: &[u8]) -> bool {
        self.s.write_all(data).await.is_ok() && self.s.flush().await.is_ok()
    }

    /// write `data` cut into segments at the given offsets, letting each segment reach the other side
    pub async fn write_segmented(&mut self, data: &[u8], cuts: &[usize]) -> bool {
        let mut pts: Vec<usize> = cuts.iter().map(|c| (*c).min(data.len())).collect();
        pts.sort();
        pts.dedup();
        let mut start = 0;
        for p in pts.into_iter().chain(std::iter::once(data.len())) {
            if p > start {
                if !self.write(&data[start..p]).await {
                    return false;
                }
                self.settle().await;
                start = p;
            }
        }
        true
    }

    /// bytes written by this side that the other side's kernel has not yet acknowledged
    fn unacked(&self) -> i32 {
        use std::os::fd::AsRawFd;
        let mut v: libc::c_int = 0;
        unsafe {
            libc::ioctl(self.s.as_raw_fd(), libc::TIOCOUTQ, &mut v as *mut libc::c_int);
        }
        v
    }

    /// Wait (real time) until everything this side wrote has been acknowledged by the other side's
    /// kernel (on loopback: sits in its receive queue and is readable), then let the runtime poll
    /// the I/O driver and every ready task so the other side's application consumes it.
    /// Bounded; the case watchdog covers hangs.
    pub async fn settle(&mut self) {
        let t0 = std::time::Instant::now();
        while self.unacked() > 0 && t0.elapsed() < Duration::from_secs(3) {
            std::thread::sleep(Duration::from_micros(50));
        }
        drain().await;
        drain().await;
    }

    /// Play the responder side of the handshake (no deviations). Returns what was seen.
    pub async fn handshake_ok(&mut self, me: &PeerIdentity) -> Result<HandshakeRecord, String> {
        self.handshake_ok_then(me, &[]).await
    }

    /// The same, with `trailer` (distribution frames) written in one piece with the acknowledgement: a peer may start
    /// talking the moment it has acknowledged.
    pub async fn handshake_ok_then(&mut self, me: &PeerIdentity, trailer: &[u8]) -> Result<HandshakeRecord, String> {
        let mut rec = HandshakeRecord::default();
        rec.send_name = self.read_frame(2).await.ok_or("eof before send_name")?;
        if !self.write(&proto::frame2(&proto::status("ok"))).await {
            return Err("write status".into());
        }
        if !self.write(&proto::frame2(&proto::challenge_new(me.flags, me.challenge, me.creation, me.name.as_bytes()))).await {
            return Err("write challenge".into());
        }
        let next = self.read_frame(2).await.ok_or("eof before complement/reply")?;
        let reply = if next.first() == Some(&b'c') {
            rec.complement = next;
            self.read_frame(2).await.ok_or("eof before reply")?
        } else {
            next
        };
        rec.reply = reply.clone();
        let (their_challenge, digest) = proto::parse_reply(&reply)?;
        if digest != handshake_digest(&me.cookie, me.challenge) {
            return Err("initiator's digest is wrong".into());
        }
        let ack = proto::ack(&handshake_digest(&me.cookie, their_challenge));
        let mut last = proto::frame2(&ack);
        last.extend_from_slice(trailer);
        if !self.write(&last).await {
            return Err("write ack".into());
        }
        rec.completed = true;
        Ok(rec)
    }
}

/// (tx_queue, rx_queue) of the TCP socket with the given local and remote ports on 127.0.0.1.
pub fn tcp_queues(local_port: u16, remote_port: u16) -> Option<(u64, u64)> {
    let text = std::fs::read_to_string("/proc/net/tcp").ok()?;
    let want_l = format!(":{:04X}", local_port);
    let want_r = format!(":{:04X}", remote_port);
    for line in text.lines().skip(1) {
        let mut it = line.split_whitespace();
        let (_sl, l, r, _st, q) = (it.next()?, it.next()?, it.next()?, it.next()?, it.next()?);
        if l.ends_with(&want_l) && r.ends_with(&want_r) {
            let (tx, rx) = q.split_once(':')?;
            return Some((u64::from_str_radix(tx, 16).ok()?, u64::from_str_radix(rx, 16).ok()?));
        }
    }
    None
}

/// panics recorded by the global hook since `mark`, whose location lies in the repository's crates
pub fn library_panics_since(mark: usize) -> Vec<String> {
    let me = std::thread::current().id();
    let case_thread = CASE_THREAD.with(|c| c.get());
    let g = crate::engine::GLOBAL_PANICS.lock().unwrap();
    g.iter()
        .skip(mark)
        .filter(|(t, p)| (*t == me || Some(*t) == case_thread) && (p.contains("/repo/crates") || p.contains("crates/ed") || p.contains("crates/erltf")))
        .map(|(_, p)| p.clone())
        .collect()
}

pub fn panic_mark() -> usize {
    crate::engine::GLOBAL_PANICS.lock().unwrap().len()
}

// ---- convenience: a connected Connection / Node against a scripted peer ----------------------------

pub fn default_peer(cookie: &str, flags: u64) -> PeerIdentity {
    PeerIdentity { name: "peer@127.0.0.1".into(), flags, challenge: 0x1234_5678, creation: 0x0A0B_0C0D, cookie: cookie.as_bytes().to_vec() }
}

/// Connection::connect() against a conforming responder. Returns the connected pair.
pub async fn connected_pair(bed: &Bed, our_flags: u64, their_flags: u64, timeout: Duration) -> Result<(edp_client::Connection, PeerConn, HandshakeRecord), String> {
    let listener = bed.listen("peer").await?;
    let cfg = edp_client::ConnectionConfig::new("rust@127.0.0.1", "peer@127.0.0.1", "cookie")
        .with_flags(edp_client::flags::DistributionFlags::new(our_flags))
        .with_epmd_host("127.0.0.1")
        .with_timeout(timeout);
    let mut conn = edp_client::Connection::new(cfg);
    let me = default_peer("cookie", their_flags);
    let peer = async {
        let mut p = listener.accept().await?;
        let rec = p.handshake_ok(&me).await?;
        Ok::<_, String>((p, rec))
    };
    let (r, pr) = tokio::join!(conn.connect(), peer);
    r.map_err(|e| format!("connect failed: {e}"))?;
    let (p, rec) = pr?;
    Ok((conn, p, rec))
}

/// Connection::connect() against a responder that refuses: `how` 0 = status "nok", 1 = everything conforming except an
/// acknowledgement digest computed with another cookie, 2 = the peer closes instead of acknowledging.
/// Returns the Connection (whose connect() failed) and the peer's end of the socket.
pub async fn refused_pair(bed: &Bed, our_flags: u64, how: u8) -> Result<(edp_client::Connection, PeerConn), String> {
    let listener = bed.listen("peer").await?;
    let cfg = edp_client::ConnectionConfig::new("rust@127.0.0.1", "peer@127.0.0.1", "cookie")
        .with_flags(edp_client::flags::DistributionFlags::new(our_flags))
        .with_epmd_host("127.0.0.1")
        .with_timeout(Duration::from_secs(5));
    let mut conn = edp_client::Connection::new(cfg);
    let me = default_peer("cookie", u64::MAX);
    let peer = async {
        let mut p = listener.accept().await?;
        p.read_frame(2).await.ok_or("eof before send_name")?;
        if how == 0 {
            p.write(&proto::frame2(&proto::status("nok"))).await;
            return Ok::<_, String>(p);
        }
        p.write(&proto::frame2(&proto::status("ok"))).await;
        p.write(&proto::frame2(&proto::challenge_new(me.flags, me.challenge, me.creation, me.name.as_bytes()))).await;
        let next = p.read_frame(2).await.ok_or("eof before complement/reply")?;
        let reply = if next.first() == Some(&b'c') { p.read_frame(2).await.ok_or("eof before reply")? } else { next };
        let (their_challenge, _digest) = proto::parse_reply(&reply)?;
        if how == 1 {
            p.write(&proto::frame2(&proto::ack(&handshake_digest(b"another cookie", their_challenge)))).await;
        }
        Ok(p)
    };
    let (r, pr) = tokio::join!(conn.connect(), async {
        let p = peer.await;
        // how == 2: the caller drops nothing yet; the close happens when the PeerConn is dropped by the caller
        p
    });
    if r.is_ok() {
        return Err("harness: connect() succeeded against a refusing responder".into());
    }
    Ok((conn, pr?))
}

/// A started Node connected to a conforming scripted peer named peer@127.0.0.1.
pub async fn node_with_peer(bed: &Bed, their_flags: u64) -> Result<(std::sync::Arc<edp_node::Node>, PeerConn), String> {
    let listener = bed.listen("peer").await?;
    let mut node = edp_node::Node::new("rust@127.0.0.1", "cookie");
    node.start(0).await.map_err(|e| format!("node start: {e}"))?;
    let me = default_peer("cookie", their_flags);
    let peer = async {
        let mut p = listener.accept().await?;
        p.handshake_ok(&me).await?;
        Ok::<_, String>(p)
    };
    let (r, p) = tokio::join!(node.connect("peer@127.0.0.1"), peer);
    r.map_err(|e| format!("node connect failed: {e}"))?;
    Ok((std::sync::Arc::new(node), p?))
}

/// A started Node that is not connected yet (processes can be spawned and registered before the peer appears).
pub async fn started_node() -> Result<std::sync::Arc<edp_node::Node>, String> {
    let mut node = edp_node::Node::new("rust@127.0.0.1", "cookie");
    node.start(0).await.map_err(|e| format!("node start: {e}"))?;
    Ok(std::sync::Arc::new(node))
}

/// Connect a started node to a conforming scripted peer that writes `trailer` together with its acknowledgement.
pub async fn connect_node(bed: &Bed, node: &edp_node::Node, their_flags: u64, trailer: &[u8]) -> Result<PeerConn, String> {
    connect_node_named(bed, node, "peer", their_flags, trailer).await
}

/// The same for a peer called `<short>@127.0.0.1` (several peers of one node).
pub async fn connect_node_named(bed: &Bed, node: &edp_node::Node, short: &str, their_flags: u64, trailer: &[u8]) -> Result<PeerConn, String> {
    let listener = bed.listen(short).await?;
    let mut me = default_peer("cookie", their_flags);
    me.name = format!("{short}@127.0.0.1");
    let full = me.name.clone();
    let peer = async {
        let mut p = listener.accept().await?;
        p.handshake_ok_then(&me, trailer).await?;
        Ok::<_, String>(p)
    };
    let (r, p) = tokio::join!(node.connect(full.as_str()), peer);
    r.map_err(|e| format!("node connect failed: {e}"))?;
    p
}

/// Install a schedule vector as the answer to every asynchronous scheduling point on this thread.
pub fn install_schedule(schedule: Vec<u8>) -> std::rc::Rc<std::cell::Cell<usize>> {
    let cursor = std::rc::Rc::new(std::cell::Cell::new(0usize));
    let switched = std::rc::Rc::new(std::cell::Cell::new(0usize));
    let (c2, s2) = (cursor.clone(), switched.clone());
    edp_client::verif::set_sched_point(Some(std::rc::Rc::new(move |_tag| {
        if schedule.is_empty() {
            return 0;
        }
        let i = c2.get();
        c2.set(i + 1);
        let y = (schedule[i % schedule.len()] % 4) as usize;
        if y > 0 {
            s2.set(s2.get() + 1);
        }
        y
    })));
    switched
}

pub fn clear_schedule() {
    edp_client::verif::set_sched_point(None);
    edp_client::verif::set_hold_point(None);
}

/// Holding points (a task keeps yielding there for as long as the returned flag is set; bounded by a budget of yields).
pub fn install_hold() -> std::rc::Rc<std::cell::Cell<bool>> {
    let flag = std::rc::Rc::new(std::cell::Cell::new(false));
    let budget = std::cell::Cell::new(2_000_000u32);
    let f2 = flag.clone();
    edp_client::verif::set_hold_point(Some(std::rc::Rc::new(move |_tag| {
        if f2.get() && budget.get() > 0 {
            budget.set(budget.get() - 1);
            true
        } else {
            false
        }
    })));
    flag
}

/// Parse one distribution frame in pass-through form: `112 131 Control [131 Payload]`.
pub fn parse_pass_through(frame: &[u8]) -> Result<(refmodel::Value, Option<refmodel::Value>), String> {
    if frame.first() != Some(&112) {
        return Err(format!("first byte {:?}, expected 112", frame.first()));
    }
    if frame.get(1) != Some(&131) {
        return Err(format!("no version byte before the control term: {:?}", frame.get(1)));
    }
    let mut d = refmodel::etf::Dec::new(&frame[2..]);
    let c = d.term().map_err(|e| format!("control term: {e:?}"))?;
    let rest = &frame[2 + d.pos..];
    if rest.is_empty() {
        return Ok((c, None));
    }
    if rest[0] != 131 {
        return Err(format!("byte {} after the control term, expected 131 or end of frame", rest[0]));
    }
    let mut d2 = refmodel::etf::Dec::new(&rest[1..]);
    let p = d2.term().map_err(|e| format!("payload term: {e:?}"))?;
    if d2.pos != rest.len() - 1 {
        return Err(format!("{} bytes after the payload", rest.len() - 1 - d2.pos));
    }
    Ok((c, Some(p)))
}

//! Shared pieces for the node-level checks (C17, C18, C19): recorder processes, inbound frame
//! builders, waiting helpers.

use crate::netbed::drain;
use crate::terms::denote;
use edp_node::{Message, Process};
use erltf::{ExternalPid, OwnedTerm};
use refmodel::etf::refenc_canonical;
use refmodel::proto::frame4;
use refmodel::Value;
use std::sync::{Arc, Mutex};
use std::time::Duration;

#[derive(Clone, Debug, PartialEq)]
pub enum Event {
    Regular(Value),
    Exit { from: Value, reason: Value },
    MonitorExit { monitored: Value, reference: Value, reason: Value },
    Other(String),
}

impl Event {
    /// canonical form (map entries sorted) so that `==` means "same Erlang values"
    pub fn canon(&self) -> Event {
        match self {
            Event::Regular(v) => Event::Regular(v.canon()),
            Event::Exit { from, reason } => Event::Exit { from: from.canon(), reason: reason.canon() },
            Event::MonitorExit { monitored, reference, reason } => Event::MonitorExit { monitored: monitored.canon(), reference: reference.canon(), reason: reason.canon() },
            Event::Other(s) => Event::Other(s.clone()),
        }
    }
}

pub fn canon_log(l: &[Event]) -> Vec<Event> {
    l.iter().map(|e| e.canon()).collect()
}

pub type Log = Arc<Mutex<Vec<Event>>>;

/// A process that records everything handed to its handler; the atom `poison` makes it fail.
pub struct Recorder {
    pub log: Log,
    /// when the atom `hold` arrives the handler waits here until released (a "busy" process)
    pub gate: Option<Arc<tokio::sync::Notify>>,
}

impl Process for Recorder {
    async fn handle_message(&mut self, msg: Message) -> edp_node::Result<()> {
        let ev = match &msg {
            Message::Regular { body, .. } => Event::Regular(denote(body)),
            Message::Exit { from, reason } => Event::Exit { from: crate::terms::denote_pid(from), reason: denote(reason) },
            Message::MonitorExit { monitored, reference, reason } => Event::MonitorExit {
                monitored: crate::terms::denote_pid(monitored),
                reference: denote(&OwnedTerm::Reference(reference.clone())),
                reason: denote(reason),
            },
            other => Event::Other(format!("{:?}", other)),
        };
        let poison = matches!(&ev, Event::Regular(Value::Atom(a)) if a == "poison");
        let hold = matches!(&ev, Event::Regular(Value::Atom(a)) if a == "hold");
        self.log.lock().unwrap().push(ev.canon());
        if hold {
            if let Some(g) = &self.gate {
                g.notified().await;
            }
        }
        if poison {
            return Err(edp_node::Error::InvalidMessage("poisoned".into()));
        }
        Ok(())
    }
}

pub fn new_log() -> Log {
    Arc::new(Mutex::new(vec![]))
}

pub fn pid_value(p: &ExternalPid) -> Value {
    crate::terms::denote_pid(p)
}

/// Wait (letting the runtime run) until `cond` holds; false if it did not within `cap` of real time *and* at least
/// `MIN_WAIT_ROUNDS` rounds of letting every ready task run.  On a starved machine the rounds are slow, so the wait is
/// measured in the progress the single-threaded runtime was given, not in wall-clock time alone.
pub const MIN_WAIT_ROUNDS: usize = 3000;

pub async fn wait_until(cap: Duration, mut cond: impl FnMut() -> bool) -> bool {
    let t0 = std::time::Instant::now();
    let mut rounds = 0usize;
    loop {
        if cond() {
            return true;
        }
        drain().await;
        if cond() {
            return true;
        }
        rounds += 1;
        if t0.elapsed() > cap && rounds >= MIN_WAIT_ROUNDS {
            return false;
        }
        std::thread::sleep(Duration::from_micros(100));
    }
}

/// `Length(4) 112 131 Control [131 Payload]`
pub fn pass_through_frame(control: &Value, payload: Option<&Value>) -> Vec<u8> {
    let mut b = vec![112u8];
    b.extend_from_slice(&refenc_canonical(control));
    if let Some(p) = payload {
        b.extend_from_slice(&refenc_canonical(p));
    }
    frame4(&b)
}

pub fn send_frame(to: &Value, payload: &Value) -> Vec<u8> {
    pass_through_frame(&Value::Tuple(vec![Value::int(2), Value::atom(""), to.clone()]), Some(payload))
}

pub fn reg_send_frame(from: &Value, name: &str, payload: &Value) -> Vec<u8> {
    pass_through_frame(&Value::Tuple(vec![Value::int(6), from.clone(), Value::atom(""), Value::atom(name)]), Some(payload))
}

pub fn remote_pid(k: u32) -> Value {
    Value::Pid { node: "peer@127.0.0.1".into(), id: 100 + k, serial: k, creation: 0x0A0B_0C0D }
}

//! Isolated worker process for C02: runs the decoding entry points on 2 MiB-stack threads under
//! a counting allocator, so that a stack overflow / abort / absurd allocation kills (or is
//! measured in) the worker and not the harness.

use crate::alloc_track;
use std::io::{Read, Write};
use std::process::{Child, ChildStdin, ChildStdout, Command, Stdio};

pub const ENTRY_NAMES: [&str; 9] = [
    "decode",
    "decode_borrowed",
    "decode_with_atom_cache(empty cache)",
    "decode_with_atom_cache(pre-filled cache)",
    "decode_with_trailing",
    "decode_raw_term",
    "decode_with_cache",
    "decode_fragment_header",
    "decode_fragment_cont",
];
pub const N_ENTRIES: usize = ENTRY_NAMES.len();
pub const STACK: usize = 2 * 1024 * 1024;
const REFUSE_ABOVE: usize = 4 << 30;

#[derive(Clone, Debug, Default)]
pub struct EntryResult {
    /// 0 = returned Ok, 1 = returned Err, 2 = panicked, 3 = not run
    pub status: u8,
    pub peak: u64,
    pub max_single: u64,
    pub msg: String,
}

pub fn run_entry(i: usize, data: &[u8]) -> u8 {
    use erltf::decoder;
    match i {
        0 => erltf::decode(data).is_err() as u8,
        1 => erltf::decode_borrowed(data).is_err() as u8,
        2 => {
            let mut c = erltf::AtomCache::new();
            erltf::decode_with_atom_cache(data, &mut c).is_err() as u8
        }
        3 => {
            let mut c = erltf::AtomCache::new();
            for k in 0..=255u8 {
                c.insert(k, erltf::Atom::new(format!("a{k}")));
            }
            erltf::decode_with_atom_cache(data, &mut c).is_err() as u8
        }
        4 => decoder::decode_with_trailing(data).is_err() as u8,
        5 => decoder::decode_raw_term(data).is_err() as u8,
        6 => decoder::decode_with_cache(data).is_err() as u8,
        7 => decoder::decode_fragment_header(data).is_err() as u8,
        _ => decoder::decode_fragment_cont(data).is_err() as u8,
    }
}

/// Worker main loop: request = u32 len, u16 entry mask, bytes; reply = per entry (status, peak, max_single, msg).
pub fn worker_main() -> ! {
    let stdin = std::io::stdin();
    let stdout = std::io::stdout();
    let mut inp = stdin.lock();
    let mut out = stdout.lock();
    loop {
        let mut hdr = [0u8; 6];
        if inp.read_exact(&mut hdr).is_err() {
            std::process::exit(0);
        }
        let len = u32::from_le_bytes([hdr[0], hdr[1], hdr[2], hdr[3]]) as usize;
        let mask = u16::from_le_bytes([hdr[4], hdr[5]]);
        let mut data = vec![0u8; len];
        if inp.read_exact(&mut data).is_err() {
            std::process::exit(0);
        }
        let data = std::sync::Arc::new(data);
        let mut reply: Vec<u8> = vec![];
        for i in 0..N_ENTRIES {
            let mut r = EntryResult { status: 3, ..Default::default() };
            if mask & (1 << i) != 0 {
                let d = data.clone();
                let h = std::thread::Builder::new()
                    .stack_size(STACK)
                    .spawn(move || {
                        alloc_track::start(REFUSE_ABOVE);
                        let res = std::panic::catch_unwind(|| run_entry(i, &d));
                        let st = alloc_track::stop();
                        (res, st)
                    })
                    .expect("spawn");
                match h.join() {
                    Ok((Ok(s), st)) => {
                        r.status = s;
                        r.peak = st.peak as u64;
                        r.max_single = st.max_single as u64;
                    }
                    Ok((Err(_), st)) => {
                        r.status = 2;
                        r.peak = st.peak as u64;
                        r.max_single = st.max_single as u64;
                        r.msg = crate::engine::GLOBAL_PANICS.lock().unwrap().pop().map(|p| p.1).unwrap_or_default();
                    }
                    Err(_) => {
                        r.status = 2;
                        r.msg = "thread join failed".into();
                    }
                }
            }
            reply.push(r.status);
            reply.extend_from_slice(&r.peak.to_le_bytes());
            reply.extend_from_slice(&r.max_single.to_le_bytes());
            let m = r.msg.as_bytes();
            let m = &m[..m.len().min(400)];
            reply.extend_from_slice(&(m.len() as u32).to_le_bytes());
            reply.extend_from_slice(m);
        }
        if out.write_all(&reply).is_err() || out.flush().is_err() {
            std::process::exit(0);
        }
    }
}

pub struct Worker {
    child: Option<(Child, ChildStdin, ChildStdout)>,
    pub respawns: usize,
}

#[derive(Debug, Clone)]
pub struct Death {
    pub how: String,
}

impl Worker {
    pub fn new() -> Worker {
        Worker { child: None, respawns: 0 }
    }

    fn ensure(&mut self) -> Result<(), String> {
        if self.child.is_none() {
            let exe = std::env::current_exe().map_err(|e| e.to_string())?;
            let mut c = Command::new(exe)
                .arg("__worker")
                .stdin(Stdio::piped())
                .stdout(Stdio::piped())
                .stderr(Stdio::null())
                .spawn()
                .map_err(|e| format!("cannot spawn worker: {e}"))?;
            let i = c.stdin.take().unwrap();
            let o = c.stdout.take().unwrap();
            self.child = Some((c, i, o));
            self.respawns += 1;
        }
        Ok(())
    }

    /// Ok(Ok(results)) normal; Ok(Err(death)) the worker died on this input; Err = harness trouble
    pub fn eval(&mut self, data: &[u8], mask: u16) -> Result<Result<Vec<EntryResult>, Death>, String> {
        self.ensure()?;
        let (_, si, so) = self.child.as_mut().unwrap();
        let mut req = (data.len() as u32).to_le_bytes().to_vec();
        req.extend_from_slice(&mask.to_le_bytes());
        let w = si.write_all(&req).and_then(|_| si.write_all(data)).and_then(|_| si.flush());
        let mut results = vec![];
        let mut ok = w.is_ok();
        if ok {
            for _ in 0..N_ENTRIES {
                let mut h = [0u8; 21];
                if so.read_exact(&mut h).is_err() {
                    ok = false;
                    break;
                }
                let mlen = u32::from_le_bytes([h[17], h[18], h[19], h[20]]) as usize;
                let mut m = vec![0u8; mlen];
                if so.read_exact(&mut m).is_err() {
                    ok = false;
                    break;
                }
                results.push(EntryResult {
                    status: h[0],
                    peak: u64::from_le_bytes(h[1..9].try_into().unwrap()),
                    max_single: u64::from_le_bytes(h[9..17].try_into().unwrap()),
                    msg: String::from_utf8_lossy(&m).to_string(),
                });
            }
        }
        if ok {
            return Ok(Ok(results));
        }
        // the worker died: find out how
        let (mut c, si, so) = self.child.take().unwrap();
        drop(si);
        drop(so);
        let how = match c.wait() {
            Ok(st) => {
                use std::os::unix::process::ExitStatusExt;
                match st.signal() {
                    Some(11) => "killed by SIGSEGV (stack overflow)".to_string(),
                    Some(6) => "killed by SIGABRT (abort: allocation failure or stack overflow handler)".to_string(),
                    Some(7) => "killed by SIGBUS".to_string(),
                    Some(s) => format!("killed by signal {s}"),
                    None => format!("exited with {:?}", st.code()),
                }
            }
            Err(e) => format!("wait failed: {e}"),
        };
        Ok(Err(Death { how }))
    }

    /// After a death: which entry points die on this input (each tried in a fresh worker)?
    pub fn dying_entries(&mut self, data: &[u8]) -> Vec<(usize, String)> {
        let mut out = vec![];
        for i in 0..N_ENTRIES {
            if let Ok(Err(d)) = self.eval(data, 1 << i) {
                out.push((i, d.how));
            }
        }
        out
    }
}

impl Drop for Worker {
    fn drop(&mut self) {
        if let Some((mut c, si, so)) = self.child.take() {
            drop(si);
            drop(so);
            let _ = c.kill();
            let _ = c.wait();
        }
    }
}

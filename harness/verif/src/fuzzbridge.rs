//! Bridge between coverage-guided byte fuzzing (cargo-fuzz / libFuzzer, `../fuzz`) and the deterministic oracles.
//!
//! One libFuzzer binary (`fz`) serves every target; the target is chosen by the environment variable
//! `VERIF_FUZZ_TARGET`.  A target is a total function from bytes to a `Verdict`: either the bytes are the input
//! itself (`decode`, `disthdr`) or they are mapped onto the `Case` type of a proptest campaign by `fuzzde` and then
//! clamped into the domain that campaign's generator produces (`*_fix`), so the fuzzer mutates cases, not syntax.
//! The semantic oracle runs inside the target; a verdict that is not a listed known finding aborts the process, which
//! libFuzzer records as a crash artifact.  `campaign()` (thorough tiers) seeds a fresh corpus from the proptest
//! generators, builds and runs the fuzzer for a fixed number of executions, and re-evaluates any artifact in-process
//! through the same oracle: only then does it become a VIOLATION with a replay file.

use crate::alloc_track;
use crate::engine::{fp, guarded, sample_strategy, CaseInfo, Run, Verdict};
use crate::fuzzde::{from_bytes, to_bytes};
use crate::gen::{sanitize, GenCfg};
use crate::isolate::{run_entry, ENTRY_NAMES, N_ENTRIES};
use crate::props::{c01, c03, c05, c08, c09, c10, c12, c13, c14, c20};
use crate::terms::{denote, hex};
use refmodel::dist::{read_dist_message, PeerCache};
use refmodel::etf::Dec;
use refmodel::Value;
use serde::{Deserialize, Serialize};
use std::collections::{BTreeMap, HashSet};
use std::io::Read;
use std::sync::Mutex;

/// parallel libFuzzer processes per campaign
pub const JOBS: u64 = 8;

pub struct Target {
    pub name: &'static str,
    pub eval: fn(&[u8]) -> Verdict,
    pub seeds: fn([u8; 32], usize) -> Vec<Vec<u8>>,
    pub max_len: usize,
}

pub fn targets() -> Vec<Target> {
    vec![
        Target { name: "decode", eval: eval_decode, seeds: seeds_decode, max_len: 4096 },
        Target { name: "disthdr", eval: eval_disthdr, seeds: seeds_disthdr, max_len: 4096 },
        Target { name: "c01", eval: eval_c01, seeds: seeds_c01, max_len: 2048 },
        Target { name: "c03", eval: eval_c03, seeds: seeds_c03, max_len: 2048 },
        Target { name: "c05", eval: eval_c05, seeds: seeds_c05, max_len: 256 },
        Target { name: "c08", eval: eval_c08, seeds: seeds_c08, max_len: 1024 },
        Target { name: "c09", eval: eval_c09, seeds: seeds_c09, max_len: 2048 },
        Target { name: "c13", eval: eval_c13, seeds: seeds_c13, max_len: 2048 },
        Target { name: "c14seq", eval: eval_c14seq, seeds: seeds_c14seq, max_len: 2048 },
        Target { name: "c10", eval: eval_c10, seeds: seeds_c10, max_len: 2048 },
        Target { name: "c10id", eval: eval_c10id, seeds: seeds_c10id, max_len: 512 },
        Target { name: "c12", eval: eval_c12, seeds: seeds_c12, max_len: 2048 },
        Target { name: "c20range", eval: eval_c20range, seeds: seeds_c20range, max_len: 256 },
        Target { name: "c20terms", eval: eval_c20terms, seeds: seeds_c20terms, max_len: 2048 },
    ]
}

pub fn find(name: &str) -> Option<Target> {
    targets().into_iter().find(|t| t.name == name)
}

fn trivial() -> Verdict {
    Verdict::Pass(CaseInfo::trivial())
}

/// a value is compared with the independent reader's only when it lies in the well-formed term space
fn well_formed(v: &Value) -> bool {
    sanitize(v, 0) == *v
}

// ---- raw-byte targets ------------------------------------------------------------------------------------

/// bytes a well-formed top-level COMPRESSED term legitimately inflates to (0 for anything else)
fn legit_inflate_budget(data: &[u8]) -> usize {
    let mut total = 0usize;
    let mut cur: Vec<u8> = data.to_vec();
    let mut skip = 1usize; // version byte
    for _ in 0..4 {
        if cur.len() < skip + 5 || cur[skip] != 80 {
            break;
        }
        let declared = u32::from_be_bytes([cur[skip + 1], cur[skip + 2], cur[skip + 3], cur[skip + 4]]) as usize;
        let mut out = vec![];
        let mut z = flate2::read::ZlibDecoder::new(&cur[skip + 5..]).take(declared.min(64 << 20) as u64 + 1);
        if z.read_to_end(&mut out).is_err() {
            // a truncated / corrupt stream: what came out before the error was inflated legitimately
        }
        total += out.len().min(declared);
        cur = out;
        skip = 0;
    }
    total
}

pub fn eval_decode(data: &[u8]) -> Verdict {
    // (1) C02: every decoding entry point returns, without a panic and without memory out of proportion
    let bound = (1usize << 20) + 256 * (data.len() + legit_inflate_budget(data));
    for i in 0..N_ENTRIES {
        alloc_track::start(4 << 30);
        let r = std::panic::catch_unwind(|| run_entry(i, data));
        let st = alloc_track::stop();
        if r.is_err() {
            return Verdict::Fail { signature: "panic".into(), detail: format!("{} panicked on {} bytes: {}", ENTRY_NAMES[i], data.len(), hex(&data[..data.len().min(200)])) };
        }
        if st.peak > bound {
            return Verdict::Fail {
                signature: "allocation-out-of-proportion".into(),
                detail: format!("{} requested a peak of {} bytes (largest single request {}) for {} input bytes; bound {}; input {}", ENTRY_NAMES[i], st.peak, st.max_single, data.len(), bound, hex(&data[..data.len().min(200)])),
            };
        }
    }
    // (2) C13: zero-copy vs owned decoder
    let info = match c13::oracle(&c13::Case::Raw(data.to_vec())) {
        Verdict::Pass(i) => i,
        other => return other,
    };
    // (3) C03: when the library and the independent reader both accept, they read the same value
    if data.first() == Some(&131) {
        if let Ok(t) = erltf::decode(data) {
            let mut d = Dec::new(&data[1..]);
            d.max_depth = 300;
            if let Ok(v) = d.term() {
                if d.pos == data.len() - 1 && well_formed(&v) && !denote(&t).same(&v) {
                    return Verdict::Fail {
                        signature: "decoded-value-differs-from-independent-reader".into(),
                        detail: format!("library reads {} , independent reader {} ; bytes {}", denote(&t).render(), v.render(), hex(&data[..data.len().min(300)])),
                    };
                }
            }
        }
    }
    Verdict::Pass(info)
}

fn seeds_decode(seed: [u8; 32], n: usize) -> Vec<Vec<u8>> {
    sample_strategy(&c13::strategy(), seed, n).iter().map(c13::bytes_of).filter(|b| b.len() <= 4096).collect()
}

pub fn eval_disthdr(data: &[u8]) -> Verdict {
    let mut caches = [erltf::AtomCache::new(), erltf::AtomCache::new()];
    for k in 0..=255u8 {
        caches[1].insert(k, erltf::Atom::new(format!("a{k}")));
    }
    let mut first = None;
    for (ci, cache) in caches.iter_mut().enumerate() {
        let r = std::panic::catch_unwind(std::panic::AssertUnwindSafe(|| erltf::decode_with_atom_cache(data, cache)));
        match r {
            Err(_) => return Verdict::Fail { signature: "panic".into(), detail: format!("decode_with_atom_cache panicked on {}", hex(&data[..data.len().min(200)])) },
            Ok(r) if ci == 0 => first = Some(r),
            Ok(_) => {}
        }
    }
    let mut pc = PeerCache::default();
    let mut info = CaseInfo::trivial();
    if let (Some(Ok((c, p))), Ok(m)) = (first, read_dist_message(data, &mut pc)) {
        if well_formed(&m.control) && m.payload.as_ref().map_or(true, well_formed) {
            let same = denote(&c).same(&m.control)
                && match (p.as_ref().map(denote), &m.payload) {
                    (None, None) => true,
                    (Some(a), Some(b)) => a.same(b),
                    _ => false,
                };
            if !same {
                return Verdict::Fail {
                    signature: "header-message-differs-from-independent-reader".into(),
                    detail: format!(
                        "library reads control {} payload {:?}; independent reader control {} payload {:?}; bytes {}",
                        denote(&c).render(),
                        p.as_ref().map(|x| denote(x).render()),
                        m.control.render(),
                        m.payload.as_ref().map(|x| x.render()),
                        hex(&data[..data.len().min(300)])
                    ),
                };
            }
            info = CaseInfo::nt(fp(data)).class("both-readers-accept");
        }
    }
    Verdict::Pass(info)
}

fn seeds_disthdr(seed: [u8; 32], n: usize) -> Vec<Vec<u8>> {
    let mut out = vec![vec![131u8, 68, 0, 104, 1, 97, 5]];
    for c in sample_strategy(&c14::seq_strategy(), seed, n) {
        let mut sc = refmodel::dist::SenderCache::default();
        let mut k = 0u16;
        for (cv, pv) in c.msgs.iter().take(2) {
            let mut slot_of = |_a: &str| {
                k = k.wrapping_add(263);
                Some(k % 2048)
            };
            let (b, _) = refmodel::dist::sender_encode(cv, pv.as_ref(), &mut sc, &mut slot_of, &mut refmodel::etf::Canonical);
            // only first messages are self-contained (later ones refer to cache entries of earlier ones)
            if out.len() < n + 1 && b.len() <= 4096 {
                out.push(b);
            }
            break;
        }
    }
    out
}

// ---- structured targets: bytes -> Case (fuzzde) -> clamp into the generator's domain -> the campaign's oracle -------------

fn ser<T: Serialize>(cases: Vec<T>, max_len: usize) -> Vec<Vec<u8>> {
    cases.iter().filter_map(to_bytes).filter(|b| b.len() <= max_len).collect()
}

pub fn c01_fix(mut c: c01::Case) -> c01::Case {
    c.value = sanitize(&c.value, 0);
    c.repr.truncate(64);
    c
}
fn eval_c01(data: &[u8]) -> Verdict {
    from_bytes::<c01::Case>(data).map_or_else(trivial, |c| c01::roundtrip(&c01_fix(c)))
}
fn seeds_c01(seed: [u8; 32], n: usize) -> Vec<Vec<u8>> {
    ser(sample_strategy(&c01::case_strategy(GenCfg::light()), seed, n), 2048)
}

pub fn c03_fix(mut c: c03::Case) -> c03::Case {
    c.value = sanitize(&c.value, 0);
    c.choices.truncate(64);
    c.compress %= 3;
    c.junk.truncate(8);
    c
}
fn eval_c03(data: &[u8]) -> Verdict {
    from_bytes::<c03::Case>(data).map_or_else(trivial, |c| c03::oracle(&c03_fix(c)))
}
fn seeds_c03(seed: [u8; 32], n: usize) -> Vec<Vec<u8>> {
    ser(sample_strategy(&c03::strategy(GenCfg::light()), seed, n), 2048)
}

pub fn c05_fix(mut c: c05::Case) -> c05::Case {
    c.msg_lens.truncate(8);
    for l in c.msg_lens.iter_mut() {
        *l %= 70_000;
    }
    c.chunks.truncate(12);
    c.pending.truncate(6);
    c.tail_declared = c.tail_declared.map(|d| if d as usize > c05::CAP || (1..300).contains(&d) { d } else { d % 299 + 1 });
    c.tail_body %= 9;
    c
}
fn eval_c05(data: &[u8]) -> Verdict {
    from_bytes::<c05::Case>(data).map_or_else(trivial, |c| c05::oracle(&c05_fix(c)))
}
fn seeds_c05(seed: [u8; 32], n: usize) -> Vec<Vec<u8>> {
    ser(sample_strategy(&c05::strategy(), seed, n), 256)
}

pub fn c08_fix(mut c: c08::TupleCase) -> c08::TupleCase {
    c.term = sanitize(&c.term, 0);
    if let Value::Tuple(e) = &mut c.term {
        e.truncate(12);
    }
    c.repr.truncate(12);
    c
}
fn eval_c08(data: &[u8]) -> Verdict {
    from_bytes::<c08::TupleCase>(data).map_or_else(trivial, |c| c08::grid_oracle(&c08_fix(c)))
}
fn seeds_c08(seed: [u8; 32], n: usize) -> Vec<Vec<u8>> {
    ser(sample_strategy(&c08::grid_strategy(), seed, n), 1024)
}

pub fn c09_fix(mut c: c09::Case) -> Option<c09::Case> {
    c.seqs.truncate(4);
    if c.seqs.is_empty() {
        return None;
    }
    for s in c.seqs.iter_mut() {
        s.frags.truncate(64);
        if s.frags.is_empty() {
            s.frags.push(vec![1]);
        }
        for f in s.frags.iter_mut() {
            f.truncate(4);
        }
        if let Some(cache) = s.cache.as_mut() {
            cache.truncate(4);
        }
    }
    for i in 0..c.seqs.len() {
        for j in 0..i {
            if c.seqs[i].seq_id == c.seqs[j].seq_id {
                c.seqs[i].seq_id = c.seqs[i].seq_id.wrapping_add(1 + i as u64 * 1000);
            }
        }
    }
    c.events.truncate(300);
    let ns = c.seqs.len();
    for e in c.events.iter_mut() {
        match e {
            c09::Ev::Frag { seq, idx } => {
                *seq %= ns;
                *idx %= c.seqs[*seq].frags.len();
            }
            c09::Ev::Bogus { seq, id, len } => {
                *seq %= ns;
                let n = c.seqs[*seq].frags.len() as u64;
                if *id >= 1 && *id <= n {
                    *id += n;
                }
                *len %= 5;
            }
        }
    }
    Some(c)
}
fn eval_c09(data: &[u8]) -> Verdict {
    from_bytes::<c09::Case>(data).and_then(c09_fix).map_or_else(trivial, |c| c09::oracle(&c))
}
fn seeds_c09(seed: [u8; 32], n: usize) -> Vec<Vec<u8>> {
    ser(sample_strategy(&c09::random_case(), seed, n), 2048)
}

pub fn c13_fix(c: c13::Case) -> c13::Case {
    match c {
        c13::Case::Raw(b) => c13::Case::Raw(b),
        c13::Case::Encoded { value, mut choices, legacy, other, mutation } => {
            choices.truncate(64);
            c13::Case::Encoded { value: sanitize(&value, 0), choices, legacy, other: sanitize(&other, 0), mutation }
        }
    }
}
fn eval_c13(data: &[u8]) -> Verdict {
    from_bytes::<c13::Case>(data).map_or_else(trivial, |c| c13::oracle(&c13_fix(c)))
}
fn seeds_c13(seed: [u8; 32], n: usize) -> Vec<Vec<u8>> {
    ser(sample_strategy(&c13::strategy(), seed, n), 2048)
}

pub fn c14seq_fix(mut c: c14::SeqCase) -> c14::SeqCase {
    c.msgs.truncate(20);
    for (cv, pv) in c.msgs.iter_mut() {
        *cv = sanitize(cv, 0);
        if let Some(p) = pv {
            *p = sanitize(p, 0);
        }
    }
    c.slots.truncate(200);
    c.policy %= 4;
    c
}
fn eval_c14seq(data: &[u8]) -> Verdict {
    from_bytes::<c14::SeqCase>(data).map_or_else(trivial, |c| c14::seq_oracle(&c14seq_fix(c)))
}
fn seeds_c14seq(seed: [u8; 32], n: usize) -> Vec<Vec<u8>> {
    ser(sample_strategy(&c14::seq_strategy(), seed, n), 2048)
}

pub fn c10_fix(mut c: c10::Case) -> c10::Case {
    c.value = sanitize(&c.value, 0);
    c.choices.truncate(64);
    c.steps.truncate(6);
    c
}
fn eval_c10(data: &[u8]) -> Verdict {
    from_bytes::<c10::Case>(data).map_or_else(trivial, |c| c10::oracle(&c10_fix(c)))
}
fn seeds_c10(seed: [u8; 32], n: usize) -> Vec<Vec<u8>> {
    ser(sample_strategy(&c10::strategy(), seed, n), 2048)
}

pub fn c10id_fix(mut c: c10::IdCase) -> c10::IdCase {
    c.id = match sanitize(&c.id, 0) {
        v @ (Value::Pid { .. } | Value::Port { .. } | Value::Ref { .. }) => v,
        _ => Value::Pid { node: "n@h".into(), id: 1, serial: 2, creation: 3 },
    };
    c.tweak.truncate(16);
    c
}
fn eval_c10id(data: &[u8]) -> Verdict {
    from_bytes::<c10::IdCase>(data).map_or_else(trivial, |c| c10::id_oracle(&c10id_fix(c)))
}
fn seeds_c10id(seed: [u8; 32], n: usize) -> Vec<Vec<u8>> {
    ser(sample_strategy(&c10::id_strategy(), seed, n), 512)
}

pub fn c12_fix(mut p: c12::Pair) -> c12::Pair {
    p.a.value = sanitize(&p.a.value, 0);
    p.b.value = sanitize(&p.b.value, 0);
    p.a.repr.truncate(16);
    p.b.repr.truncate(16);
    p
}
fn eval_c12(data: &[u8]) -> Verdict {
    from_bytes::<c12::Pair>(data).map_or_else(trivial, |p| c12::pair_oracle(&c12_fix(p)))
}
fn seeds_c12(seed: [u8; 32], n: usize) -> Vec<Vec<u8>> {
    ser(sample_strategy(&c12::random_pair(), seed, n), 2048)
}

fn eval_c20range(data: &[u8]) -> Verdict {
    from_bytes::<c20::RangeCase>(data).map_or_else(trivial, |mut c| {
        c.probes.truncate(16);
        c20::range_oracle(&c)
    })
}
fn seeds_c20range(seed: [u8; 32], n: usize) -> Vec<Vec<u8>> {
    ser(sample_strategy(&c20::range_strategy(), seed, n), 256)
}

pub fn c20terms_fix(mut c: c20::TermsCase) -> c20::TermsCase {
    c.values.truncate(6);
    let vals: Vec<Value> = c.values.iter().map(|v| sanitize(v, 0)).collect();
    c.values = crate::gen::dedupe_map(vals.into_iter().map(|v| (v, Value::int(0))).collect(), false).into_iter().map(|(k, _)| k).collect();
    c.strings.truncate(6);
    c.repr.truncate(16);
    c
}
fn eval_c20terms(data: &[u8]) -> Verdict {
    from_bytes::<c20::TermsCase>(data).map_or_else(trivial, |c| c20::terms_oracle(&c20terms_fix(c)))
}
fn seeds_c20terms(seed: [u8; 32], n: usize) -> Vec<Vec<u8>> {
    ser(sample_strategy(&c20::terms_strategy(), seed, n), 2048)
}

// ---- inside the fuzzer process -------------------------------------------------------------------------------

#[derive(Default, Serialize, Deserialize)]
pub struct FuzzStats {
    pub evaluations: u64,
    pub nontrivial: Vec<u64>,
    pub classes: BTreeMap<String, u64>,
    pub known_hits: BTreeMap<String, u64>,
}

struct FuzzState {
    target: Target,
    known: Vec<String>,
    stats_path: Option<String>,
    evaluations: u64,
    nontrivial: HashSet<u64>,
    classes: BTreeMap<String, u64>,
    known_hits: BTreeMap<String, u64>,
}

static STATE: Mutex<Option<FuzzState>> = Mutex::new(None);

fn known_signatures() -> Vec<String> {
    #[derive(Deserialize)]
    struct K {
        signature: String,
        status: String,
    }
    #[derive(Deserialize)]
    struct F {
        findings: Vec<K>,
    }
    std::fs::read_to_string(format!("{}/known_findings.json", crate::engine::verif_root()))
        .ok()
        .and_then(|s| serde_json::from_str::<F>(&s).ok())
        .map(|f| f.findings.into_iter().filter(|k| k.status == "open").map(|k| k.signature).collect())
        .unwrap_or_default()
}

extern "C" fn dump_stats() {
    if let Ok(g) = STATE.lock() {
        if let Some(s) = g.as_ref() {
            if let Some(p) = &s.stats_path {
                let st = FuzzStats { evaluations: s.evaluations, nontrivial: s.nontrivial.iter().copied().take(500_000).collect(), classes: s.classes.clone(), known_hits: s.known_hits.clone() };
                let _ = std::fs::write(format!("{p}{}.json", std::process::id()), serde_json::to_string(&st).unwrap_or_default());
            }
        }
    }
}

/// The libFuzzer entry point (see ../fuzz/fuzz_targets/fz.rs).
pub fn entry(data: &[u8]) {
    let mut g = STATE.lock().unwrap();
    if g.is_none() {
        let name = std::env::var("VERIF_FUZZ_TARGET").unwrap_or_else(|_| "decode".into());
        let target = find(&name).unwrap_or_else(|| {
            eprintln!("unknown VERIF_FUZZ_TARGET {name}");
            std::process::exit(2)
        });
        // libfuzzer-sys aborts on every panic; the oracles catch library panics themselves and report them as verdicts
        crate::engine::install_panic_hook();
        *g = Some(FuzzState {
            target,
            known: known_signatures(),
            stats_path: std::env::var("VERIF_FUZZ_STATS").ok(),
            evaluations: 0,
            nontrivial: HashSet::new(),
            classes: BTreeMap::new(),
            known_hits: BTreeMap::new(),
        });
        unsafe {
            libc::atexit(dump_stats);
        }
    }
    let s = g.as_mut().unwrap();
    let eval = s.target.eval;
    let verdict = guarded(|| eval(data));
    s.evaluations += 1;
    match verdict {
        Verdict::Pass(info) => {
            for c in &info.classes {
                *s.classes.entry((*c).to_string()).or_insert(0) += 1;
            }
            if let Some(f) = info.nontrivial {
                if s.nontrivial.len() < 500_000 {
                    s.nontrivial.insert(f);
                }
            }
        }
        Verdict::Fail { signature, detail } | Verdict::Known { signature, detail, .. } => {
            if s.known.iter().any(|k| *k == signature) || signature.starts_with("harness:") {
                *s.known_hits.entry(signature).or_insert(0) += 1;
            } else {
                eprintln!("FUZZ-VIOLATION target={} signature={} detail={}", s.target.name, signature, crate::engine::truncate(&detail, 2000));
                drop(g);
                dump_stats();
                std::process::abort();
            }
        }
    }
}

// ---- the campaign driver (thorough tiers) ----------------------------------------------------------------------

#[derive(Debug, Clone, Serialize, Deserialize)]
pub struct FuzzInput {
    pub target: String,
    pub hex: String,
}

pub fn unhex(s: &str) -> Vec<u8> {
    (0..s.len() / 2).filter_map(|i| u8::from_str_radix(&s[2 * i..2 * i + 2], 16).ok()).collect()
}

/// deterministic re-evaluation of a saved fuzz input (replay files, artifacts)
pub fn eval_input(i: &FuzzInput) -> Verdict {
    match find(&i.target) {
        Some(t) => guarded(|| (t.eval)(&unhex(&i.hex))),
        None => Verdict::Fail { signature: "harness:unknown-fuzz-target".into(), detail: i.target.clone() },
    }
}

fn hexs(b: &[u8]) -> String {
    b.iter().map(|x| format!("{x:02x}")).collect()
}

/// Build and run the libFuzzer binary for `target` for `runs` executions from a fresh corpus seeded with `n_seeds`
/// generated cases; any crash artifact is re-evaluated in-process and reported through `run`.
pub fn campaign(run: &mut Run, target: &str, runs: u64, n_seeds: usize) {
    let t0 = std::time::Instant::now();
    let name = format!("fuzz:{target}");
    let Some(t) = find(target) else {
        run.inconclusive.push(format!("{name}: unknown target"));
        return;
    };
    let root = run.verif_root.clone();
    let fuzz_dir = format!("{root}/harness/fuzz");
    let tag = format!("{}-{}-{}", run.id, target, run.seed);
    let corpus = format!("{fuzz_dir}/corpus/{tag}");
    let artifacts = format!("{fuzz_dir}/artifacts/{tag}");
    // each fuzzer process appends its pid
    let stats_path = format!("{fuzz_dir}/artifacts/{tag}.stats.");
    let _ = std::fs::remove_dir_all(&corpus);
    let _ = std::fs::remove_dir_all(&artifacts);
    if std::fs::create_dir_all(&corpus).is_err() || std::fs::create_dir_all(&artifacts).is_err() {
        run.inconclusive.push(format!("{name}: cannot create {corpus}"));
        return;
    }
    let seeds = (t.seeds)(run.seed_for(&name), n_seeds);
    for (i, s) in seeds.iter().enumerate() {
        let _ = std::fs::write(format!("{corpus}/seed-{i:05}"), s);
    }
    let env = |c: &mut std::process::Command| {
        c.current_dir(format!("{root}/harness/verif"))
            .env("RUSTFLAGS", "--cfg edp_rs_verif")
            .env("CARGO_NET_OFFLINE", "true")
            .env("VERIF_ROOT", &root)
            .env("VERIF_FUZZ_TARGET", target)
            .env("VERIF_FUZZ_STATS", &stats_path);
    };
    let mut build = std::process::Command::new("cargo");
    build.args(["+nightly", "fuzz", "build", "--fuzz-dir", &fuzz_dir, "fz"]);
    env(&mut build);
    match build.output() {
        Ok(o) if o.status.success() => {}
        Ok(o) => {
            let e = String::from_utf8_lossy(&o.stderr);
            let tail: Vec<&str> = e.lines().filter(|l| l.starts_with("error")).take(5).collect();
            run.inconclusive.push(format!("{name}: fuzz build failed: {}", tail.join(" | ")));
            return;
        }
        Err(e) => {
            run.inconclusive.push(format!("{name}: cannot run cargo fuzz: {e}"));
            return;
        }
    }
    let seed32 = u64::from_le_bytes(run.seed_for(&name)[..8].try_into().unwrap()) % 0x7fff_0000 + 1;
    // run the built binary directly, as JOBS parallel libFuzzer processes with their own seeds, sharing the corpus
    // directory (each does runs / JOBS executions; libFuzzer's own -jobs would hand every worker the same seed)
    let bin = format!("{root}/harness/target/x86_64-unknown-linux-gnu/release/fz");
    let mut children = vec![];
    for k in 0..JOBS {
        let mut cmd = std::process::Command::new(&bin);
        cmd.arg(&corpus);
        cmd.args([
            format!("-runs={}", (runs / JOBS).max(1)),
            format!("-seed={}", seed32 + k),
            format!("-max_len={}", t.max_len),
            "-len_control=0".to_string(),
            "-reload=1".to_string(),
            format!("-artifact_prefix={artifacts}/"),
            "-print_final_stats=1".to_string(),
            "-timeout=120".to_string(),
            "-rss_limit_mb=6144".to_string(),
        ]);
        env(&mut cmd);
        cmd.current_dir(&artifacts);
        let logf = match std::fs::File::create(format!("{artifacts}/fuzz-{k}.log")) {
            Ok(f) => f,
            Err(e) => {
                run.inconclusive.push(format!("{name}: cannot create a log file: {e}"));
                return;
            }
        };
        cmd.stdout(std::process::Stdio::null()).stderr(logf);
        match cmd.spawn() {
            Ok(c) => children.push(c),
            Err(e) => {
                run.inconclusive.push(format!("{name}: cannot run the fuzzer {bin}: {e}"));
                return;
            }
        }
    }
    let mut all_ok = true;
    for mut c in children {
        all_ok &= c.wait().map(|s| s.success()).unwrap_or(false);
    }
    struct Out {
        ok: bool,
    }
    impl Out {
        fn success(&self) -> bool {
            self.ok
        }
        fn code(&self) -> Option<i32> {
            None
        }
    }
    struct OutW {
        status: Out,
        stderr: Vec<u8>,
    }
    let out = OutW { status: Out { ok: all_ok }, stderr: vec![] };
    let mut log = String::from_utf8_lossy(&out.stderr).to_string();
    let mut executed_total = 0u64;
    let (mut cov, mut ft, mut corp) = (0u64, 0u64, 0u64);
    for k in 0..JOBS {
        if let Ok(l) = std::fs::read_to_string(format!("{artifacts}/fuzz-{k}.log")) {
            let stat = |key: &str| -> Option<u64> { l.lines().rev().find(|x| x.contains(key)).and_then(|x| x.rsplit(':').next()).and_then(|v| v.trim().parse().ok()) };
            executed_total += stat("stat::number_of_executed_units").unwrap_or(0);
            if let Some(cl) = l.lines().rev().find(|x| x.contains(" cov: ")) {
                let field = |kk: &str| -> u64 { cl.split_whitespace().skip_while(|w| *w != kk).nth(1).and_then(|v| v.split('/').next().and_then(|x| x.parse().ok())).unwrap_or(0) };
                cov = cov.max(field("cov:"));
                ft = ft.max(field("ft:"));
                corp = corp.max(field("corp:"));
            }
            if l.contains("FUZZ-VIOLATION") || l.contains("ERROR:") {
                log.push_str(&l.lines().filter(|x| x.contains("FUZZ-VIOLATION") || x.contains("ERROR:")).take(4).collect::<Vec<_>>().join("\n"));
            }
        }
    }
    let executed = Some(executed_total);
    let field = |k: &str| -> Option<u64> {
        match k {
            "cov:" => Some(cov),
            "ft:" => Some(ft),
            _ => Some(corp),
        }
    };
    // statistics of the oracle inside the fuzzer
    let mut fstats = FuzzStats::default();
    if let Ok(rd) = std::fs::read_dir(format!("{fuzz_dir}/artifacts")) {
        for e in rd.filter_map(|e| e.ok()) {
            let p = e.path();
            let n = p.file_name().and_then(|s| s.to_str()).unwrap_or("").to_string();
            if n.starts_with(&format!("{tag}.stats.")) {
                if let Some(st) = std::fs::read_to_string(&p).ok().and_then(|s| serde_json::from_str::<FuzzStats>(&s).ok()) {
                    fstats.evaluations += st.evaluations;
                    fstats.nontrivial.extend(st.nontrivial);
                    for (c, k) in st.classes {
                        *fstats.classes.entry(c).or_insert(0) += k;
                    }
                    for (c, k) in st.known_hits {
                        *fstats.known_hits.entry(c).or_insert(0) += k;
                    }
                }
                let _ = std::fs::remove_file(&p);
            }
        }
    }
    let before_nt = run.stats.nontrivial.len();
    run.stats.evaluations += fstats.evaluations;
    for f in &fstats.nontrivial {
        run.stats.nontrivial.insert(*f);
    }
    for (c, n) in &fstats.classes {
        *run.stats.classes.entry(format!("fuzz:{c}")).or_insert(0) += n;
    }
    for (sig, n) in &fstats.known_hits {
        if !sig.starts_with("harness:") {
            let e = run.stats.known_hits.entry(sig.clone()).or_insert((0, format!("fuzz target {target}")));
            e.0 += n;
        }
    }
    // artifacts
    let mut reported = false;
    let mut arts: Vec<std::path::PathBuf> = std::fs::read_dir(&artifacts).map(|rd| rd.filter_map(|e| e.ok()).map(|e| e.path()).collect()).unwrap_or_default();
    arts.sort();
    for a in &arts {
        let fname = a.file_name().and_then(|s| s.to_str()).unwrap_or("").to_string();
        let Ok(bytes) = std::fs::read(a) else { continue };
        let input = FuzzInput { target: target.to_string(), hex: hexs(&bytes) };
        if fname.starts_with("crash-") {
            match eval_input(&input) {
                Verdict::Pass(_) => {
                    // not reproducible in-process through the oracle: a process-level death (stack overflow, refused allocation)
                    let verdict = if target == "decode" {
                        crate::props::c02::oracle(&crate::props::c02::Case::Raw(bytes.clone()))
                    } else {
                        Verdict::Pass(CaseInfo::trivial())
                    };
                    match verdict {
                        Verdict::Pass(_) => run.inconclusive.push(format!("{name}: artifact {} does not reproduce through the deterministic oracle", a.display())),
                        v => {
                            run.custom(&name, &input, v);
                            reported = true;
                        }
                    }
                }
                v => {
                    run.custom(&name, &input, v);
                    reported = true;
                }
            }
        } else if fname.starts_with("oom-") || fname.starts_with("timeout-") || fname.starts_with("leak-") {
            // a resource limit of the fuzzer process (time per input, resident memory), possibly the machine's doing: the
            // input is put through the deterministic oracle on a thread of its own with a generous real-time allowance;
            // only what that oracle says counts
            let (tx, rx) = std::sync::mpsc::channel();
            let inp = input.clone();
            let _ = std::thread::Builder::new().stack_size(64 << 20).spawn(move || {
                let _ = tx.send(eval_input(&inp));
            });
            match rx.recv_timeout(std::time::Duration::from_secs(600)) {
                Ok(Verdict::Pass(_)) => crate::engine::SOFT_NOTES.lock().unwrap().push(format!("{name}: libFuzzer reported {fname}; the input passes the deterministic oracle")),
                Ok(v) => {
                    run.custom(&name, &input, v);
                    reported = true;
                }
                Err(_) => {
                    run.custom(&name, &input, Verdict::Fail { signature: "oracle-does-not-return".into(), detail: format!("the input of {fname} did not come back from the oracle within 600 s") });
                    reported = true;
                }
            }
        }
    }
    if !out.status.success() && !arts.iter().any(|a| a.file_name().and_then(|s| s.to_str()).map_or(false, |n| !n.starts_with("fuzz-") && !n.starts_with("slow-unit-"))) && !reported {
        let tail: Vec<&str> = log.lines().rev().take(6).collect();
        run.inconclusive.push(format!("{name}: fuzzer exited with {:?} without an artifact: {}", out.status.code(), tail.join(" | ")));
    }
    run.note_campaign(serde_json::json!({
        "name": name, "kind": "libfuzzer (cargo-fuzz, ASan, oracle inside the target)", "runs_requested": runs, "executed_units": executed,
        "seed_corpus": seeds.len(), "final_corpus": field("corp:"), "coverage_edges": field("cov:"), "features": field("ft:"),
        "oracle_evaluations": fstats.evaluations, "new_distinct_nontrivial": run.stats.nontrivial.len() - before_nt,
        "artifacts": arts.iter().filter(|a| a.file_name().and_then(|s| s.to_str()).map_or(false, |n| !n.starts_with("fuzz-") && !n.starts_with("slow-unit-"))).count(), "wall_s": t0.elapsed().as_secs_f64(),
    }));
}

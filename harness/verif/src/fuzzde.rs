//! A total, structure-aware mapping between byte strings and the `Case` types of the checks.
//!
//! `from_bytes::<T>(data)` drives `T`'s serde `Deserialize` from a byte cursor (bincode-like, but *total*: when
//! the data runs out every remaining scalar is zero and every remaining collection is empty), so a coverage-guided
//! byte fuzzer mutates generated *cases* (operation histories, schedules, term trees, chunkings ...) instead of dying
//! in input validation.  `to_bytes(&T)` is the inverse for values produced by the proptest generators; it is how the
//! fuzz corpora are seeded with rich valid cases.
//!
//! Layout: integers big-endian at their own width; bool one byte (bit 0); f32/f64 raw bits; char as u32 (invalid
//! -> 'a'); string / bytes / seq / map: length prefix (one byte 0..=254, or 255 followed by a u16), then the
//! elements (a sequence ends early when the data ends); option: one byte (bit 0); struct / tuple: fields in order;
//! enum: one byte modulo the number of variants, then the variant's content.

use serde::de::{self, DeserializeOwned, DeserializeSeed, EnumAccess, IntoDeserializer, MapAccess, SeqAccess, VariantAccess, Visitor};
use serde::ser::{self, Serialize};
use std::fmt;

#[derive(Debug)]
pub struct Error(String);
impl fmt::Display for Error {
    fn fmt(&self, f: &mut fmt::Formatter<'_>) -> fmt::Result {
        f.write_str(&self.0)
    }
}
impl std::error::Error for Error {}
impl de::Error for Error {
    fn custom<T: fmt::Display>(msg: T) -> Self {
        Error(msg.to_string())
    }
}
impl ser::Error for Error {
    fn custom<T: fmt::Display>(msg: T) -> Self {
        Error(msg.to_string())
    }
}

pub struct De<'a> {
    data: &'a [u8],
    pos: usize,
    depth: usize,
}

/// nesting bound of the decoded structure (recursive types such as `Value`)
const MAX_DEPTH: usize = 48;

impl<'a> De<'a> {
    pub fn new(data: &'a [u8]) -> Self {
        De { data, pos: 0, depth: 0 }
    }
    fn byte(&mut self) -> u8 {
        let b = self.data.get(self.pos).copied().unwrap_or(0);
        self.pos += 1;
        b
    }
    fn exhausted(&self) -> bool {
        self.pos >= self.data.len()
    }
    fn take<const N: usize>(&mut self) -> [u8; N] {
        let mut out = [0u8; N];
        for o in out.iter_mut() {
            *o = self.byte();
        }
        out
    }
    fn len(&mut self) -> usize {
        if self.exhausted() || self.depth >= MAX_DEPTH {
            return 0;
        }
        match self.byte() {
            255 => u16::from_be_bytes(self.take::<2>()) as usize,
            n => n as usize,
        }
    }
    fn raw(&mut self, n: usize) -> Vec<u8> {
        let end = (self.pos + n).min(self.data.len());
        let start = self.pos.min(self.data.len());
        self.pos = end;
        self.data[start..end].to_vec()
    }
}

pub fn from_bytes<T: DeserializeOwned>(data: &[u8]) -> Option<T> {
    let mut d = De::new(data);
    T::deserialize(&mut d).ok()
}

macro_rules! de_int {
    ($name:ident, $visit:ident, $t:ty, $n:expr) => {
        fn $name<V: Visitor<'de>>(self, v: V) -> Result<V::Value, Error> {
            v.$visit(<$t>::from_be_bytes(self.take::<$n>()))
        }
    };
}

impl<'de, 'a, 'b> de::Deserializer<'de> for &'b mut De<'a> {
    type Error = Error;
    fn deserialize_any<V: Visitor<'de>>(self, _v: V) -> Result<V::Value, Error> {
        Err(Error("self-describing formats are not supported".into()))
    }
    fn deserialize_bool<V: Visitor<'de>>(self, v: V) -> Result<V::Value, Error> {
        let b = self.byte();
        v.visit_bool(b & 1 == 1)
    }
    de_int!(deserialize_i8, visit_i8, i8, 1);
    de_int!(deserialize_i16, visit_i16, i16, 2);
    de_int!(deserialize_i32, visit_i32, i32, 4);
    de_int!(deserialize_i64, visit_i64, i64, 8);
    de_int!(deserialize_i128, visit_i128, i128, 16);
    de_int!(deserialize_u8, visit_u8, u8, 1);
    de_int!(deserialize_u16, visit_u16, u16, 2);
    de_int!(deserialize_u32, visit_u32, u32, 4);
    de_int!(deserialize_u64, visit_u64, u64, 8);
    de_int!(deserialize_u128, visit_u128, u128, 16);
    fn deserialize_f32<V: Visitor<'de>>(self, v: V) -> Result<V::Value, Error> {
        v.visit_f32(f32::from_bits(u32::from_be_bytes(self.take::<4>())))
    }
    fn deserialize_f64<V: Visitor<'de>>(self, v: V) -> Result<V::Value, Error> {
        v.visit_f64(f64::from_bits(u64::from_be_bytes(self.take::<8>())))
    }
    fn deserialize_char<V: Visitor<'de>>(self, v: V) -> Result<V::Value, Error> {
        let c = u32::from_be_bytes(self.take::<4>());
        v.visit_char(char::from_u32(c).unwrap_or('a'))
    }
    fn deserialize_str<V: Visitor<'de>>(self, v: V) -> Result<V::Value, Error> {
        self.deserialize_string(v)
    }
    fn deserialize_string<V: Visitor<'de>>(self, v: V) -> Result<V::Value, Error> {
        let n = self.len();
        let raw = self.raw(n);
        v.visit_string(String::from_utf8_lossy(&raw).into_owned())
    }
    fn deserialize_bytes<V: Visitor<'de>>(self, v: V) -> Result<V::Value, Error> {
        self.deserialize_byte_buf(v)
    }
    fn deserialize_byte_buf<V: Visitor<'de>>(self, v: V) -> Result<V::Value, Error> {
        let n = self.len();
        let raw = self.raw(n);
        v.visit_byte_buf(raw)
    }
    fn deserialize_option<V: Visitor<'de>>(self, v: V) -> Result<V::Value, Error> {
        if self.exhausted() || self.depth >= MAX_DEPTH {
            return v.visit_none();
        }
        if self.byte() & 1 == 1 {
            self.depth += 1;
            let r = v.visit_some(&mut *self);
            self.depth -= 1;
            r
        } else {
            v.visit_none()
        }
    }
    fn deserialize_unit<V: Visitor<'de>>(self, v: V) -> Result<V::Value, Error> {
        v.visit_unit()
    }
    fn deserialize_unit_struct<V: Visitor<'de>>(self, _n: &'static str, v: V) -> Result<V::Value, Error> {
        v.visit_unit()
    }
    fn deserialize_newtype_struct<V: Visitor<'de>>(self, _n: &'static str, v: V) -> Result<V::Value, Error> {
        v.visit_newtype_struct(self)
    }
    fn deserialize_seq<V: Visitor<'de>>(self, v: V) -> Result<V::Value, Error> {
        let n = self.len();
        self.depth += 1;
        let r = v.visit_seq(Elems { de: &mut *self, left: n, stop_at_end: true });
        self.depth -= 1;
        r
    }
    fn deserialize_tuple<V: Visitor<'de>>(self, len: usize, v: V) -> Result<V::Value, Error> {
        self.depth += 1;
        let r = v.visit_seq(Elems { de: &mut *self, left: len, stop_at_end: false });
        self.depth -= 1;
        r
    }
    fn deserialize_tuple_struct<V: Visitor<'de>>(self, _n: &'static str, len: usize, v: V) -> Result<V::Value, Error> {
        self.deserialize_tuple(len, v)
    }
    fn deserialize_map<V: Visitor<'de>>(self, v: V) -> Result<V::Value, Error> {
        let n = self.len();
        self.depth += 1;
        let r = v.visit_map(Elems { de: &mut *self, left: n, stop_at_end: true });
        self.depth -= 1;
        r
    }
    fn deserialize_struct<V: Visitor<'de>>(self, _n: &'static str, fields: &'static [&'static str], v: V) -> Result<V::Value, Error> {
        self.deserialize_tuple(fields.len(), v)
    }
    fn deserialize_enum<V: Visitor<'de>>(self, _n: &'static str, variants: &'static [&'static str], v: V) -> Result<V::Value, Error> {
        let mut idx = self.byte() as usize % variants.len().max(1);
        if self.depth >= MAX_DEPTH {
            idx = 0;
        }
        self.depth += 1;
        let r = v.visit_enum(Variant { de: &mut *self, idx: idx as u32 });
        self.depth -= 1;
        r
    }
    fn deserialize_identifier<V: Visitor<'de>>(self, _v: V) -> Result<V::Value, Error> {
        Err(Error("identifiers are positional".into()))
    }
    fn deserialize_ignored_any<V: Visitor<'de>>(self, v: V) -> Result<V::Value, Error> {
        v.visit_unit()
    }
}

struct Elems<'b, 'a> {
    de: &'b mut De<'a>,
    left: usize,
    stop_at_end: bool,
}

impl<'de, 'a, 'b> SeqAccess<'de> for Elems<'b, 'a> {
    type Error = Error;
    fn next_element_seed<T: DeserializeSeed<'de>>(&mut self, seed: T) -> Result<Option<T::Value>, Error> {
        if self.left == 0 || (self.stop_at_end && self.de.exhausted()) {
            return Ok(None);
        }
        self.left -= 1;
        seed.deserialize(&mut *self.de).map(Some)
    }
}

impl<'de, 'a, 'b> MapAccess<'de> for Elems<'b, 'a> {
    type Error = Error;
    fn next_key_seed<K: DeserializeSeed<'de>>(&mut self, seed: K) -> Result<Option<K::Value>, Error> {
        if self.left == 0 || self.de.exhausted() {
            return Ok(None);
        }
        self.left -= 1;
        seed.deserialize(&mut *self.de).map(Some)
    }
    fn next_value_seed<V: DeserializeSeed<'de>>(&mut self, seed: V) -> Result<V::Value, Error> {
        seed.deserialize(&mut *self.de)
    }
}

struct Variant<'b, 'a> {
    de: &'b mut De<'a>,
    idx: u32,
}

impl<'de, 'a, 'b> EnumAccess<'de> for Variant<'b, 'a> {
    type Error = Error;
    type Variant = Self;
    fn variant_seed<V: DeserializeSeed<'de>>(self, seed: V) -> Result<(V::Value, Self), Error> {
        let v = seed.deserialize(IntoDeserializer::<Error>::into_deserializer(self.idx))?;
        Ok((v, self))
    }
}

impl<'de, 'a, 'b> VariantAccess<'de> for Variant<'b, 'a> {
    type Error = Error;
    fn unit_variant(self) -> Result<(), Error> {
        Ok(())
    }
    fn newtype_variant_seed<T: DeserializeSeed<'de>>(self, seed: T) -> Result<T::Value, Error> {
        seed.deserialize(self.de)
    }
    fn tuple_variant<V: Visitor<'de>>(self, len: usize, v: V) -> Result<V::Value, Error> {
        de::Deserializer::deserialize_tuple(self.de, len, v)
    }
    fn struct_variant<V: Visitor<'de>>(self, fields: &'static [&'static str], v: V) -> Result<V::Value, Error> {
        de::Deserializer::deserialize_tuple(self.de, fields.len(), v)
    }
}

// ---- the inverse -----------------------------------------------------------------------------------------

pub struct Ser {
    pub out: Vec<u8>,
}

pub fn to_bytes<T: Serialize>(v: &T) -> Option<Vec<u8>> {
    let mut s = Ser { out: vec![] };
    v.serialize(&mut s).ok()?;
    Some(s.out)
}

impl Ser {
    fn len(&mut self, n: usize) -> Result<(), Error> {
        if n < 255 {
            self.out.push(n as u8);
            Ok(())
        } else if n <= u16::MAX as usize {
            self.out.push(255);
            self.out.extend_from_slice(&(n as u16).to_be_bytes());
            Ok(())
        } else {
            Err(Error("collection too long for the fuzz layout".into()))
        }
    }
}

macro_rules! ser_int {
    ($name:ident, $t:ty) => {
        fn $name(self, v: $t) -> Result<(), Error> {
            self.out.extend_from_slice(&v.to_be_bytes());
            Ok(())
        }
    };
}

impl<'s> ser::Serializer for &'s mut Ser {
    type Ok = ();
    type Error = Error;
    type SerializeSeq = Self;
    type SerializeTuple = Self;
    type SerializeTupleStruct = Self;
    type SerializeTupleVariant = Self;
    type SerializeMap = Self;
    type SerializeStruct = Self;
    type SerializeStructVariant = Self;
    fn serialize_bool(self, v: bool) -> Result<(), Error> {
        self.out.push(v as u8);
        Ok(())
    }
    ser_int!(serialize_i8, i8);
    ser_int!(serialize_i16, i16);
    ser_int!(serialize_i32, i32);
    ser_int!(serialize_i64, i64);
    ser_int!(serialize_i128, i128);
    ser_int!(serialize_u8, u8);
    ser_int!(serialize_u16, u16);
    ser_int!(serialize_u32, u32);
    ser_int!(serialize_u64, u64);
    ser_int!(serialize_u128, u128);
    fn serialize_f32(self, v: f32) -> Result<(), Error> {
        self.out.extend_from_slice(&v.to_bits().to_be_bytes());
        Ok(())
    }
    fn serialize_f64(self, v: f64) -> Result<(), Error> {
        self.out.extend_from_slice(&v.to_bits().to_be_bytes());
        Ok(())
    }
    fn serialize_char(self, v: char) -> Result<(), Error> {
        self.out.extend_from_slice(&(v as u32).to_be_bytes());
        Ok(())
    }
    fn serialize_str(self, v: &str) -> Result<(), Error> {
        self.len(v.len())?;
        self.out.extend_from_slice(v.as_bytes());
        Ok(())
    }
    fn serialize_bytes(self, v: &[u8]) -> Result<(), Error> {
        self.len(v.len())?;
        self.out.extend_from_slice(v);
        Ok(())
    }
    fn serialize_none(self) -> Result<(), Error> {
        self.out.push(0);
        Ok(())
    }
    fn serialize_some<T: ?Sized + Serialize>(self, v: &T) -> Result<(), Error> {
        self.out.push(1);
        v.serialize(self)
    }
    fn serialize_unit(self) -> Result<(), Error> {
        Ok(())
    }
    fn serialize_unit_struct(self, _n: &'static str) -> Result<(), Error> {
        Ok(())
    }
    fn serialize_unit_variant(self, _n: &'static str, idx: u32, _v: &'static str) -> Result<(), Error> {
        self.out.push(idx as u8);
        Ok(())
    }
    fn serialize_newtype_struct<T: ?Sized + Serialize>(self, _n: &'static str, v: &T) -> Result<(), Error> {
        v.serialize(self)
    }
    fn serialize_newtype_variant<T: ?Sized + Serialize>(self, _n: &'static str, idx: u32, _v: &'static str, v: &T) -> Result<(), Error> {
        self.out.push(idx as u8);
        v.serialize(self)
    }
    fn serialize_seq(self, len: Option<usize>) -> Result<Self, Error> {
        self.len(len.ok_or_else(|| Error("unsized sequence".into()))?)?;
        Ok(self)
    }
    fn serialize_tuple(self, _len: usize) -> Result<Self, Error> {
        Ok(self)
    }
    fn serialize_tuple_struct(self, _n: &'static str, _len: usize) -> Result<Self, Error> {
        Ok(self)
    }
    fn serialize_tuple_variant(self, _n: &'static str, idx: u32, _v: &'static str, _len: usize) -> Result<Self, Error> {
        self.out.push(idx as u8);
        Ok(self)
    }
    fn serialize_map(self, len: Option<usize>) -> Result<Self, Error> {
        self.len(len.ok_or_else(|| Error("unsized map".into()))?)?;
        Ok(self)
    }
    fn serialize_struct(self, _n: &'static str, _len: usize) -> Result<Self, Error> {
        Ok(self)
    }
    fn serialize_struct_variant(self, _n: &'static str, idx: u32, _v: &'static str, _len: usize) -> Result<Self, Error> {
        self.out.push(idx as u8);
        Ok(self)
    }
}

macro_rules! ser_compound {
    ($tr:path, $f:ident $(, $key:ident)?) => {
        impl<'s> $tr for &'s mut Ser {
            type Ok = ();
            type Error = Error;
            fn $f<T: ?Sized + Serialize>(&mut self, $($key: &'static str,)? v: &T) -> Result<(), Error> {
                $(let _ = $key;)?
                v.serialize(&mut **self)
            }
            fn end(self) -> Result<(), Error> {
                Ok(())
            }
        }
    };
}
ser_compound!(ser::SerializeSeq, serialize_element);
ser_compound!(ser::SerializeTuple, serialize_element);
ser_compound!(ser::SerializeTupleStruct, serialize_field);
ser_compound!(ser::SerializeTupleVariant, serialize_field);
ser_compound!(ser::SerializeStruct, serialize_field, key);
ser_compound!(ser::SerializeStructVariant, serialize_field, key);

impl<'s> ser::SerializeMap for &'s mut Ser {
    type Ok = ();
    type Error = Error;
    fn serialize_key<T: ?Sized + Serialize>(&mut self, k: &T) -> Result<(), Error> {
        k.serialize(&mut **self)
    }
    fn serialize_value<T: ?Sized + Serialize>(&mut self, v: &T) -> Result<(), Error> {
        v.serialize(&mut **self)
    }
    fn end(self) -> Result<(), Error> {
        Ok(())
    }
}

#[cfg(test)]
mod tests {
    use super::*;
    use serde::{Deserialize, Serialize};
    #[derive(Debug, PartialEq, Serialize, Deserialize)]
    enum E {
        A,
        B(u8, String),
        C { x: Vec<i64>, y: Option<Box<E>> },
    }
    #[test]
    fn roundtrip_and_total() {
        let v = vec![E::A, E::B(7, "héllo".into()), E::C { x: vec![-1, i64::MAX], y: Some(Box::new(E::A)) }];
        let b = to_bytes(&v).unwrap();
        let w: Vec<E> = from_bytes(&b).unwrap();
        assert_eq!(v, w);
        for n in 0..b.len() {
            let _: Option<Vec<E>> = from_bytes(&b[..n]);
        }
        let junk: Vec<u8> = (0..2000u32).map(|i| (i * 2654435761u32 >> 24) as u8).collect();
        let _: Option<Vec<E>> = from_bytes(&junk);
    }
}

//! C02 — decoding untrusted bytes always returns: no panic, abort, stack overflow or blow-up.

use crate::engine::{fp, replay_entry, CaseInfo, ReplayEntry, Run, Verdict};
use crate::gen::{arb_choices, arb_value, GenCfg};
use crate::isolate::{Worker, ENTRY_NAMES, N_ENTRIES};
use crate::mutate::{apply, arb_mutation, boundary_u32, Mutation};
use crate::terms::hex;
use crate::vfail;
use proptest::prelude::*;
use refmodel::etf::refenc_choices;
use refmodel::Value;
use serde::{Deserialize, Serialize};
use std::cell::RefCell;
use std::io::Write;

#[derive(Clone, Debug, Serialize, Deserialize)]
pub enum Case {
    /// a tag with a wire-supplied length/arity/count and little or no data behind it
    CountBomb { tag: u8, count: u32, wrap: u8, tail: Vec<u8> },
    /// k repetitions of a container prefix
    Depth { kind: u8, k: u32 },
    /// COMPRESSED wrapping a binary of `n` bytes; `declared` is what the header claims
    Compressed { n: u32, declared: u32, levels: u8 },
    Mutated { value: Value, choices: Vec<u8>, other: Value, mutation: Mutation, second: Mutation },
    Raw(Vec<u8>),
}

const FUN_PREFIX_TAIL: &[u8] = &[119, 1, b'm', 97, 0, 97, 0, 88, 119, 1, b'n', 0, 0, 0, 0, 0, 0, 0, 0, 0, 0, 0, 0];

pub fn deflate(body: &[u8]) -> Vec<u8> {
    let mut e = flate2::write::ZlibEncoder::new(Vec::new(), flate2::Compression::fast());
    e.write_all(body).unwrap();
    e.finish().unwrap()
}

fn wrap(how: u8, body: Vec<u8>) -> Vec<u8> {
    let mut o = vec![131u8];
    match how % 6 {
        0 => {}
        1 => o.extend_from_slice(&[104, 2, 97, 1]),
        2 => o.extend_from_slice(&[108, 0, 0, 0, 2, 97, 1]),
        3 => o.extend_from_slice(&[116, 0, 0, 0, 1, 97, 1]),
        4 => o.extend_from_slice(&[116, 0, 0, 0, 1]),
        _ => o.extend_from_slice(&[108, 0, 0, 0, 1, 97, 1]), // as list tail
    }
    o.extend_from_slice(&body);
    o
}

pub const COUNT_TAGS: &[u8] = &[104, 105, 107, 108, 109, 77, 110, 111, 116, 100, 118, 115, 119, 90, 114, 112, 80, 68, 69, 70, 113, 99, 121];

/// returns (bytes, bytes a correct decoder may inflate for this input)
pub fn bytes_of(case: &Case) -> (Vec<u8>, usize) {
    match case {
        Case::Raw(b) => (b.clone(), 0),
        Case::CountBomb { tag, count, wrap: w, tail } => {
            let mut b = vec![*tag];
            let c = *count;
            match tag {
                104 | 110 | 115 | 119 => b.push(c as u8),
                107 | 100 | 118 | 90 | 114 => b.extend_from_slice(&(c as u16).to_be_bytes()),
                77 => {
                    b.extend_from_slice(&c.to_be_bytes());
                    b.push(8);
                }
                112 => {
                    // Size: zero, or as inflated as NumFree (a reader may trust either field, or the smaller of the two)
                    b.extend_from_slice(&(if *w % 2 == 1 { c } else { 0u32 }).to_be_bytes());
                    b.push(0);
                    b.extend_from_slice(&[0; 16]);
                    b.extend_from_slice(&0u32.to_be_bytes());
                    b.extend_from_slice(&c.to_be_bytes()); // NumFree
                    b.extend_from_slice(FUN_PREFIX_TAIL);
                }
                68 => {
                    // distribution header: NumberOfAtomCacheRefs
                    b.push(c as u8);
                }
                69 | 70 => {
                    b.extend_from_slice(&[0; 16]);
                    b.push(c as u8);
                }
                _ => b.extend_from_slice(&c.to_be_bytes()),
            }
            b.extend_from_slice(tail);
            if *tag == 68 || *tag == 69 || *tag == 70 {
                let mut o = vec![131u8];
                o.extend_from_slice(&b);
                (o, 0)
            } else {
                (wrap(*w, b), 0)
            }
        }
        Case::Depth { kind, k } => {
            let k = *k as usize;
            let mut o = vec![131u8];
            match kind % 9 {
                0 => {
                    for _ in 0..k {
                        o.extend_from_slice(&[104, 1]);
                    }
                    o.push(106);
                }
                1 => {
                    for _ in 0..k {
                        o.extend_from_slice(&[105, 0, 0, 0, 1]);
                    }
                    o.push(106);
                }
                2 => {
                    for _ in 0..k {
                        o.extend_from_slice(&[108, 0, 0, 0, 1]);
                    }
                    o.push(106);
                    o.extend(std::iter::repeat(106).take(k));
                }
                3 => {
                    for _ in 0..k {
                        o.extend_from_slice(&[108, 0, 0, 0, 1, 97, 0]);
                    }
                    o.push(106);
                }
                4 => {
                    for _ in 0..k {
                        o.extend_from_slice(&[116, 0, 0, 0, 1, 97, 0]);
                    }
                    o.push(106);
                }
                5 => {
                    for _ in 0..k {
                        o.extend_from_slice(&[116, 0, 0, 0, 1]);
                    }
                    o.push(106);
                    for _ in 0..k {
                        o.extend_from_slice(&[97, 0]);
                    }
                }
                6 => {
                    for _ in 0..k {
                        o.push(121);
                        o.extend_from_slice(&[7; 8]);
                    }
                    o.push(106);
                }
                7 => {
                    for _ in 0..k {
                        o.push(112);
                        o.extend_from_slice(&0u32.to_be_bytes());
                        o.push(0);
                        o.extend_from_slice(&[0; 16]);
                        o.extend_from_slice(&0u32.to_be_bytes());
                        o.extend_from_slice(&1u32.to_be_bytes());
                        o.extend_from_slice(FUN_PREFIX_TAIL);
                    }
                    o.push(106);
                }
                _ => {
                    // COMPRESSED inside COMPRESSED ... (k capped: every level is a zlib stream)
                    let k = k.min(400);
                    let mut inner: Vec<u8> = vec![106];
                    for _ in 0..k {
                        let mut lvl = vec![80u8];
                        lvl.extend_from_slice(&(inner.len() as u32).to_be_bytes());
                        lvl.extend_from_slice(&deflate(&inner));
                        inner = lvl;
                    }
                    o.extend_from_slice(&inner);
                    // every live inflater has a fixed footprint (window + state, ~75 KiB with miniz_oxide)
                    return (o, 4096 + k * ZLIB_STATE);
                }
            }
            (o, 4096)
        }
        Case::Compressed { n, declared, levels } => {
            let n = *n as usize;
            let mut inner = vec![109u8];
            inner.extend_from_slice(&(n as u32).to_be_bytes());
            inner.extend(std::iter::repeat(0u8).take(n));
            let actual = inner.len();
            let mut budget = actual.min(*declared as usize + 1);
            let mut cur = inner;
            let mut decl = *declared;
            for l in 0..(*levels).max(1) {
                let mut lvl = vec![80u8];
                lvl.extend_from_slice(&decl.to_be_bytes());
                lvl.extend_from_slice(&deflate(&cur));
                // outer levels declare their true size
                cur = lvl;
                decl = cur.len() as u32;
                if l > 0 {
                    budget += cur.len();
                }
            }
            let mut o = vec![131u8];
            o.extend_from_slice(&cur);
            (o, budget + (*levels).max(1) as usize * ZLIB_STATE)
        }
        Case::Mutated { value, choices, other, mutation, second } => {
            let (b, _, _) = refenc_choices(value, choices, true, true);
            let (o, _, _) = refenc_choices(other, &[], false, false);
            let m1 = apply(&b, &o, mutation);
            (apply(&m1, &o, second), 0)
        }
    }
}

/// allowance for the fixed footprint of one zlib inflater (divided by the 256x factor of the bound)
const ZLIB_STATE: usize = 128 * 1024 / 256 + 1;

thread_local! {
    static WORKER: RefCell<Worker> = RefCell::new(Worker::new());
}

pub fn oracle(case: &Case) -> Verdict {
    let (bytes, inflate_budget) = bytes_of(case);
    let res = WORKER.with(|w| w.borrow_mut().eval(&bytes, (1u16 << N_ENTRIES) - 1));
    let res = match res {
        Ok(r) => r,
        Err(e) => vfail!("harness:worker", "{e}"),
    };
    let head = hex(&bytes[..bytes.len().min(48)]);
    let results = match res {
        Ok(r) => r,
        Err(death) => {
            let dying = WORKER.with(|w| w.borrow_mut().dying_entries(&bytes));
            let names: Vec<String> = dying.iter().map(|(i, h)| format!("{} ({})", ENTRY_NAMES[*i], h)).collect();
            let sig = if let Case::Depth { kind, .. } = case {
                let _ = kind;
                "process-killed-by-deep-nesting"
            } else {
                "process-killed"
            };
            vfail!(sig, "{} bytes (starting {}): worker {}; entry points that die: {:?}; case {:?}", bytes.len(), head, death.how, names, short(case));
        }
    };
    let bound = (1u64 << 20) + 256 * (bytes.len() as u64 + inflate_budget as u64);
    for (i, r) in results.iter().enumerate() {
        if r.status == 2 {
            vfail!("panic", "{} panicked on {} bytes (starting {}): {}; case {:?}", ENTRY_NAMES[i], bytes.len(), head, r.msg, short(case));
        }
        if r.peak > bound {
            vfail!(
                "allocation-out-of-proportion",
                "{} requested a peak of {} bytes (largest single request {}) for an input of {} bytes (+{} legitimately inflatable); bound {}; input starts {}; case {:?}",
                ENTRY_NAMES[i],
                r.peak,
                r.max_single,
                bytes.len(),
                inflate_budget,
                bound,
                head,
                short(case)
            );
        }
    }
    if let Case::Compressed { n, declared, levels } = case {
        let actual = *n as usize + 5;
        if *levels <= 1 && *declared as usize != actual && results[0].status == 0 {
            vfail!("compressed-size-mismatch-accepted", "COMPRESSED declaring {} bytes but inflating to {} was accepted by decode", declared, actual);
        }
        if *levels <= 1 && *declared as usize == actual && actual <= 100_000_000 && results[0].status != 0 {
            vfail!("valid-compressed-term-rejected", "COMPRESSED of a {}-byte binary with the right declared size was rejected", n);
        }
    }
    let nontrivial = match case {
        Case::Raw(b) => b.len() >= 3 && b[0] == 131,
        _ => bytes.len() >= 3,
    };
    let info = if nontrivial { CaseInfo::nt(fp(&bytes)) } else { CaseInfo::trivial() };
    let accepted = results[0].status == 0;
    Verdict::Pass(
        info.class(match case {
            Case::CountBomb { .. } => "count-bomb",
            Case::Depth { .. } => "deep-nesting",
            Case::Compressed { .. } => "compressed",
            Case::Mutated { .. } => "mutated-valid-encoding",
            Case::Raw(_) => "raw-bytes",
        })
        .class_if(accepted, "decode:accepted")
        .class_if(bytes.len() > 100_000, "input>100KB"),
    )
}

fn short(c: &Case) -> String {
    crate::engine::truncate(&format!("{:?}", c), 300)
}

fn count_strategy() -> impl Strategy<Value = Case> {
    (prop::sample::select(COUNT_TAGS.to_vec()), boundary_u32(), 0u8..6, prop::collection::vec(prop_oneof![Just(106u8), Just(97), Just(0), any::<u8>()], 0..6))
        .prop_map(|(tag, count, wrap, tail)| Case::CountBomb { tag, count, wrap, tail })
}

fn all_count_bombs() -> Vec<Case> {
    let counts = [0u32, 1, 255, 256, 65535, 65536, 1_000_000, 10_000_000, 10_000_001, 100_000_000, 100_000_001, 0x7fff_ffff, 0x8000_0000, 0xffff_ffff];
    let mut v = vec![];
    for &tag in COUNT_TAGS {
        for &count in &counts {
            for wrap in [0u8, 1, 2, 3, 4, 5] {
                for tail in [vec![], vec![106], vec![97, 0, 106]] {
                    v.push(Case::CountBomb { tag, count, wrap, tail });
                }
            }
        }
    }
    v
}

fn depth_cases(max_k: u32) -> Vec<Case> {
    let mut v = vec![];
    for kind in 0..9u8 {
        for k in [2u32, 10, 100, 200, 255, 256, 257, 500, 1000, 2000, 3000, 10_000, 100_000, 1_000_000] {
            if k <= max_k {
                v.push(Case::Depth { kind, k });
            }
        }
    }
    v
}

/// `levels` nested containers that each announce `count` elements, with `tail` one-byte terms behind them: a reader that
/// reserves "what is left of the input" per level multiplies the reservation by the nesting depth
fn nested_count_bombs() -> Vec<Case> {
    let mut v = vec![];
    for (tag, width) in [(104u8, 1usize), (105, 4), (108, 4)] {
        for levels in [2usize, 16, 100, 250] {
            for count in [255u32, 65_536, 1_048_576, u32::MAX] {
                for tail in [0usize, 1_000, 100_000] {
                    let mut b = vec![131u8];
                    for _ in 0..levels {
                        b.push(tag);
                        b.extend_from_slice(&count.to_be_bytes()[4 - width..]);
                    }
                    b.extend(std::iter::repeat(106u8).take(tail));
                    v.push(Case::Raw(b));
                }
            }
        }
    }
    v
}

/// a distribution header that introduces a few long atoms, followed by a list of many two-byte references to them: a reader
/// that copies the atom text per reference asks for (atom length x references) bytes
fn cache_ref_amplification() -> Vec<Case> {
    let mut v = vec![];
    for alen in [255usize, 4_000, 60_000, 65_535] {
        for nrefs in [1_000u32, 4_000, 30_000] {
            for n_atoms in [1usize, 8] {
                let refs: Vec<refmodel::dist::HeaderRef> = (0..n_atoms)
                    .map(|i| refmodel::dist::HeaderRef { slot: (i * 300 % 2048) as u16, new: true, atom: format!("{}{}", i, "x".repeat(alen - 1)) })
                    .collect();
                let mut b = vec![131u8, 68];
                b.extend_from_slice(&refmodel::dist::hdr_write(&refs));
                // control: a list of references, payload: a tuple of the same
                b.push(108);
                b.extend_from_slice(&nrefs.to_be_bytes());
                for k in 0..nrefs {
                    b.extend_from_slice(&[82, (k as usize % n_atoms) as u8]);
                }
                b.push(106);
                b.extend_from_slice(&[104, 2, 82, 0, 82, (n_atoms - 1) as u8]);
                v.push(Case::Raw(b));
            }
        }
    }
    v
}

fn compressed_cases(big: bool) -> Vec<Case> {
    let mut v = vec![];
    let ns: Vec<u32> = if big { vec![0, 10, 1000, 100_000, 5_000_000, 50_000_000] } else { vec![0, 10, 1000, 100_000, 5_000_000] };
    for n in ns {
        let actual = n + 5;
        for declared in [actual, actual.wrapping_sub(1), actual + 1, 0, 10, actual / 10, actual.saturating_mul(10).min(100_000_000), 100_000_000, 100_000_001, u32::MAX] {
            v.push(Case::Compressed { n, declared, levels: 1 });
        }
        v.push(Case::Compressed { n, declared: actual, levels: 3 });
        v.push(Case::Compressed { n, declared: 10, levels: 2 });
    }
    v
}

fn mutated_strategy() -> impl Strategy<Value = Case> {
    let cfg = GenCfg { depth: 5, size: 40, heavy: false, ..GenCfg::std() };
    let small = GenCfg { depth: 2, size: 6, heavy: false, ..GenCfg::std() };
    prop_oneof![
        10 => (arb_value(cfg), arb_choices(32), arb_value(small), arb_mutation(false), arb_mutation(true))
            .prop_map(|(value, choices, other, mutation, second)| Case::Mutated { value, choices, other, mutation, second }),
        2 => prop::collection::vec(any::<u8>(), 0..64).prop_map(|mut v| { if !v.is_empty() { v[0] = 131; } Case::Raw(v) }),
        1 => prop::collection::vec(any::<u8>(), 0..16).prop_map(Case::Raw),
        3 => count_strategy(),
    ]
}

/// every truncation of a sample of valid encodings
fn truncations(seed: [u8; 32], n: usize) -> Vec<Case> {
    let cfg = GenCfg { depth: 4, size: 24, heavy: false, ..GenCfg::std() };
    let vals = crate::engine::sample_strategy(&arb_value(cfg), seed, n);
    let chs = crate::engine::sample_strategy(&arb_choices(24), seed, n);
    let mut out = vec![];
    for (v, c) in vals.iter().zip(chs.iter()) {
        let (b, _, _) = refenc_choices(v, c, true, true);
        if b.len() > 300 {
            continue;
        }
        for cut in 0..b.len() {
            out.push(Case::Raw(b[..cut].to_vec()));
        }
    }
    out
}

pub fn run(run: &mut Run) {
    run.rule = "adversarial inputs built for the purpose, each run through all nine decoding entry points in an isolated worker process on 2 MiB-stack threads under a counting allocator: \
        (a) every tag with a length/arity/count field (for closures both size fields; 1000..30000 two-byte atom-cache references to 1..8 atoms of 255..65535 bytes introduced by the message's own distribution header; and 2..250 nested containers that each announce up to 2^32-1 elements in front of 0..100000 one-byte terms) x {0,1,255,256,65535,65536,10^6,10^7,10^7+1,10^8,2^31-1,2^31,2^32-1} x little or no data behind it, at top level and inside each container; \
        (b) nesting to depth 2..10^6 through every container tag (tuples, list element/tail, map key/value, fun free variable, LOCAL_EXT, COMPRESSED-in-COMPRESSED); (c) COMPRESSED sections that inflate \
        to less than, exactly, and up to 10^7 x more than declared; (d) every truncation of a sample of valid encodings; (e) bit flips, boundary overwrites, splices; (f) raw bytes. \
        Oracle: every entry point returns, worker alive, peak requested bytes <= 1 MiB + 256 x (input length + legitimately inflated bytes). Non-trivial = input of >= 3 bytes behind the version byte; distinct by bytes"
        .into();
    run.assumptions = vec![
        "default-sized async worker thread = 2 MiB stack (tokio's default)".into(),
        "allocation bound: size_of::<OwnedTerm>() = 80, densest legitimate expansion is one term per input byte, so 256 x input cannot flag a correct decoder; 1 MiB floor tolerates u16-bounded reservations".into(),
        "the harness is built with opt-level 2; stack frames of an unoptimised build are larger".into(),
    ];
    run.enumerate("count-bombs", all_count_bombs().into_iter(), oracle);
    run.enumerate("nested-count-bombs", nested_count_bombs().into_iter(), oracle);
    run.enumerate("cache-ref-amplification", cache_ref_amplification().into_iter(), oracle);
    run.enumerate("deep-nesting", depth_cases(run.tier.pick(1_000_000, 1_000_000)).into_iter(), oracle);
    run.enumerate("compressed", compressed_cases(run.tier == crate::engine::Tier::Thorough).into_iter(), oracle);
    let t = truncations(run.seed_for("truncations"), run.tier.pick(60, 1500));
    run.enumerate("all-truncations", t.into_iter(), oracle);
    run.prop("mutations-and-random", mutated_strategy, run.tier.pick(25_000, 1_000_000), oracle);
    if run.tier == crate::engine::Tier::Thorough {
        // coverage-guided byte fuzzing of the same oracle (libFuzzer, structure-aware through fuzzde); see fuzzbridge.rs
        crate::fuzzbridge::campaign(run, "decode", 3_000_000, 400);
    }
}

pub fn replays() -> Vec<ReplayEntry> {
    vec![replay_entry("fuzz:decode", crate::fuzzbridge::eval_input), 
        replay_entry("count-bombs", oracle),
        replay_entry("nested-count-bombs", oracle),
        replay_entry("deep-nesting", oracle),
        replay_entry("cache-ref-amplification", oracle),
        replay_entry("compressed", oracle),
        replay_entry("all-truncations", oracle),
        replay_entry("mutations-and-random", oracle),
    ]
}

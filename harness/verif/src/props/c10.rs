//! C10 — identifiers received from a peer are re-emitted byte-for-byte; they compare and hash
//! by their logical fields only.

use crate::engine::{fp, replay_entry, CaseInfo, ReplayEntry, Run, Verdict};
use crate::gen::{arb_choices, arb_pid, arb_port, arb_ref, arb_value, tweak, GenCfg};
use crate::terms::{denote, hex, identical};
use crate::vfail;
use erltf::{BorrowedTerm, OwnedTerm};
use proptest::prelude::*;
use refmodel::etf::{refdec_spans, refenc_canonical, refenc_choices, Span, VecPicker};
use refmodel::Value;
use serde::{Deserialize, Serialize};
use std::collections::{BTreeSet, HashSet};
use std::hash::{Hash, Hasher};

#[derive(Clone, Debug, Serialize, Deserialize, PartialEq, Eq, Hash)]
pub enum Step {
    Clone,
    Borrow,
    Wire,
    WrapTuple,
    WrapList,
    WrapTail,
    WrapMapValue,
    WrapMapKey,
    WrapFunFree,
}

#[derive(Clone, Debug, Serialize, Deserialize)]
pub struct Case {
    pub value: Value,
    pub choices: Vec<u8>,
    pub legacy: bool,
    pub steps: Vec<Step>,
}

fn has_map(v: &Value) -> bool {
    let mut f = false;
    v.walk(&mut |x| {
        if matches!(x, Value::Map(_)) {
            f = true
        }
    });
    f
}

fn canonical_id_bytes(v: &Value) -> Vec<u8> {
    refenc_canonical(v)[1..].to_vec()
}

/// identifier values in document order (same traversal order as the reference reader's spans)
fn span_bytes<'a>(b: &'a [u8], s: &Span) -> &'a [u8] {
    &b[s.start..s.end]
}

const FUN_PREFIX_ATOM: &[u8] = &[119, 1, b'm'];

/// Independent construction of the bytes expected after wrapping: `body` is an encoded term
/// without version byte.
fn wrap_bytes(step: &Step, body: &[u8]) -> Vec<u8> {
    let mut o = vec![];
    match step {
        Step::WrapTuple => {
            o.extend_from_slice(&[104, 2, 119, 2, b'o', b'k']);
            o.extend_from_slice(body);
        }
        Step::WrapList => {
            o.extend_from_slice(&[108, 0, 0, 0, 1]);
            o.extend_from_slice(body);
            o.push(106);
        }
        Step::WrapTail => {
            o.extend_from_slice(&[108, 0, 0, 0, 1, 97, 0]);
            o.extend_from_slice(body);
        }
        Step::WrapMapValue => {
            o.extend_from_slice(&[116, 0, 0, 0, 1, 97, 0]);
            o.extend_from_slice(body);
        }
        Step::WrapMapKey => {
            o.extend_from_slice(&[116, 0, 0, 0, 1]);
            o.extend_from_slice(body);
            o.extend_from_slice(&[97, 0]);
        }
        Step::WrapFunFree => {
            // NEW_FUN_EXT Size Arity Uniq Index NumFree Module OldIndex OldUniq Pid FreeVar
            let mut inner = vec![2u8];
            inner.extend_from_slice(&[9u8; 16]);
            inner.extend_from_slice(&5u32.to_be_bytes());
            inner.extend_from_slice(&1u32.to_be_bytes());
            inner.extend_from_slice(FUN_PREFIX_ATOM);
            inner.extend_from_slice(&[97, 3, 97, 4]);
            inner.extend_from_slice(&[88, 119, 3, b'a', b'@', b'b', 0, 0, 0, 1, 0, 0, 0, 2, 0, 0, 0, 3]);
            inner.extend_from_slice(body);
            o.push(112);
            o.extend_from_slice(&((inner.len() + 4) as u32).to_be_bytes());
            o.extend_from_slice(&inner);
        }
        _ => o.extend_from_slice(body),
    }
    o
}

fn apply_step(step: &Step, t: OwnedTerm) -> Result<OwnedTerm, String> {
    use erltf::types::InternalFun;
    use erltf::{Atom, ExternalPid};
    Ok(match step {
        Step::Clone => {
            let c = t.clone();
            drop(t);
            c
        }
        Step::Borrow => BorrowedTerm::from(&t).to_owned(),
        Step::Wire => {
            let b = erltf::encode(&t).map_err(|e| format!("encode in Wire step: {e:?}"))?;
            erltf::decode(&b).map_err(|e| format!("decode in Wire step: {e:?}"))?
        }
        Step::WrapTuple => OwnedTerm::Tuple(vec![OwnedTerm::atom("ok"), t]),
        Step::WrapList => OwnedTerm::List(vec![t]),
        Step::WrapTail => OwnedTerm::ImproperList { elements: vec![OwnedTerm::Integer(0)], tail: Box::new(t) },
        Step::WrapMapValue => {
            let mut m = std::collections::BTreeMap::new();
            m.insert(OwnedTerm::Integer(0), t);
            OwnedTerm::Map(m)
        }
        Step::WrapMapKey => {
            let mut m = std::collections::BTreeMap::new();
            m.insert(t, OwnedTerm::Integer(0));
            OwnedTerm::Map(m)
        }
        Step::WrapFunFree => OwnedTerm::InternalFun(Box::new(InternalFun::new(
            2,
            [9; 16],
            5,
            1,
            Atom::new("m"),
            3,
            4,
            ExternalPid::new(Atom::new("a@b"), 1, 2, 3),
            vec![t],
        ))),
    })
}

pub fn oracle(case: &Case) -> Verdict {
    let v = &case.value;
    let (b0, _, used) = refenc_choices(v, &case.choices, true, case.legacy);
    let (v0, spans0) = match refdec_spans(&b0) {
        Ok(x) => x,
        Err(e) => vfail!("harness:refdec", "{e:?}"),
    };
    if !v0.same(v) {
        vfail!("harness:refenc-refdec", "reference writer/reader disagree");
    }
    let t = match erltf::decode(&b0) {
        Ok(t) => t,
        Err(e) => vfail!("valid-encoding-rejected", "decode failed {e:?} for {} bytes={}", v.render(), hex(&b0)),
    };
    let b1 = match erltf::encode(&t) {
        Ok(b) => b,
        Err(e) => vfail!("reencode-error", "{e:?}"),
    };
    let (v1, spans1) = match refdec_spans(&b1) {
        Ok(x) => x,
        Err(e) => vfail!("independent-reader-rejects", "reference reader on re-encoded bytes: {e:?} bytes={}", hex(&b1)),
    };
    if !v1.same(v) {
        vfail!("reencoded-value-differs", "re-encoded term denotes {} expected {}", v1.render(), v.render());
    }
    // (2) byte spans
    let must_match = |s: &Span, bytes: &[u8]| -> bool {
        if s.local {
            return true;
        }
        // plain form: byte identity is owed when the peer used the form this library reconstructs from fields
        let sb = span_bytes(bytes, s);
        let val = {
            let mut d = refmodel::etf::Dec::new(sb);
            d.term().ok()
        };
        val.map_or(false, |val| canonical_id_bytes(&val) == sb)
    };
    let n_local = spans0.iter().filter(|s| s.local).count();
    let n_local_nested = spans0.iter().filter(|s| s.local && !s.path.is_empty()).count();
    if !has_map(v) {
        if spans0.len() != spans1.len() {
            vfail!("identifier-count-differs", "{} identifiers in, {} out", spans0.len(), spans1.len());
        }
        for (s0, s1) in spans0.iter().zip(spans1.iter()) {
            if s0.path != s1.path {
                vfail!("identifier-path-differs", "{} vs {}", s0.path, s1.path);
            }
            if must_match(s0, &b0) && span_bytes(&b0, s0) != span_bytes(&b1, s1) {
                vfail!(
                    "identifier-bytes-changed",
                    "{} at path '{}' (local={}): received {} re-emitted {}",
                    s0.kind,
                    s0.path,
                    s0.local,
                    hex(span_bytes(&b0, s0)),
                    hex(span_bytes(&b1, s1))
                );
            }
        }
    } else {
        // maps may be reordered by the library: compare the multisets of spans that must be preserved
        let mut m0: Vec<&[u8]> = spans0.iter().filter(|s| must_match(s, &b0)).map(|s| span_bytes(&b0, s)).collect();
        let mut m1: Vec<&[u8]> = spans1.iter().map(|s| span_bytes(&b1, s)).collect();
        m0.sort();
        m1.sort();
        for s in &m0 {
            match m1.iter().position(|x| x == s) {
                Some(i) => {
                    m1.remove(i);
                }
                None => vfail!("identifier-bytes-changed", "identifier bytes {} received but not re-emitted (map carrier)", hex(s)),
            }
        }
    }
    // (2b) the same through the distribution-header encoder: node-local identifiers are opaque, their bytes must
    // appear unchanged even when their node name also travels in the atom cache
    if n_local > 0 {
        let mut names: Vec<String> = vec![];
        v.walk(&mut |x| {
            if let Value::Pid { node, .. } | Value::Port { node, .. } | Value::Ref { node, .. } = x {
                if !names.contains(node) {
                    names.push(node.clone());
                }
            }
        });
        let mut ctl = vec![OwnedTerm::Integer(2), OwnedTerm::atom("")];
        ctl.extend(names.iter().take(3).map(|n| OwnedTerm::atom(n.as_str())));
        let ctl = OwnedTerm::Tuple(ctl);
        match erltf::encode_with_dist_header_multi(&[&ctl, &t]) {
            Ok(hb) => {
                let count = |hay: &[u8], needle: &[u8]| -> usize { if needle.is_empty() { 0 } else { hay.windows(needle.len()).filter(|w| *w == needle).count() } };
                for s0 in spans0.iter().filter(|s| s.local) {
                    let sb = span_bytes(&b0, s0);
                    // (occurrences owed = identifier spans with exactly these bytes; counting the byte pattern in the input
                    // instead would also count look-alikes that straddle an atom's text and the fields behind it)
                    let owed = spans0.iter().filter(|s| s.local && span_bytes(&b0, s) == sb).count();
                    if count(&hb, sb) < owed {
                        vfail!(
                            "identifier-bytes-changed",
                            "distribution-header encoder: node-local {} at path '{}' received as {} does not appear unchanged in {}",
                            s0.kind,
                            s0.path,
                            hex(sb),
                            hex(&hb[..hb.len().min(400)])
                        );
                    }
                }
            }
            Err(erltf::errors::EncodeError::TooManyAtoms { .. }) | Err(erltf::errors::EncodeError::AtomTooLarge { .. }) => {}
            Err(e) => vfail!("reencode-error", "encode_with_dist_header_multi: {e:?}"),
        }
    }
    // (2c) received through a distribution-header frame (the control tuple in front resolves its atoms through the
    // header, the node-local identifiers in the payload are opaque): decode with an atom cache, re-encode the payload
    {
        let ctl = Value::Tuple(vec![Value::int(2), Value::atom(""), Value::atom("rex"), Value::atom("ok")]);
        let mut sc = refmodel::dist::SenderCache::default();
        let mut k = 7u16;
        let mut slot_of = |a: &str| {
            k = k.wrapping_mul(31).wrapping_add(a.len() as u16 + 3);
            Some(k % 2048)
        };
        let (hb, _) = refmodel::dist::sender_encode_opts(&ctl, Some(v), &mut sc, &mut slot_of, &mut VecPicker::new(&case.choices), true);
        // node-local spans of the frame, found by an independent walk over the terms behind the header
        let mut pc = refmodel::dist::PeerCache::default();
        if let Ok((refs, used)) = refmodel::dist::hdr_read(&hb[2..], &mut pc) {
            let atoms: Vec<String> = refs.iter().map(|r| r.atom.clone()).collect();
            let body = &hb[2 + used..];
            let mut d = refmodel::etf::Dec::new(body);
            d.atoms = Some(&atoms);
            d.record_spans = true;
            if d.term().is_ok() && d.term().is_ok() {
                let locals: Vec<Vec<u8>> = d.spans.iter().filter(|s| s.local).map(|s| span_bytes(body, s).to_vec()).collect();
                if !locals.is_empty() {
                    let mut cache = erltf::AtomCache::new();
                    match erltf::decode_with_atom_cache(&hb, &mut cache) {
                        Ok((_, Some(pt))) => match erltf::encode(&pt) {
                            Ok(b2) => {
                                let count = |hay: &[u8], needle: &[u8]| -> usize { hay.windows(needle.len()).filter(|w| *w == needle).count() };
                                for sb in &locals {
                                    if count(&b2, sb) < locals.iter().filter(|x| *x == sb).count() {
                                        vfail!(
                                            "identifier-bytes-changed",
                                            "node-local identifier {} received in a distribution-header frame (behind control atoms taken from the atom cache) is not re-emitted unchanged: {}",
                                            hex(sb),
                                            hex(&b2[..b2.len().min(300)])
                                        );
                                    }
                                }
                            }
                            Err(e) => vfail!("reencode-error", "payload of a header frame: {e:?}"),
                        },
                        Ok((_, None)) => vfail!("valid-encoding-rejected", "header frame decoded without its payload"),
                        Err(e) => vfail!("valid-encoding-rejected", "decode_with_atom_cache failed {e:?} on a conforming header frame {}", hex(&hb[..hb.len().min(200)])),
                    }
                }
            }
        }
    }
    // (3) conversion sequence
    let mut cur = t.clone();
    let mut expect_body: Vec<u8> = b1[1..].to_vec();
    for st in &case.steps {
        cur = match apply_step(st, cur) {
            Ok(c) => c,
            Err(e) => vfail!("conversion-step-failed", "{:?}: {}", st, e),
        };
        expect_body = wrap_bytes(st, &expect_body);
    }
    let bf = match erltf::encode(&cur) {
        Ok(b) => b,
        Err(e) => vfail!("reencode-error", "after steps {:?}: {e:?}", case.steps),
    };
    // a map may legitimately come out in another key order after a conversion rebuilt it (the library's order over
    // non-minimal big integers is not a total order, C11-F1, so the order of such keys depends on the insertion
    // sequence): what this property owes then is the same value with every identifier's bytes unchanged
    let reordered_map_only = bf[1..] != expect_body[..] && has_map(v) && {
        let mut eb = vec![131u8];
        eb.extend_from_slice(&expect_body);
        match (refdec_spans(&bf), refdec_spans(&eb)) {
            (Ok((vf, sf)), Ok((ve, se))) => {
                let mut a: Vec<&[u8]> = sf.iter().map(|s| span_bytes(&bf, s)).collect();
                let mut b: Vec<&[u8]> = se.iter().map(|s| span_bytes(&eb, s)).collect();
                a.sort();
                b.sort();
                vf.same(&ve) && a == b
            }
            _ => false,
        }
    };
    if bf[1..] != expect_body[..] && !reordered_map_only {
        vfail!(
            "bytes-changed-by-conversion",
            "after steps {:?} the encoding is {} expected {}",
            case.steps,
            hex(&bf),
            hex(&expect_body)
        );
    }
    // to_owned/from round trip is structurally faithful
    if !identical(&BorrowedTerm::from(&t).to_owned(), &t) {
        vfail!("borrowed-roundtrip-not-identical", "BorrowedTerm::from(&t).to_owned() differs from t for {}", v.render());
    }
    if !denote(&cur).same(&denote(&cur.clone())) {
        vfail!("clone-differs", "clone");
    }
    let nontrivial = n_local_nested >= 1 && !case.steps.is_empty();
    let info = if nontrivial { CaseInfo::nt(fp(&(&b0, &case.steps))) } else { CaseInfo::trivial() };
    Verdict::Pass(
        info.class_if(n_local > 0, "has-local-ext")
            .class_if(n_local_nested > 0, "local-ext-nested")
            .class_if(used.iter().any(|u| *u == "port" || *u == "idform" || *u == "ref"), "alt-identifier-form")
            .class_if(has_map(v), "map-carrier")
            .class_if(reordered_map_only, "map-reordered-by-conversion")
            .class_if(case.steps.iter().any(|s| *s == Step::Wire), "step:wire")
            .class_if(case.steps.iter().any(|s| *s == Step::Borrow), "step:borrow"),
    )
}

// ---- logical equality / hash / order of identifiers ------------------------------------------

#[derive(Clone, Debug, Serialize, Deserialize)]
pub struct IdCase {
    pub id: Value,
    pub hash1: u8,
    pub hash2: u8,
    pub tweak: Vec<u8>,
}

struct Fnv(u64);
impl Hasher for Fnv {
    fn finish(&self) -> u64 {
        self.0
    }
    fn write(&mut self, bytes: &[u8]) {
        for b in bytes {
            self.0 = (self.0 ^ *b as u64).wrapping_mul(0x100000001b3);
        }
    }
}
fn h1<T: Hash>(t: &T) -> u64 {
    let mut h = std::collections::hash_map::DefaultHasher::new();
    t.hash(&mut h);
    h.finish()
}
fn h2<T: Hash>(t: &T) -> u64 {
    let mut h = Fnv(0xcbf29ce484222325);
    t.hash(&mut h);
    h.finish()
}

fn local_form(v: &Value, hash: u8, alt_atom: bool) -> Vec<u8> {
    let mut b = vec![131, 121];
    b.extend_from_slice(&[hash, hash ^ 0xff, 3, 4, 5, 6, 7, hash.wrapping_mul(3)]);
    if alt_atom {
        // same identifier, node atom spelled with the 2-byte-length tag
        let atom = |n: &str| {
            let mut a = vec![118u8];
            a.extend_from_slice(&(n.len() as u16).to_be_bytes());
            a.extend_from_slice(n.as_bytes());
            a
        };
        match v {
            Value::Pid { node, id, serial, creation } => {
                b.push(88);
                b.extend(atom(node));
                b.extend_from_slice(&id.to_be_bytes());
                b.extend_from_slice(&serial.to_be_bytes());
                b.extend_from_slice(&creation.to_be_bytes());
            }
            Value::Port { node, id, creation } => {
                b.push(120);
                b.extend(atom(node));
                b.extend_from_slice(&id.to_be_bytes());
                b.extend_from_slice(&creation.to_be_bytes());
            }
            Value::Ref { node, creation, ids } => {
                b.push(90);
                b.extend_from_slice(&(ids.len() as u16).to_be_bytes());
                b.extend(atom(node));
                b.extend_from_slice(&creation.to_be_bytes());
                for i in ids {
                    b.extend_from_slice(&i.to_be_bytes());
                }
            }
            _ => unreachable!(),
        }
    } else {
        b.extend_from_slice(&canonical_id_bytes(v));
    }
    b
}

pub fn id_oracle(c: &IdCase) -> Verdict {
    let forms = vec![refenc_canonical(&c.id), local_form(&c.id, c.hash1, false), local_form(&c.id, c.hash2, true)];
    let mut terms = vec![];
    for f in &forms {
        match erltf::decode(f) {
            Ok(t) => terms.push(t),
            Err(e) => vfail!("valid-encoding-rejected", "{e:?} bytes={}", hex(f)),
        }
    }
    for i in 0..terms.len() {
        for j in 0..terms.len() {
            let (a, b) = (&terms[i], &terms[j]);
            if a != b {
                vfail!("same-identifier-not-equal", "forms {} and {} of {} compare != ", i, j, c.id.render());
            }
            if h1(a) != h1(b) || h2(a) != h2(b) {
                vfail!("same-identifier-hash-differs", "forms {} and {} of {} hash differently", i, j, c.id.render());
            }
            if a.cmp(b) != std::cmp::Ordering::Equal || BorrowedTerm::from(a).cmp(&BorrowedTerm::from(b)) != std::cmp::Ordering::Equal {
                vfail!("same-identifier-cmp-not-equal", "forms {} and {} of {} do not compare Equal", i, j, c.id.render());
            }
            if BorrowedTerm::from(a) != BorrowedTerm::from(b) {
                vfail!("same-identifier-not-equal", "borrowed forms {} and {} of {} compare !=", i, j, c.id.render());
            }
        }
    }
    // the typed identifiers themselves
    match (&terms[0], &terms[1], &terms[2]) {
        (OwnedTerm::Pid(a), OwnedTerm::Pid(b), OwnedTerm::Pid(d)) => {
            if a != b || b != d || h1(a) != h1(b) || h1(b) != h1(d) || a.cmp(b).is_ne() || b.cmp(d).is_ne() {
                vfail!("same-identifier-not-equal", "ExternalPid forms of {} differ under ==/hash/cmp", c.id.render());
            }
        }
        (OwnedTerm::Port(a), OwnedTerm::Port(b), OwnedTerm::Port(d)) => {
            if a != b || b != d || h1(a) != h1(b) || h1(b) != h1(d) || a.cmp(b).is_ne() || b.cmp(d).is_ne() {
                vfail!("same-identifier-not-equal", "ExternalPort forms of {} differ under ==/hash/cmp", c.id.render());
            }
        }
        (OwnedTerm::Reference(a), OwnedTerm::Reference(b), OwnedTerm::Reference(d)) => {
            if a != b || b != d || h1(a) != h1(b) || h1(b) != h1(d) || a.cmp(b).is_ne() || b.cmp(d).is_ne() {
                vfail!("same-identifier-not-equal", "ExternalReference forms of {} differ under ==/hash/cmp", c.id.render());
            }
        }
        _ => vfail!("decoded-kind-differs", "identifier forms decoded to different kinds"),
    }
    let hs: HashSet<OwnedTerm> = terms.iter().cloned().collect();
    let bs: BTreeSet<OwnedTerm> = terms.iter().cloned().collect();
    if hs.len() != 1 || bs.len() != 1 {
        vfail!("same-identifier-not-collapsed", "HashSet has {} and BTreeSet {} entries for one identifier", hs.len(), bs.len());
    }
    // a different logical identifier must be told apart, whatever the form
    let other = tweak(&c.id, &mut VecPicker::new(&c.tweak));
    if other != c.id {
        let of = vec![refenc_canonical(&other), local_form(&other, c.hash1, false)];
        for f in &of {
            let o = match erltf::decode(f) {
                Ok(t) => t,
                Err(e) => vfail!("valid-encoding-rejected", "{e:?} bytes={}", hex(f)),
            };
            for t in &terms {
                if *t == o || t.cmp(&o) == std::cmp::Ordering::Equal {
                    vfail!("different-identifiers-equal", "{} and {} compare equal", c.id.render(), other.render());
                }
                // the zero-copy representation recognises identifiers by the same fields
                let (bt, bo) = (BorrowedTerm::from(t), BorrowedTerm::from(&o));
                if bt == bo || bt.cmp(&bo) == std::cmp::Ordering::Equal || bo.cmp(&bt) == std::cmp::Ordering::Equal {
                    vfail!("different-identifiers-equal", "zero-copy form: {} and {} compare equal", c.id.render(), other.render());
                }
            }
        }
        // both as keys of one map, in the plain form either decoder takes: two entries, through either decoder
        let (ka, kb) = (refenc_canonical(&c.id), refenc_canonical(&other));
        let mut m = vec![131u8, 116, 0, 0, 0, 2];
        m.extend_from_slice(&ka[1..]);
        m.extend_from_slice(&[97, 1]);
        m.extend_from_slice(&kb[1..]);
        m.extend_from_slice(&[97, 2]);
        let entries = |t: &OwnedTerm| match t {
            OwnedTerm::Map(m) => m.len(),
            _ => 0,
        };
        match erltf::decode(&m) {
            Ok(t) if entries(&t) == 2 => {}
            r => vfail!("different-identifiers-collapse-as-map-keys", "owned decoder: {} and {} as keys of one map gave {:?}", c.id.render(), other.render(), r),
        }
        match erltf::decode_borrowed(&m).map(|t| t.to_owned()) {
            Ok(t) if entries(&t) == 2 => {}
            r => vfail!("different-identifiers-collapse-as-map-keys", "zero-copy decoder: {} and {} as keys of one map gave {:?}", c.id.render(), other.render(), r),
        }
    }
    Verdict::Pass(CaseInfo::nt(fp(&(format!("{:?}", c.id), c.hash1, c.hash2))).class("id-eq-hash-ord"))
}

pub fn strategy() -> impl Strategy<Value = Case> {
    let cfg = GenCfg { depth: 4, size: 24, heavy: false, floats: false, ..GenCfg::std() };
    let step = prop_oneof![
        2 => Just(Step::Clone),
        3 => Just(Step::Borrow),
        3 => Just(Step::Wire),
        1 => Just(Step::WrapTuple),
        1 => Just(Step::WrapList),
        1 => Just(Step::WrapTail),
        1 => Just(Step::WrapMapValue),
        1 => Just(Step::WrapMapKey),
        1 => Just(Step::WrapFunFree),
    ];
    // identifier-rich carriers: a generated value with identifiers spliced into every kind of context
    let ids = || prop_oneof![arb_pid(), arb_port(), arb_ref(false)];
    let rich = (ids(), ids(), ids(), arb_value(cfg)).prop_map(|(a, b, c, x)| {
        Value::Tuple(vec![
            a.clone(),
            Value::list(vec![b.clone(), x.clone()]),
            Value::cons_list(vec![Value::int(1)], c.clone()),
            Value::Map(vec![(Value::atom("k"), a), (Value::atom("j"), Value::Tuple(vec![b]))]),
            Value::Fun {
                arity: 1,
                uniq: [3; 16],
                index: 1,
                module: "m".into(),
                old_index: 1,
                old_uniq: 2,
                pid: Box::new(Value::Pid { node: "a@b".into(), id: 1, serial: 2, creation: 3 }),
                free: vec![c, x],
            },
        ])
    });
    let flat = (ids(), arb_value(cfg)).prop_map(|(a, x)| Value::Tuple(vec![a, Value::list(vec![x])]));
    let value = prop_oneof![3 => rich, 2 => flat, 2 => arb_value(cfg), 1 => ids()];
    (value, arb_choices(48), prop::bool::weighted(0.25), prop::collection::vec(step, 0..=6))
        .prop_map(|(value, choices, legacy, steps)| Case { value, choices, legacy, steps })
}

pub fn id_strategy() -> impl Strategy<Value = IdCase> {
    (prop_oneof![arb_pid(), arb_port(), arb_ref(false)], any::<u8>(), any::<u8>(), arb_choices(4))
        .prop_map(|(id, hash1, hash2, tweak)| IdCase { id, hash1, hash2, tweak })
}

pub fn run(run: &mut Run) {
    run.rule = "carrier terms with pids/ports/references in plain and LOCAL_EXT form (arbitrary hashes, every admissible inner tag) in every context (top level, tuple, list, list tail, \
        map key/value, fun free variable), encoded by an independent writer, decoded, put through 0..6 generated conversions (clone, owned->zero-copy->owned, wire trip, moves into \
        containers) and re-encoded; identifier byte spans located by an independent reader. Non-trivial = a LOCAL_EXT identifier below top level and >= 1 conversion step"
        .into();
    run.assumptions = vec![
        "byte identity is owed for the LOCAL_EXT form (any inner encoding) and for plain identifiers in the form the library reconstructs from fields (NEW_PID_EXT, NEWER_REFERENCE_EXT, V4_PORT_EXT with a minimal atom tag); a plain identifier received in another equivalent tag (NEW_PORT_EXT, legacy tags, 2-byte-length atom tag) must keep its logical fields only".into(),
    ];
    run.prop("reemit", strategy, run.tier.pick(25_000, 1_000_000), oracle);
    run.prop("eq-hash-ord", id_strategy, run.tier.pick(10_000, 300_000), id_oracle);
    if run.tier == crate::engine::Tier::Thorough {
        // coverage-guided byte fuzzing of the same oracle (libFuzzer, structure-aware through fuzzde); see fuzzbridge.rs
        crate::fuzzbridge::campaign(run, "c10", 3_000_000, 400);
    }
    if run.tier == crate::engine::Tier::Thorough {
        // coverage-guided byte fuzzing of the same oracle (libFuzzer, structure-aware through fuzzde); see fuzzbridge.rs
        crate::fuzzbridge::campaign(run, "c10id", 3_000_000, 400);
    }
}

pub fn replays() -> Vec<ReplayEntry> {
    vec![replay_entry("fuzz:c10", crate::fuzzbridge::eval_input), replay_entry("fuzz:c10id", crate::fuzzbridge::eval_input), replay_entry("reemit", oracle), replay_entry("eq-hash-ord", id_oracle)]
}

//! C05 — framing is invariant under how the transport splits the byte stream.

use crate::alloc_track;
use crate::engine::{fp, replay_entry, CaseInfo, ReplayEntry, Run, Verdict};
use crate::vfail;
use edp_client::framing::{FrameMode, MessageDeframer, MessageFramer};
use proptest::prelude::*;
use serde::{Deserialize, Serialize};
use std::future::Future;
use std::io;
use std::pin::Pin;
use std::task::{Context, Poll, RawWaker, RawWakerVTable, Waker};
use tokio::io::{AsyncRead, AsyncWrite, ReadBuf};

pub const CAP: usize = 256 * 1024 * 1024;

#[derive(Clone, Debug, Serialize, Deserialize, PartialEq)]
pub struct Case {
    /// false = handshake mode (2-byte prefix), true = distribution mode (4-byte prefix)
    pub dist: bool,
    pub msg_lens: Vec<usize>,
    pub fill: u8,
    /// sizes of successive reads handed out by the transport (cycled); 0 entries are skipped
    pub chunks: Vec<u32>,
    /// pattern of Pending returns between chunks (cycled)
    pub pending: Vec<bool>,
    /// end the stream at this offset (inside some frame)
    pub eof_at: Option<usize>,
    /// after the messages: a length prefix declaring this many bytes, followed by `tail_body` bytes
    pub tail_declared: Option<u32>,
    pub tail_body: u8,
    /// framer and deframer are created in the other mode and switched with `set_mode` (what a connection does after the handshake)
    #[serde(default)]
    pub switched: bool,
}

fn noop_waker() -> Waker {
    fn clone(_: *const ()) -> RawWaker {
        RawWaker::new(std::ptr::null(), &VTABLE)
    }
    fn noop(_: *const ()) {}
    static VTABLE: RawWakerVTable = RawWakerVTable::new(clone, noop, noop, noop);
    unsafe { Waker::from_raw(RawWaker::new(std::ptr::null(), &VTABLE)) }
}

/// Drive a future to completion by polling in a loop (all our I/O objects are self-waking).
pub fn block_on<F: Future>(mut f: F) -> Result<F::Output, String> {
    let w = noop_waker();
    let mut cx = Context::from_waker(&w);
    let mut f = unsafe { Pin::new_unchecked(&mut f) };
    for _ in 0..50_000_000u64 {
        if let Poll::Ready(v) = f.as_mut().poll(&mut cx) {
            return Ok(v);
        }
    }
    Err("future did not complete (harness poll cap)".into())
}

pub struct ChunkReader {
    data: Vec<u8>,
    pos: usize,
    chunks: Vec<u32>,
    ci: usize,
    pending: Vec<bool>,
    pi: usize,
    pub reads: usize,
    pub pendings: usize,
    last_pending: bool,
}

impl ChunkReader {
    pub fn new(data: Vec<u8>, chunks: &[u32], pending: &[bool]) -> Self {
        let chunks: Vec<u32> = chunks.iter().copied().filter(|c| *c > 0).collect();
        ChunkReader {
            data,
            pos: 0,
            chunks: if chunks.is_empty() { vec![u32::MAX] } else { chunks },
            ci: 0,
            pending: pending.to_vec(),
            pi: 0,
            reads: 0,
            pendings: 0,
            last_pending: false,
        }
    }
}

impl AsyncRead for ChunkReader {
    fn poll_read(mut self: Pin<&mut Self>, cx: &mut Context<'_>, buf: &mut ReadBuf<'_>) -> Poll<io::Result<()>> {
        if !self.pending.is_empty() {
            let p = self.pending[self.pi % self.pending.len()];
            self.pi += 1;
            // never Pending twice in a row, so an all-true pattern still makes progress
            if p && !self.last_pending {
                self.pendings += 1;
                self.last_pending = true;
                cx.waker().wake_by_ref();
                return Poll::Pending;
            }
        }
        self.last_pending = false;
        let c = self.chunks[self.ci % self.chunks.len()] as usize;
        self.ci += 1;
        let n = c.min(buf.remaining()).min(self.data.len() - self.pos);
        let (a, b) = (self.pos, self.pos + n);
        buf.put_slice(&self.data[a..b]);
        self.pos = b;
        self.reads += 1;
        Poll::Ready(Ok(()))
    }
}

pub struct ChunkWriter {
    pub out: Vec<u8>,
    chunks: Vec<u32>,
    ci: usize,
    pending: Vec<bool>,
    pi: usize,
    last_pending: bool,
}

impl AsyncWrite for ChunkWriter {
    fn poll_write(mut self: Pin<&mut Self>, cx: &mut Context<'_>, buf: &[u8]) -> Poll<io::Result<usize>> {
        if !self.pending.is_empty() {
            let p = self.pending[self.pi % self.pending.len()];
            self.pi += 1;
            if p && !self.last_pending {
                self.last_pending = true;
                cx.waker().wake_by_ref();
                return Poll::Pending;
            }
        }
        self.last_pending = false;
        let c = self.chunks[self.ci % self.chunks.len()] as usize;
        self.ci += 1;
        let n = c.min(buf.len()).max(if buf.is_empty() { 0 } else { 1 });
        self.out.extend_from_slice(&buf[..n]);
        Poll::Ready(Ok(n))
    }
    fn poll_flush(self: Pin<&mut Self>, _: &mut Context<'_>) -> Poll<io::Result<()>> {
        Poll::Ready(Ok(()))
    }
    fn poll_shutdown(self: Pin<&mut Self>, _: &mut Context<'_>) -> Poll<io::Result<()>> {
        Poll::Ready(Ok(()))
    }
}

fn msg(len: usize, fill: u8, k: usize) -> Vec<u8> {
    (0..len).map(|i| fill.wrapping_add((i as u8).wrapping_mul(31)).wrapping_add(k as u8)).collect()
}

/// independent framing
fn ref_frame(dist: bool, m: &[u8]) -> Vec<u8> {
    let mut o = if dist { (m.len() as u32).to_be_bytes().to_vec() } else { (m.len() as u16).to_be_bytes().to_vec() };
    o.extend_from_slice(m);
    o
}

pub fn oracle(case: &Case) -> Verdict {
    let mode = if case.dist { FrameMode::Distribution } else { FrameMode::Handshake };
    let other = if case.dist { FrameMode::Handshake } else { FrameMode::Distribution };
    let (framer, deframer) = if case.switched {
        let (mut f, mut d) = (MessageFramer::new(other), MessageDeframer::new(other));
        f.set_mode(mode);
        d.set_mode(mode);
        (f, d)
    } else {
        (MessageFramer::new(mode), MessageDeframer::new(mode))
    };
    let msgs: Vec<Vec<u8>> = case
        .msg_lens
        .iter()
        .enumerate()
        .map(|(k, &l)| msg(if case.dist { l } else { l.min(65535) }, case.fill, k))
        .collect();
    let mut stream = vec![];
    let mut bounds = vec![0usize];
    for m in &msgs {
        let f = framer.frame_message(m);
        if f != ref_frame(case.dist, m) {
            vfail!("frame-bytes-wrong", "frame_message of a {}-byte message produced a wrong prefix/body ({} bytes)", m.len(), f.len());
        }
        // streaming writer == one-shot framing
        let chunks: Vec<u32> = case.chunks.iter().copied().filter(|c| *c > 0).collect();
        let mut w = ChunkWriter { out: vec![], chunks: if chunks.is_empty() { vec![u32::MAX] } else { chunks }, ci: 0, pending: case.pending.clone(), pi: 0, last_pending: false };
        match block_on(framer.write_framed(&mut w, m)) {
            Ok(Ok(())) => {}
            Ok(Err(e)) => vfail!("write-framed-error", "write_framed failed: {e}"),
            Err(e) => vfail!("framing-future-never-completes", "{e}"),
        }
        if w.out != f {
            vfail!("streaming-writer-differs-from-one-shot", "write_framed wrote {} bytes, frame_message gives {} for a {}-byte message", w.out.len(), f.len(), m.len());
        }
        stream.extend_from_slice(&f);
        bounds.push(stream.len());
    }
    let mut expect_tail_err = false;
    if let Some(d) = case.tail_declared {
        if case.dist {
            stream.extend_from_slice(&d.to_be_bytes());
            stream.extend(std::iter::repeat(0x5a).take(case.tail_body as usize));
            expect_tail_err = true;
        }
    }
    let total_msgs_len = *bounds.last().unwrap();
    let mut n_complete = msgs.len();
    if let Some(e) = case.eof_at {
        if total_msgs_len > 0 {
            let cut = e % total_msgs_len;
            stream.truncate(cut);
            expect_tail_err = false;
            // frames completely contained in the prefix
            n_complete = bounds.iter().skip(1).filter(|b| **b <= cut).count();
        }
    }
    let stream_len = stream.len();
    let mut r = ChunkReader::new(stream, &case.chunks, &case.pending);
    let mut split_frame = false;
    for (k, m) in msgs.iter().enumerate().take(n_complete) {
        let reads_before = r.reads;
        match block_on(deframer.read_framed(&mut r)) {
            Ok(Ok(got)) => {
                if got != *m {
                    vfail!(
                        "frame-content-differs",
                        "frame {k}: read {} bytes, expected the {}-byte message written (first difference at {:?})",
                        got.len(),
                        m.len(),
                        got.iter().zip(m.iter()).position(|(a, b)| a != b)
                    );
                }
            }
            Ok(Err(e)) => vfail!("complete-frame-not-returned", "frame {k} ({} bytes) is completely in the stream but read_framed failed: {e}", m.len()),
            Err(e) => vfail!("read-framed-hangs", "frame {k}: {e}"),
        }
        if r.reads - reads_before > 2 {
            split_frame = true;
        }
    }
    let mut cap_checked = false;
    if n_complete < msgs.len() {
        // the stream ends inside frame n_complete (or exactly before it): must be an error, never a short message
        match block_on(deframer.read_framed(&mut r)) {
            Ok(Err(e)) if e.kind() == io::ErrorKind::UnexpectedEof => {}
            Ok(Err(e)) => vfail!("eof-in-frame-wrong-error", "expected UnexpectedEof, got {:?}: {e}", e.kind()),
            Ok(Ok(got)) => vfail!("short-message-returned-at-eof", "stream ended inside a frame but read_framed returned {} bytes", got.len()),
            Err(e) => vfail!("read-framed-hangs", "{e}"),
        }
    } else if expect_tail_err {
        let d = case.tail_declared.unwrap() as usize;
        alloc_track::start(usize::MAX);
        let res = block_on(deframer.read_framed(&mut r));
        let st = alloc_track::stop();
        match res {
            Ok(Err(e)) => {
                if d > CAP {
                    if e.kind() != io::ErrorKind::InvalidData {
                        vfail!("over-cap-wrong-error", "declared {d} > cap: expected InvalidData, got {:?}", e.kind());
                    }
                    if st.max_single >= 64 * 1024 {
                        vfail!("over-cap-allocated-before-refusing", "declared {d} > cap: a single allocation of {} bytes was requested before the refusal", st.max_single);
                    }
                    cap_checked = true;
                } else if d == 0 {
                    vfail!("tick-not-returned", "declared 0 must be returned as an empty message, got error {e}");
                } else if e.kind() != io::ErrorKind::UnexpectedEof && (case.tail_body as usize) < d {
                    vfail!("eof-in-frame-wrong-error", "declared {d} with {} body bytes: expected UnexpectedEof, got {:?}", case.tail_body, e.kind());
                }
            }
            Ok(Ok(got)) => {
                if d > CAP {
                    vfail!("over-cap-accepted", "declared {d} > cap but a {}-byte message was returned", got.len());
                }
                if got.len() != d {
                    vfail!("short-message-returned-at-eof", "declared {d}, only {} body bytes in the stream, returned {} bytes", case.tail_body, got.len());
                }
            }
            Err(e) => vfail!("read-framed-hangs", "{e}"),
        }
    } else {
        // clean end of stream at a frame boundary: an error, not a phantom message
        match block_on(deframer.read_framed(&mut r)) {
            Ok(Err(_)) => {}
            Ok(Ok(got)) => vfail!("message-from-empty-stream", "read_framed returned {} bytes at end of stream", got.len()),
            Err(e) => vfail!("read-framed-hangs", "{e}"),
        }
    }
    let nontrivial = split_frame || r.pendings > 0;
    let info = if nontrivial { CaseInfo::nt(fp(&format!("{:?}", case))) } else { CaseInfo::trivial() };
    Verdict::Pass(
        info.class_if(split_frame, "frame-split-across-reads")
            .class_if(r.pendings > 0, "pending-between-chunks")
            .class_if(case.eof_at.is_some(), "eof-inside-stream")
            .class_if(cap_checked, "over-cap-refused")
            .class_if(msgs.iter().any(|m| m.is_empty()), "tick")
            .class_if(msgs.iter().any(|m| m.len() >= 65535), "len>=65535")
            .class_if(stream_len > 100_000, "stream>100KB")
            .class_if(!case.dist, "handshake-mode")
            .class_if(case.switched, "mode-switched-after-construction"),
    )
}

/// every way of cutting a short stream into reads
fn all_chunkings(max_bytes: usize) -> Vec<Case> {
    let mut out = vec![];
    let shapes: Vec<(bool, Vec<usize>)> = vec![
        (false, vec![1, 0, 2]),
        (false, vec![0, 0, 3]),
        (false, vec![4]),
        (true, vec![1, 0]),
        (true, vec![2, 1]),
        (true, vec![0, 0, 0]),
        (true, vec![3, 0, 1]),
        (true, vec![6]),
    ];
    for (dist, lens) in shapes {
        let p = if dist { 4 } else { 2 };
        let total: usize = lens.iter().map(|l| l + p).sum();
        if total > max_bytes || total < 2 {
            continue;
        }
        for mask in 0u32..(1u32 << (total - 1)) {
            // bit i set = cut after byte i
            let mut chunks = vec![];
            let mut run = 1u32;
            for i in 0..total - 1 {
                if mask & (1 << i) != 0 {
                    chunks.push(run);
                    run = 1;
                } else {
                    run += 1;
                }
            }
            chunks.push(run);
            chunks.push(u32::MAX);
            out.push(Case {
                dist,
                msg_lens: lens.clone(),
                fill: 7,
                chunks,
                pending: if mask % 3 == 0 { vec![false, true] } else { vec![] },
                eof_at: None,
                tail_declared: None,
                tail_body: 0,
                switched: mask % 2 == 1,
            });
        }
    }
    out
}

pub fn strategy() -> impl Strategy<Value = Case> {
    let len = prop_oneof![
        6 => prop::sample::select(vec![0usize, 1, 2, 3, 255, 256, 1000]),
        2 => prop::sample::select(vec![8191usize, 8192, 8193, 10_000, 65535, 65536, 65537]),
        3 => 0usize..600,
        1 => 60_000usize..200_000,
    ];
    let chunk = prop_oneof![
        6 => 1u32..8,
        3 => prop::sample::select(vec![1u32, 2, 3, 4, 5, 255, 4096, 8192, 65536]),
        2 => 1u32..100_000,
        1 => Just(u32::MAX),
    ];
    (
        any::<bool>(),
        prop::collection::vec(len, 0..8),
        any::<u8>(),
        prop::collection::vec(chunk, 0..12),
        prop::collection::vec(prop::bool::weighted(0.3), 0..6),
        prop::option::weighted(0.2, any::<usize>()),
        prop::option::weighted(
            0.25,
            prop_oneof![
                prop::sample::select(vec![(CAP + 1) as u32, (CAP + 2) as u32, 0x1000_0001, 0x7fff_ffff, 0x8000_0000, 0xffff_fffe, 0xffff_ffff]),
                ((CAP as u32 + 1)..=u32::MAX),
                1u32..300,
            ],
        ),
        0u8..9,
        any::<bool>(),
    )
        .prop_map(|(dist, msg_lens, fill, chunks, pending, eof_at, tail_declared, tail_body, switched)| Case {
            dist,
            msg_lens,
            fill,
            chunks,
            pending,
            eof_at,
            tail_declared,
            tail_body,
            switched,
        })
}

// ---- the socket-bound transport: refused writes leave no trace ---------------------------------------------------------------

#[derive(Clone, Debug, Serialize, Deserialize, PartialEq)]
pub enum TOp {
    Write(Vec<u8>),
    /// attach a fresh loopback stream
    Connect,
    Close,
    /// switch to the 4-byte (true) or the 2-byte (false) prefix
    Mode(bool),
}

#[derive(Clone, Debug, Serialize, Deserialize)]
pub struct TCase {
    pub ops: Vec<TOp>,
}

/// One `FramedTransport` lives through a generated history of connect / write / close / mode changes. A write without a stream is
/// an error and leaves nothing behind; every stream carries exactly the frames of the writes that succeeded while it was attached.
pub fn transport_oracle(c: &TCase) -> Verdict {
    use edp_client::transport::FramedTransport;
    use tokio::io::AsyncReadExt;
    let rt = match tokio::runtime::Builder::new_current_thread().enable_all().build() {
        Ok(rt) => rt,
        Err(e) => return Verdict::Fail { signature: "harness:runtime".into(), detail: e.to_string() },
    };
    let ops = c.ops.clone();
    let out: Result<(Vec<Vec<u8>>, Vec<Vec<u8>>, usize), (String, String)> = rt.block_on(async move {
        let h = |e: std::io::Error| ("harness:loopback".to_string(), e.to_string());
        let listener = tokio::net::TcpListener::bind("127.0.0.1:0").await.map_err(h)?;
        let addr = listener.local_addr().map_err(h)?;
        let mut t = FramedTransport::new(std::time::Duration::from_secs(20));
        let (mut expected, mut peers): (Vec<Vec<u8>>, Vec<tokio::net::TcpStream>) = (vec![], vec![]);
        let (mut connected, mut dist, mut refused) = (false, false, 0usize);
        for (k, op) in ops.iter().enumerate() {
            match op {
                TOp::Connect => {
                    let (a, b) = tokio::join!(tokio::net::TcpStream::connect(addr), listener.accept());
                    t.connect(a.map_err(h)?);
                    peers.push(b.map_err(h)?.0);
                    expected.push(vec![]);
                    connected = true;
                }
                TOp::Close => {
                    t.close();
                    connected = false;
                }
                TOp::Mode(d) => {
                    t.set_frame_mode(if *d { FrameMode::Distribution } else { FrameMode::Handshake });
                    dist = *d;
                }
                TOp::Write(m) => match (connected, t.write(m).await) {
                    (false, Ok(())) => return Err(("write-without-a-stream-succeeds".into(), format!("op {k}"))),
                    (false, Err(_)) => refused += 1,
                    (true, Ok(())) => {
                        let e = expected.last_mut().unwrap();
                        if dist {
                            e.extend_from_slice(&(m.len() as u32).to_be_bytes());
                        } else {
                            e.extend_from_slice(&(m.len() as u16).to_be_bytes());
                        }
                        e.extend_from_slice(m);
                    }
                    (true, Err(e)) if e.to_string().to_lowercase().contains("timeout") => return Err(("harness:loopback-write-cap".into(), format!("op {k}: {e}"))),
                    (true, Err(e)) => return Err(("write-on-a-healthy-stream-fails".into(), format!("op {k}: {e}"))),
                },
            }
        }
        t.close();
        drop(t);
        let mut got = vec![];
        for mut p in peers {
            let mut b = vec![];
            match tokio::time::timeout(std::time::Duration::from_secs(20), p.read_to_end(&mut b)).await {
                Ok(Ok(_)) => got.push(b),
                Ok(Err(e)) => return Err(("harness:loopback".into(), e.to_string())),
                // a wall-clock cap is never a verdict: inconclusive
                Err(_) => return Err(("harness:loopback-read-cap".into(), "the peer did not see the end of a closed stream within 20 s of real time".into())),
            }
        }
        Ok((expected, got, refused))
    });
    match out {
        Err((signature, detail)) => Verdict::Fail { signature, detail },
        Ok((expected, got, refused)) => {
            for (i, (e, g)) in expected.iter().zip(got.iter()).enumerate() {
                if e != g {
                    vfail!(
                        "transport-stream-carries-other-bytes",
                        "stream #{i}: the peer read {} bytes, the successful writes on that stream make {} bytes; got starts {:02x?}, expected starts {:02x?} ({} writes were refused for lack of a stream)",
                        g.len(),
                        e.len(),
                        &g[..g.len().min(12)],
                        &e[..e.len().min(12)],
                        refused
                    );
                }
            }
            let info = if refused > 0 && expected.iter().any(|e| !e.is_empty()) { CaseInfo::nt(fp(&format!("{:?}", c))) } else { CaseInfo::trivial() };
            Verdict::Pass(info.class_if(refused > 0, "transport:refused-write-then-more").class_if(expected.len() >= 2, "transport:re-attached"))
        }
    }
}

fn transport_strategy() -> impl Strategy<Value = TCase> {
    let msg = prop_oneof![3 => prop::collection::vec(any::<u8>(), 0..40), 1 => prop::collection::vec(any::<u8>(), 250..300), 1 => Just(vec![])];
    let op = prop_oneof![5 => msg.prop_map(TOp::Write), 2 => Just(TOp::Connect), 2 => Just(TOp::Close), 1 => any::<bool>().prop_map(TOp::Mode)];
    prop::collection::vec(op, 1..14).prop_map(|ops| TCase { ops })
}

pub fn run(run: &mut Run) {
    run.rule = "sequences of 0..8 messages (lengths 0,1,2,255,256,8191..8193,65535..65537, random up to 200 KB) in both framing modes, framed by frame_message and by write_framed \
        into a chunk-accepting writer, then read back through a custom AsyncRead that hands out generated chunk sizes with self-waking Pending returns in between; every chunking \
        (all 2^(n-1)) of short streams; EOF at every kind of offset; declared lengths above the 256 MiB cap with 0..8 body bytes and a scoped counting allocator. \
        Non-trivial = at least one frame split across reads or a Pending between chunks; distinct by (messages, chunking)"
        .into();
    run.assumptions = vec![
        "framer and deframer are driven by a manual poll loop (no sockets, no runtime timers); the node's second copy of the read loop is exercised over TCP under C06; the socket-bound FramedTransport has a campaign of its own over loopback streams (histories of connect / write / close / mode changes)".into(),
        "'before any buffer of that size is allocated' is decided as: no single allocation >= 64 KiB on the calling thread during the refused read".into(),
    ];
    run.enumerate("all-chunkings", all_chunkings(run.tier.pick(15, 19)).into_iter(), oracle);
    run.prop("random-streams", strategy, run.tier.pick(120_000, 3_000_000), oracle);
    run.prop("framed-transport", transport_strategy, run.tier.pick(1_500, 6_000), transport_oracle);
    if run.tier == crate::engine::Tier::Thorough {
        // a declared length exactly at the cap must be attempted (and then fail with EOF, not InvalidData)
        let c = Case { dist: true, msg_lens: vec![3], fill: 1, chunks: vec![5], pending: vec![], eof_at: None, tail_declared: Some(CAP as u32), tail_body: 4, switched: true };
        run.enumerate("at-cap", vec![c].into_iter(), oracle);
    }
    if run.tier == crate::engine::Tier::Thorough {
        // coverage-guided byte fuzzing of the same oracle (libFuzzer, structure-aware through fuzzde); see fuzzbridge.rs
        crate::fuzzbridge::campaign(run, "c05", 3_000_000, 400);
    }
}

pub fn replays() -> Vec<ReplayEntry> {
    vec![replay_entry("fuzz:c05", crate::fuzzbridge::eval_input), replay_entry("all-chunkings", oracle), replay_entry("random-streams", oracle), replay_entry("at-cap", oracle), replay_entry("framed-transport", transport_oracle)]
}

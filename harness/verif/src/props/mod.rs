use crate::engine::{ReplayEntry, Run};

pub mod c01;
pub mod c02;
pub mod c03;
pub mod c04;
pub mod c05;
pub mod c06;
pub mod c07;
pub mod c08;
pub mod c09;
pub mod c10;
pub mod c11;
pub mod c12;
pub mod c13;
pub mod c14;
pub mod c15;
pub mod c16;
pub mod c17;
pub mod c18;
pub mod c19;
pub mod c20;

pub struct Property {
    pub id: &'static str,
    pub run: fn(&mut Run),
    pub replays: fn() -> Vec<ReplayEntry>,
}

pub fn all() -> Vec<Property> {
    vec![
        Property { id: "C01", run: c01::run, replays: c01::replays },
        Property { id: "C02", run: c02::run, replays: c02::replays },
        Property { id: "C03", run: c03::run, replays: c03::replays },
        Property { id: "C04", run: c04::run, replays: c04::replays },
        Property { id: "C05", run: c05::run, replays: c05::replays },
        Property { id: "C06", run: c06::run, replays: c06::replays },
        Property { id: "C07", run: c07::run, replays: c07::replays },
        Property { id: "C08", run: c08::run, replays: c08::replays },
        Property { id: "C09", run: c09::run, replays: c09::replays },
        Property { id: "C10", run: c10::run, replays: c10::replays },
        Property { id: "C11", run: c11::run, replays: c11::replays },
        Property { id: "C12", run: c12::run, replays: c12::replays },
        Property { id: "C13", run: c13::run, replays: c13::replays },
        Property { id: "C14", run: c14::run, replays: c14::replays },
        Property { id: "C15", run: c15::run, replays: c15::replays },
        Property { id: "C16", run: c16::run, replays: c16::replays },
        Property { id: "C17", run: c17::run, replays: c17::replays },
        Property { id: "C18", run: c18::run, replays: c18::replays },
        Property { id: "C19", run: c19::run, replays: c19::replays },
        Property { id: "C20", run: c20::run, replays: c20::replays },
    ]
}

pub fn find(id: &str) -> Option<Property> {
    all().into_iter().find(|p| p.id == id)
}

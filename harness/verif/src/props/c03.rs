//! C03 — every valid external encoding of a value decodes to exactly that value; trailing
//! bytes are an error.

use crate::engine::{fp, replay_entry, CaseInfo, ReplayEntry, Run, Verdict};
use crate::gen::{arb_bigi, arb_choices, arb_f64, arb_value, classes_of, GenCfg};
use crate::terms::{denote, hex};
use crate::vfail;
use erltf::errors::DecodeError;
use proptest::prelude::*;
use refmodel::etf::{compress_stored, refdec, refenc_choices, VERSION};
use refmodel::order::has_numerically_equal_keys;
use refmodel::Value;
use serde::{Deserialize, Serialize};
use std::io::Write;

#[derive(Clone, Debug, Serialize, Deserialize)]
pub struct Case {
    pub value: Value,
    pub choices: Vec<u8>,
    /// 0 = plain, 1 = COMPRESSED (stored blocks, own writer), 2 = COMPRESSED (deflate via flate2)
    pub compress: u8,
    pub junk: Vec<u8>,
}

/// What the known map-key defect does: keys that are `==` collapse, the first key stays, the
/// last value wins (BTreeMap::insert).
pub fn collapse_model(v: &Value) -> Value {
    match v {
        Value::Tuple(e) => Value::Tuple(e.iter().map(collapse_model).collect()),
        Value::List { elems, tail } => Value::List {
            elems: elems.iter().map(collapse_model).collect(),
            tail: tail.as_ref().map(|t| Box::new(collapse_model(t))),
        },
        Value::Map(m) => {
            let mut out: Vec<(Value, Value)> = vec![];
            for (k, x) in m {
                let k = collapse_model(k);
                let x = collapse_model(x);
                if let Some(e) = out.iter_mut().find(|(k2, _)| refmodel::order::loose_eq(k2, &k)) {
                    e.1 = x;
                } else {
                    out.push((k, x));
                }
            }
            Value::Map(out)
        }
        Value::Fun { arity, uniq, index, module, old_index, old_uniq, pid, free } => Value::Fun {
            arity: *arity,
            uniq: *uniq,
            index: *index,
            module: module.clone(),
            old_index: *old_index,
            old_uniq: *old_uniq,
            pid: pid.clone(),
            free: free.iter().map(collapse_model).collect(),
        },
        other => other.clone(),
    }
}

/// Is `d` what remains of `v` after *some* groups of map keys that the library's order takes for equal were merged (at any
/// depth)?  Each entry of `d` must stand for a non-empty group of entries of `v` whose keys are pairwise loosely equal,
/// with its key taken from one member and its value from one member; the groups use up all entries of `v`.  With every
/// group a singleton this is plain equality.  (The library keeps the first key and the last value, but which keys it takes
/// for equal depends on representation details as well, e.g. on how wide a big integer arrived: any such merge is an
/// instance of the known finding, anything else is not.)
pub fn is_key_merge_of(v: &Value, d: &Value) -> bool {
    match (v, d) {
        (Value::Tuple(a), Value::Tuple(b)) => a.len() == b.len() && a.iter().zip(b).all(|(x, y)| is_key_merge_of(x, y)),
        (Value::List { elems: a, tail: ta }, Value::List { elems: b, tail: tb }) => {
            a.len() == b.len()
                && a.iter().zip(b).all(|(x, y)| is_key_merge_of(x, y))
                && match (ta, tb) {
                    (None, None) => true,
                    (Some(x), Some(y)) => is_key_merge_of(x, y),
                    _ => false,
                }
        }
        (Value::Map(mv), Value::Map(md)) => {
            // assign every entry of v to one entry of d with a loosely equal key, such that every entry of d gets a member
            // that provides its key and a member that provides its value (small maps: plain backtracking)
            if md.len() > mv.len() || mv.len() > 12 {
                return mv.len() == md.len() && v.same(d);
            }
            let cand: Vec<Vec<usize>> = mv.iter().map(|(k, _)| (0..md.len()).filter(|j| refmodel::order::loose_eq(k, &md[*j].0)).collect()).collect();
            if cand.iter().any(|c| c.is_empty()) {
                return false;
            }
            let key_ok: Vec<Vec<bool>> = mv.iter().map(|(k, _)| md.iter().map(|(kd, _)| is_key_merge_of(k, kd)).collect()).collect();
            let val_ok: Vec<Vec<bool>> = mv.iter().map(|(_, x)| md.iter().map(|(_, xd)| is_key_merge_of(x, xd)).collect()).collect();
            fn go(i: usize, cand: &[Vec<usize>], key_ok: &[Vec<bool>], val_ok: &[Vec<bool>], has_key: &mut Vec<bool>, has_val: &mut Vec<bool>) -> bool {
                if i == cand.len() {
                    return has_key.iter().all(|b| *b) && has_val.iter().all(|b| *b);
                }
                for &j in &cand[i] {
                    let (pk, pv) = (has_key[j], has_val[j]);
                    has_key[j] |= key_ok[i][j];
                    has_val[j] |= val_ok[i][j];
                    if go(i + 1, cand, key_ok, val_ok, has_key, has_val) {
                        return true;
                    }
                    has_key[j] = pk;
                    has_val[j] = pv;
                }
                false
            }
            go(0, &cand, &key_ok, &val_ok, &mut vec![false; md.len()], &mut vec![false; md.len()])
        }
        (Value::Fun { free: fa, .. }, Value::Fun { free: fb, .. }) => fa.len() == fb.len() && fa.iter().zip(fb).all(|(x, y)| is_key_merge_of(x, y)) && refmodel::order::loose_eq(v, d),
        _ => v.same(d),
    }
}

fn deflate(body: &[u8]) -> Vec<u8> {
    let mut e = flate2::write::ZlibEncoder::new(Vec::new(), flate2::Compression::default());
    e.write_all(body).unwrap();
    e.finish().unwrap()
}

pub fn build_bytes(case: &Case) -> (Vec<u8>, usize, Vec<&'static str>) {
    let (plain, nc, used) = refenc_choices(&case.value, &case.choices, true, true);
    let bytes = match case.compress {
        1 => compress_stored(&plain),
        2 => {
            let mut out = vec![VERSION, 80];
            out.extend_from_slice(&((plain.len() - 1) as u32).to_be_bytes());
            out.extend_from_slice(&deflate(&plain[1..]));
            out
        }
        _ => plain,
    };
    (bytes, nc, used)
}

pub fn oracle(case: &Case) -> Verdict {
    let v = &case.value;
    let (bytes, noncanon, used) = build_bytes(case);
    // harness self-check: the reference reader agrees with the reference writer
    if case.compress != 2 {
        match refdec(&bytes) {
            Ok(rv) if rv.same(v) => {}
            other => vfail!("harness:refenc-refdec", "reference writer/reader disagree: {:?}", other.map(|x| x.render())),
        }
    }
    let eqkeys = has_numerically_equal_keys(v);
    match erltf::decode(&bytes) {
        Ok(t) => {
            let d = denote(&t);
            if !d.same(v) {
                if eqkeys && (d.same(&collapse_model(v)) || is_key_merge_of(v, &d)) {
                    vfail!("map-keys-equal-under-==-collapse", "map with keys such as 1 and 1.0 lost an entry: got {} from {}", d.render(), v.render());
                }
                vfail!(
                    "decoded-value-differs",
                    "decode gave {} expected {} (forms used: {:?}) bytes={}",
                    d.render(),
                    v.render(),
                    used,
                    hex(&bytes)
                );
            }
        }
        Err(e) => vfail!("valid-encoding-rejected", "decode failed with {:?} for {} (forms used: {:?}) bytes={}", e, v.render(), used, hex(&bytes)),
    }
    // trailing bytes
    if !case.junk.is_empty() {
        let mut with = bytes.clone();
        with.extend_from_slice(&case.junk);
        match erltf::decode(&with) {
            Err(DecodeError::TrailingData(n)) if n == case.junk.len() => {}
            other => vfail!(
                "trailing-data-not-reported",
                "decode of term + {} junk bytes gave {:?}",
                case.junk.len(),
                other.map(|t| crate::engine::truncate(&format!("{:?}", t), 200))
            ),
        }
        // the version-less entry point and the atom-cache entry point report trailing bytes too
        if case.compress == 0 {
            match erltf::decoder::decode_raw_term(&with[1..]) {
                Err(DecodeError::TrailingData(n)) if n == case.junk.len() => {}
                other => vfail!(
                    "trailing-data-not-reported",
                    "decode_raw_term of term + {} junk bytes gave {:?}",
                    case.junk.len(),
                    other.map(|t| crate::engine::truncate(&format!("{:?}", t), 200))
                ),
            }
            // `131 Term Term junk` through the atom-cache entry point: control, payload, then junk
            let mut two = bytes.clone();
            two.extend_from_slice(&bytes[1..]);
            two.extend_from_slice(&case.junk);
            let mut cache = erltf::AtomCache::new();
            match erltf::decode_with_atom_cache(&two, &mut cache) {
                Err(DecodeError::TrailingData(n)) if n == case.junk.len() => {}
                other => vfail!(
                    "trailing-data-not-reported",
                    "decode_with_atom_cache of control + payload + {} junk bytes gave {:?}",
                    case.junk.len(),
                    other.map(|t| crate::engine::truncate(&format!("{:?}", t), 200))
                ),
            }
        }
        match erltf::decoder::decode_with_trailing(&with) {
            Ok((t, rest)) => {
                if rest != &case.junk[..] {
                    vfail!("decode-with-trailing-wrong-rest", "rest has {} bytes, expected {}", rest.len(), case.junk.len());
                }
                let d = denote(&t);
                if !d.same(v) && !(eqkeys && (d.same(&collapse_model(v)) || is_key_merge_of(v, &d))) {
                    vfail!("decoded-value-differs", "decode_with_trailing gave {} expected {}", d.render(), v.render());
                }
            }
            Err(e) => vfail!("valid-encoding-rejected", "decode_with_trailing failed {:?}", e),
        }
    }
    let mut info = if noncanon > 0 || case.compress != 0 { CaseInfo::nt(fp(&bytes)) } else { CaseInfo::trivial() };
    info.classes = classes_of(v);
    for u in used {
        let c: &'static str = match u {
            "atom" => "form:atom-alt-tag",
            "int" => "form:int-alt-width",
            "bigpad" => "form:big-zero-padded",
            "float" => "form:float-text",
            "bin" => "form:binary-as-bit-binary",
            "tuple" => "form:large-tuple",
            "idform" | "port" | "ref" => "form:legacy-or-alt-identifier",
            "local" => "form:local-ext",
            "list" | "listcut" | "emptylist" => "form:string-or-split-list",
            _ => "form:other",
        };
        if !info.classes.contains(&c) {
            info.classes.push(c);
        }
    }
    info = info.class_if(case.compress == 1, "compressed:stored").class_if(case.compress == 2, "compressed:deflate").class_if(!case.junk.is_empty(), "junk-tail").class_if(eqkeys, "map:==keys");
    Verdict::Pass(info)
}

pub fn strategy(cfg: GenCfg) -> impl Strategy<Value = Case> {
    (
        arb_value(cfg),
        arb_choices(40),
        prop_oneof![6 => Just(0u8), 1 => Just(1u8), 1 => Just(2u8)],
        prop_oneof![2 => Just(vec![]), 1 => prop::collection::vec(any::<u8>(), 1..=8)],
    )
        .prop_map(|(value, choices, compress, junk)| Case { value, choices, compress, junk })
}

/// Exhaustive per-node alternative tables: single scalar values x every choice byte class.
fn scalar_table() -> impl Strategy<Value = Case> {
    let scalar = prop_oneof![
        4 => arb_bigi().prop_map(Value::Int),
        2 => arb_f64().prop_map(Value::float),
        2 => crate::gen::arb_atom_name(true).prop_map(Value::Atom),
        1 => crate::gen::arb_pid(),
        2 => crate::gen::arb_port(),
        2 => crate::gen::arb_ref(false),
        1 => crate::gen::arb_bits(false),
    ];
    (scalar, prop::collection::vec(any::<u8>(), 6), any::<bool>()).prop_map(|(value, choices, junk)| Case {
        value,
        choices,
        compress: 0,
        junk: if junk { vec![0x6a] } else { vec![] },
    })
}

pub fn run(run: &mut Run) {
    run.rule = "values from the term space (incl. maps with numerically-equal keys of different type) encoded by an independent writer that picks, per node, among all admissible \
        encodings (small/large, legacy, text float, four atom tags incl. Latin-1 >= 0x80, STRING_EXT, split lists, PID/PORT/REFERENCE legacy and NEW_PORT forms, LOCAL_EXT, \
        COMPRESSED) with and without junk appended; non-trivial = at least one node in a form the library's own encoder never emits; distinct by bytes"
        .into();
    run.assumptions = vec![
        "refmodel::etf writer produces only encodings erl_ext_dist permits (self-checked against refmodel's reader)".into(),
        "legacy identifier tags are used only when the fields fit their narrower widths".into(),
    ];
    run.prop("scalars-all-forms", scalar_table, run.tier.pick(30_000, 1_000_000), oracle);
    run.prop("trees-all-forms", || strategy(GenCfg::std()), run.tier.pick(25_000, 1_000_000), oracle);
    run.prop(
        "trees-eq-num-keys",
        || strategy(GenCfg { eq_num_keys: true, heavy: false, ..GenCfg::std() }),
        run.tier.pick(5_000, 200_000),
        oracle,
    );
    // a valid term decodes to its value whatever the same thread was made to decode (and reject) before
    run.prop("valid-after-rejected", after_strategy, run.tier.pick(3_000, 100_000), after_oracle);
    if run.tier == crate::engine::Tier::Thorough {
        // coverage-guided byte fuzzing of the same oracle (libFuzzer, structure-aware through fuzzde); see fuzzbridge.rs
        crate::fuzzbridge::campaign(run, "c03", 3_000_000, 400);
    }
    if run.tier == crate::engine::Tier::Thorough {
        // coverage-guided byte fuzzing of the same oracle (libFuzzer, structure-aware through fuzzde); see fuzzbridge.rs
        crate::fuzzbridge::campaign(run, "decode", 3_000_000, 400);
    }
}


// ---- decoding does not depend on what the thread decoded before ------------------------------------------------

#[derive(Clone, Debug, Serialize, Deserialize)]
pub enum Junk {
    /// a valid encoding cut after `cut` bytes (every cut position, including the ones where the next term would start)
    Truncated { value: Value, cut: u16 },
    /// `k` levels of container nesting (the decoders refuse more than 256)
    Deep { kind: u8, k: u16 },
    Raw(Vec<u8>),
    /// a COMPRESSED section that must be refused: declared size off by `delta` (how 0), zlib stream cut short (1),
    /// or an inner encoding that is itself cut short (2)
    BadCompressed { value: Value, how: u8, delta: i8 },
}

pub fn compressed_form(body_with_version: &[u8], declared_delta: i64, cut_stream: bool) -> Vec<u8> {
    let body = &body_with_version[1..];
    let mut z = crate::props::c02::deflate(body);
    if cut_stream {
        z.truncate(z.len().saturating_sub(5).max(1));
    }
    let mut o = vec![131u8, 80];
    o.extend_from_slice(&((body.len() as i64 + declared_delta).max(0) as u32).to_be_bytes());
    o.extend_from_slice(&z);
    o
}

#[derive(Clone, Debug, Serialize, Deserialize)]
pub struct AfterCase {
    /// inputs decoded first (each `repeat` times) on the same thread, through both decoders
    pub before: Vec<(Junk, u8)>,
    /// then a valid term nested `depth` levels (<= 250) in containers of kind `kind`
    pub depth: u8,
    pub kind: u8,
    pub leaf: Value,
    /// the valid term travels as a COMPRESSED section
    #[serde(default)]
    pub compressed: bool,
}

pub fn junk_bytes(j: &Junk) -> Vec<u8> {
    match j {
        Junk::Truncated { value, cut } => {
            let b = refmodel::etf::refenc_canonical(value);
            let n = (*cut as usize * (b.len() + 1)) >> 16;
            b[..n.min(b.len())].to_vec()
        }
        Junk::Deep { kind, k } => crate::props::c02::bytes_of(&crate::props::c02::Case::Depth { kind: *kind, k: *k as u32 }).0,
        Junk::Raw(b) => b.clone(),
        Junk::BadCompressed { value, how, delta } => {
            let b = refmodel::etf::refenc_canonical(value);
            match how % 3 {
                0 => compressed_form(&b, if *delta == 0 { 1 } else { *delta as i64 }, false),
                1 => compressed_form(&b, 0, true),
                _ => {
                    let cut = &b[..b.len() - 1];
                    compressed_form(cut, 0, false)
                }
            }
        }
    }
}

pub fn nested(kind: u8, depth: usize, leaf: &Value) -> Value {
    let mut v = leaf.clone();
    for i in 0..depth {
        v = match kind % 4 {
            0 => Value::Tuple(vec![v]),
            1 => Value::list(vec![v]),
            2 => Value::Map(vec![(Value::int(i as i128), v)]),
            _ => Value::Tuple(vec![Value::int(1), Value::list(vec![Value::atom("x"), v])]),
        };
    }
    v
}

pub fn after_oracle(case: &AfterCase) -> Verdict {
    let mut rejected = 0usize;
    for (j, rep) in &case.before {
        let b = junk_bytes(j);
        for _ in 0..(*rep).max(1) {
            rejected += erltf::decode(&b).is_err() as usize;
            let _ = erltf::decode_borrowed(&b);
        }
    }
    // kind 3 nests two levels per step
    let depth = if case.kind % 4 == 3 { (case.depth as usize).min(250) / 2 } else { (case.depth as usize).min(250) };
    let v = nested(case.kind, depth, &case.leaf);
    let plain = refmodel::etf::refenc_canonical(&v);
    let bytes = if case.compressed { compressed_form(&plain, 0, false) } else { plain };
    let here = (erltf::decode(&bytes).map(|t| denote(&t)), erltf::decode_borrowed(&bytes).map(|t| denote(&t.to_owned())).map_err(|e| e.error));
    let b2 = bytes.clone();
    let fresh = std::thread::Builder::new()
        .stack_size(16 << 20)
        .spawn(move || erltf::decode(&b2).map(|t| denote(&t)))
        .expect("spawn")
        .join()
        .unwrap_or_else(|_| Err(erltf::DecodeError::InvalidFormat("panicked".into())));
    for (name, r) in [("decode", &here.0), ("decode_borrowed", &here.1)] {
        // the zero-copy decoder does not take COMPRESSED sections at all (nothing to borrow from)
        if case.compressed && name == "decode_borrowed" {
            continue;
        }
        match (r, &fresh) {
            (Ok(a), _) if a.same(&v) => {}
            (Ok(a), _) => vfail!("decoded-value-differs", "{name} of a {depth}-level nested term gave {}", crate::engine::truncate(&a.render(), 300)),
            (Err(e), Ok(_)) => vfail!(
                "decode-result-depends-on-earlier-decodes",
                "{name} rejected ({e:?}) a valid term nested {depth} levels after {rejected} earlier rejected inputs on the same thread; a fresh thread decodes it"
            ),
            (Err(e), Err(_)) => vfail!("valid-encoding-rejected", "{name} (and a fresh thread) rejected a valid term nested {depth} levels: {e:?}"),
        }
    }
    let info = if rejected > 0 && depth >= 8 { CaseInfo::nt(fp(&format!("{:?}", case))) } else { CaseInfo::trivial() };
    let bad_z = case.before.iter().any(|(j, _)| matches!(j, Junk::BadCompressed { .. }));
    Verdict::Pass(
        info.class_if(rejected > 0, "after-rejections")
            .class_if(depth >= 200, "nesting>=200")
            .class_if(case.compressed, "valid-term-compressed")
            .class_if(case.compressed && bad_z, "compressed-after-refused-compressed"),
    )
}

pub fn after_strategy() -> impl Strategy<Value = AfterCase> {
    let small = GenCfg { depth: 3, size: 12, heavy: false, ..GenCfg::std() };
    let junk = prop_oneof![
        4 => (arb_value(small), any::<u16>()).prop_map(|(value, cut)| Junk::Truncated { value, cut }),
        3 => (0u8..9, prop_oneof![Just(257u16), Just(300), 250u16..400, Just(2000)]).prop_map(|(kind, k)| Junk::Deep { kind, k }),
        1 => prop::collection::vec(any::<u8>(), 0..12).prop_map(|mut b| {
            if !b.is_empty() {
                b[0] = 131;
            }
            Junk::Raw(b)
        }),
        3 => (arb_value(small), 0u8..3, prop_oneof![Just(1i8), Just(-1), Just(7), Just(-3)]).prop_map(|(value, how, delta)| Junk::BadCompressed { value, how, delta }),
    ];
    (
        prop::collection::vec((junk, prop_oneof![Just(1u8), Just(3), Just(40), Just(150)]), 0..6),
        prop_oneof![Just(250u8), Just(249), Just(128), 0u8..=250],
        0u8..4,
        arb_value(GenCfg { depth: 1, size: 3, heavy: false, ..GenCfg::std() }),
        prop::bool::weighted(0.4),
    )
        .prop_map(|(before, depth, kind, leaf, compressed)| AfterCase { before, depth, kind, leaf, compressed })
}

pub fn replays() -> Vec<ReplayEntry> {
    vec![replay_entry("fuzz:c03", crate::fuzzbridge::eval_input), replay_entry("fuzz:decode", crate::fuzzbridge::eval_input), 
        replay_entry("scalars-all-forms", oracle),
        replay_entry("trees-all-forms", oracle),
        replay_entry("trees-eq-num-keys", oracle),
        replay_entry("valid-after-rejected", after_oracle),
    ]
}

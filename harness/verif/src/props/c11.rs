//! C11 — term comparison is a lawful total preorder consistent with equality and hashing;
//! the zero-copy term type orders every pair exactly as the owned type does.

use crate::engine::{fp, replay_entry, CaseInfo, ReplayEntry, Run, Verdict};
use crate::gen::{arb_choices, arb_value, tweak, GenCfg};
use crate::terms::lift;
use crate::universe::{corner_values, repr_variants, Item};
use erltf::{BorrowedTerm, OwnedTerm};
use proptest::prelude::*;
use refmodel::etf::VecPicker;
use std::cmp::Ordering;
use std::collections::{BTreeMap, HashMap, HashSet};
use std::hash::{Hash, Hasher};

/// second, structurally different hasher (FNV-1a over the written bytes)
struct Fnv(u64);
impl Hasher for Fnv {
    fn finish(&self) -> u64 {
        self.0
    }
    fn write(&mut self, bytes: &[u8]) {
        for b in bytes {
            self.0 ^= *b as u64;
            self.0 = self.0.wrapping_mul(0x100000001b3);
        }
    }
}

fn h1<T: Hash>(t: &T) -> u64 {
    let mut h = std::collections::hash_map::DefaultHasher::new();
    t.hash(&mut h);
    h.finish()
}
fn h2<T: Hash>(t: &T) -> u64 {
    let mut h = Fnv(0xcbf29ce484222325);
    t.hash(&mut h);
    h.finish()
}

pub struct LawFail {
    pub idx: Vec<usize>,
    pub signature: &'static str,
    pub detail: String,
}

fn variant_tag(t: &OwnedTerm) -> u8 {
    match t {
        OwnedTerm::Atom(_) => 0,
        OwnedTerm::Integer(_) => 1,
        OwnedTerm::Float(_) => 2,
        OwnedTerm::Pid(_) => 3,
        OwnedTerm::Port(_) => 4,
        OwnedTerm::Reference(_) => 5,
        OwnedTerm::Binary(_) => 6,
        OwnedTerm::BitBinary { .. } => 7,
        OwnedTerm::String(_) => 8,
        OwnedTerm::List(_) => 9,
        OwnedTerm::ImproperList { .. } => 10,
        OwnedTerm::Map(_) => 11,
        OwnedTerm::Tuple(_) => 12,
        OwnedTerm::BigInt(_) => 13,
        OwnedTerm::ExternalFun(_) => 14,
        OwnedTerm::InternalFun(_) => 15,
        OwnedTerm::Nil => 16,
    }
}

fn rank(t: &OwnedTerm) -> u8 {
    match t {
        OwnedTerm::Integer(_) | OwnedTerm::BigInt(_) | OwnedTerm::Float(_) => 0,
        OwnedTerm::Atom(_) => 1,
        OwnedTerm::Reference(_) => 2,
        OwnedTerm::ExternalFun(_) | OwnedTerm::InternalFun(_) => 3,
        OwnedTerm::Port(_) => 4,
        OwnedTerm::Pid(_) => 5,
        OwnedTerm::Tuple(_) => 6,
        OwnedTerm::Map(_) => 7,
        OwnedTerm::Nil | OwnedTerm::List(_) | OwnedTerm::ImproperList { .. } => 8,
        _ => 9,
    }
}

fn show(t: &OwnedTerm) -> String {
    crate::engine::truncate(&format!("{:?}", t), 300)
}

/// Check all laws on a universe. Returns (pairs checked, non-trivial pair fingerprints).
pub fn check_laws(terms: &[OwnedTerm], nontrivial: &mut HashSet<u64>) -> Result<u64, LawFail> {
    let n = terms.len();
    let mut c = vec![Ordering::Equal; n * n];
    for i in 0..n {
        for j in 0..n {
            c[i * n + j] = terms[i].cmp(&terms[j]);
        }
    }
    let fps: Vec<u64> = terms.iter().map(|t| h1(&format!("{:?}", t))).collect();
    let borrowed: Vec<BorrowedTerm> = terms.iter().map(BorrowedTerm::from).collect();
    let hs1: Vec<u64> = terms.iter().map(h1).collect();
    let hs2: Vec<u64> = terms.iter().map(h2).collect();
    for i in 0..n {
        for j in 0..n {
            let cij = c[i * n + j];
            if cij != c[j * n + i].reverse() {
                return Err(LawFail {
                    idx: vec![i, j],
                    signature: "antisymmetry",
                    detail: format!("cmp(a,b)={:?} but cmp(b,a)={:?}; a={} b={}", cij, c[j * n + i], show(&terms[i]), show(&terms[j])),
                });
            }
            if terms[i] == terms[j] {
                if cij != Ordering::Equal {
                    return Err(LawFail {
                        idx: vec![i, j],
                        signature: "eq-but-cmp-not-equal",
                        detail: format!("a == b but cmp = {:?}; a={} b={}", cij, show(&terms[i]), show(&terms[j])),
                    });
                }
                if hs1[i] != hs1[j] || hs2[i] != hs2[j] {
                    return Err(LawFail {
                        idx: vec![i, j],
                        signature: "eq-but-hash-differs",
                        detail: format!("a == b but hashes differ; a={} b={}", show(&terms[i]), show(&terms[j])),
                    });
                }
            }
            let bc = borrowed[i].cmp(&borrowed[j]);
            if bc != cij {
                return Err(LawFail {
                    idx: vec![i, j],
                    signature: "borrowed-order-differs-from-owned",
                    detail: format!("owned cmp {:?}, borrowed cmp {:?}; a={} b={}", cij, bc, show(&terms[i]), show(&terms[j])),
                });
            }
            if i < j && rank(&terms[i]) == rank(&terms[j]) && variant_tag(&terms[i]) != variant_tag(&terms[j]) {
                nontrivial.insert(fp(&(fps[i].min(fps[j]), fps[i].max(fps[j]))));
            } else if i < j && rank(&terms[i]) == rank(&terms[j]) && cij != Ordering::Equal {
                nontrivial.insert(fp(&(fps[i].min(fps[j]), fps[i].max(fps[j]), 1)));
            }
        }
    }
    // transitivity of <= over all triples, via bitset rows: le[i] = { k | i <= k }
    let words = n.div_ceil(64);
    let mut le = vec![0u64; n * words];
    for i in 0..n {
        for k in 0..n {
            if c[i * n + k] != Ordering::Greater {
                le[i * words + k / 64] |= 1u64 << (k % 64);
            }
        }
    }
    for i in 0..n {
        for j in 0..n {
            if c[i * n + j] != Ordering::Greater {
                // need le[j] ⊆ le[i]
                for w in 0..words {
                    let missing = le[j * words + w] & !le[i * words + w];
                    if missing != 0 {
                        let k = w * 64 + missing.trailing_zeros() as usize;
                        return Err(LawFail {
                            idx: vec![i, j, k],
                            signature: "transitivity",
                            detail: format!(
                                "a<=b ({:?}) and b<=c ({:?}) but cmp(a,c)={:?}; a={} b={} c={}",
                                c[i * n + j],
                                c[j * n + k],
                                c[i * n + k],
                                show(&terms[i]),
                                show(&terms[j]),
                                show(&terms[k])
                            ),
                        });
                    }
                }
            }
        }
    }
    // derived container behaviour
    let mut sorted: Vec<usize> = (0..n).collect();
    sorted.sort_by(|&x, &y| terms[x].cmp(&terms[y]));
    for w in sorted.windows(2) {
        if c[w[0] * n + w[1]] == Ordering::Greater {
            return Err(LawFail {
                idx: vec![w[0], w[1]],
                signature: "sort-output-not-ordered",
                detail: format!("sort placed {} before {}", show(&terms[w[0]]), show(&terms[w[1]])),
            });
        }
    }
    let mut bt: BTreeMap<OwnedTerm, usize> = BTreeMap::new();
    let mut hm: HashMap<OwnedTerm, usize> = HashMap::new();
    for (i, t) in terms.iter().enumerate() {
        bt.entry(t.clone()).or_insert(i);
        hm.entry(t.clone()).or_insert(i);
    }
    for (i, t) in terms.iter().enumerate() {
        match bt.get(t) {
            Some(&k) if c[i * n + k] == Ordering::Equal => {}
            other => {
                return Err(LawFail {
                    idx: vec![i],
                    signature: "btreemap-loses-key",
                    detail: format!("BTreeMap lookup of an inserted key gave {:?}; key={}", other, show(t)),
                })
            }
        }
        match hm.get(t) {
            Some(&k) if terms[k] == *t => {}
            other => {
                return Err(LawFail {
                    idx: vec![i],
                    signature: "hashmap-loses-key",
                    detail: format!("HashMap lookup of an inserted key gave {:?}; key={}", other, show(t)),
                })
            }
        }
    }
    // number of classes under cmp==Equal must equal BTreeMap size
    let mut classes = 0;
    for i in 0..n {
        if !(0..i).any(|j| c[i * n + j] == Ordering::Equal) {
            classes += 1;
        }
    }
    if classes != bt.len() {
        return Err(LawFail {
            idx: (0..n.min(6)).collect(),
            signature: "btreemap-size-differs-from-equivalence-classes",
            detail: format!("{} classes under cmp==Equal but BTreeMap holds {}", classes, bt.len()),
        });
    }
    Ok((n * n) as u64)
}

pub fn lift_items(items: &[Item]) -> Vec<OwnedTerm> {
    items
        .iter()
        .filter_map(|it| {
            let mut pk = VecPicker::new(&it.repr);
            lift(&it.value, &mut pk)
        })
        .collect()
}

pub fn universe_oracle(items: &Vec<Item>) -> Verdict {
    let terms = lift_items(items);
    let mut nt = HashSet::new();
    match check_laws(&terms, &mut nt) {
        Ok(_) => {
            let mut info = if nt.is_empty() { CaseInfo::trivial() } else { CaseInfo::nt(fp(&nt.iter().copied().min())) };
            info = info.class_if(nt.len() >= 10, "universe:>=10-mixed-pairs");
            Verdict::Pass(info)
        }
        Err(f) => Verdict::Fail { signature: f.signature.to_string(), detail: f.detail },
    }
}

fn random_universe() -> impl Strategy<Value = Vec<Item>> {
    let item = (arb_value(GenCfg { heavy: false, depth: 3, size: 12, ..GenCfg::std() }), arb_choices(8));
    (prop::collection::vec(item, 2..12), prop::collection::vec((any::<prop::sample::Index>(), arb_choices(6), arb_choices(6)), 0..24)).prop_map(
        |(base, derived)| {
            let mut items: Vec<Item> = base.into_iter().map(|(value, repr)| Item { value, repr }).collect();
            for (ix, tw, repr) in derived {
                let src = items[ix.index(items.len())].value.clone();
                let mut pk = VecPicker::new(&tw);
                // neighbour of an existing item, or the same value in another representation
                let value = if tw.first().map_or(false, |b| *b < 40) { src } else { tweak(&src, &mut pk) };
                items.push(Item { value, repr });
            }
            items
        },
    )
}

pub fn run(run: &mut Run) {
    run.rule = "exhaustive all-pairs/all-triples law check over a corner-case universe of terms (every numeric representation around 2^53/2^63/2^64, \
        equal-length bigints, -0.0/0.0, binaries vs bit-strings, proper vs improper lists, funs differing in arity, pids with/without raw bytes, compounds), \
        plus random universes of neighbouring terms; non-trivial = a pair of the same type rank with different variants or unequal values, distinct by the pair"
        .into();
    run.assumptions = vec!["well-formed terms only: finite floats, minimal big-integer digits, zero padding bits in bit-strings".into()];
    // (a) corner universe, exhaustive
    let t0 = std::time::Instant::now();
    let items: Vec<Item> = corner_values().iter().flat_map(repr_variants).collect();
    let terms = lift_items(&items);
    let mut nt = HashSet::new();
    // a comparison that panics is a violation of the laws like any other (and must not take the check down with it)
    let res = match crate::engine::no_panic(|| check_laws(&terms, &mut nt)) {
        Ok(r) => r,
        Err(msg) => {
            run.custom("corner-universe", &Vec::<Item>::new(), Verdict::Fail { signature: "comparison-panics".into(), detail: format!("comparing two terms of the corner universe panicked: {msg}") });
            return;
        }
    };
    let n = terms.len() as u64;
    run.stats.evaluations += n * n + n * n * n;
    match res {
        Ok(_) => {
            run.stats.nontrivial.extend(nt);
            run.exhaustive_parts.push("corner-universe".into());
            for k in [3usize, 40, 200] {
                if let Some(t) = terms.get(k) {
                    run.stats.samples.push(show(t));
                }
            }
        }
        Err(f) => {
            let sub: Vec<Item> = f.idx.iter().map(|&i| items[i].clone()).collect();
            run.custom("corner-universe", &sub, Verdict::Fail { signature: f.signature.to_string(), detail: f.detail });
        }
    }
    run.note_campaign(serde_json::json!({"name": "corner-universe", "kind": "exhaustive", "terms": n, "pairs": n*n, "triples": n*n*n,
        "wall_s": t0.elapsed().as_secs_f64()}));
    // (b) random universes
    run.prop("random-universe", random_universe, run.tier.pick(3000, 150_000), universe_oracle);
    // (c) big integers wider than necessary: terms the decoders produce from SMALL_BIG_EXT / LARGE_BIG_EXT with zero digits
    // above the most significant one (and that the repository's own tests construct); a separate universe because its
    // failures are a recorded finding (C11-F1)
    let mut n_wide = 0usize;
    for encs in nonminimal_universes() {
        run.custom("wider-than-necessary-big-integers", &encs, crate::engine::guarded(|| nonminimal_oracle(&encs)));
        n_wide += 1;
    }
    run.note_campaign(serde_json::json!({"name": "wider-than-necessary-big-integers", "kind": "enumerated", "evaluations": n_wide}));
}

/// universes as lists of encodings (hex), decoded by the library itself
fn nonminimal_universes() -> Vec<Vec<String>> {
    let sb = |neg: bool, digits: &[u8]| -> String {
        let mut b = vec![131u8, 110, digits.len() as u8, neg as u8];
        b.extend_from_slice(digits);
        b.iter().map(|x| format!("{x:02x}")).collect()
    };
    let fl = |f: f64| -> String { format!("8346{:016x}", f.to_bits()) };
    let zero = [ "836100".to_string(), sb(false, &[]), sb(false, &[0]), sb(false, &[0, 0, 0]), sb(true, &[]), sb(true, &[0]), fl(0.0) ];
    let five = [ "836105".to_string(), sb(false, &[5]), sb(false, &[5, 0]), sb(false, &[5, 0, 0, 0]), fl(5.0), sb(true, &[5, 0]), sb(true, &[5]), "8362fffffffb".to_string() ];
    let big = [ sb(false, &[0, 0, 0, 0, 0, 0, 0, 0, 1]), sb(false, &[0, 0, 0, 0, 0, 0, 0, 0, 1, 0, 0]), sb(false, &[255, 255, 255, 255, 255, 255, 255, 255, 0]), sb(false, &[255, 255, 255, 255, 255, 255, 255, 255]), fl(18446744073709551616.0) ];
    let clean = |v: &[String]| v.to_vec();
    vec![clean(&zero), clean(&five), clean(&big), [clean(&zero), clean(&five), clean(&big)].concat()]
}

fn nonminimal_oracle(encs: &[String]) -> Verdict {
    let terms: Vec<OwnedTerm> = encs.iter().filter_map(|h| erltf::decode(&crate::fuzzbridge::unhex(h)).ok()).collect();
    if terms.len() != encs.len() {
        return Verdict::Fail { signature: "valid-encoding-rejected".into(), detail: format!("{} of {} big-integer encodings decoded", terms.len(), encs.len()) };
    }
    let mut nt = HashSet::new();
    match check_laws(&terms, &mut nt) {
        Ok(_) => Verdict::Pass(CaseInfo::nt(fp(&encs)).class("wider-than-necessary-big-integers")),
        Err(f) => Verdict::Known {
            signature: "non-minimal-big-integers-ordered-by-length".into(),
            detail: format!("{}: {}", f.signature, f.detail),
            info: CaseInfo::nt(fp(&encs)).class("wider-than-necessary-big-integers"),
        },
    }
}

pub fn replays() -> Vec<ReplayEntry> {
    vec![replay_entry("corner-universe", universe_oracle), replay_entry("random-universe", universe_oracle), replay_entry("wider-than-necessary-big-integers", |e: &Vec<String>| nonminimal_oracle(e))]
}

//! C09 — fragment reassembly returns the original message once, in any arrival order.

use crate::engine::{fp, replay_entry, CaseInfo, ReplayEntry, Run, Verdict};
use crate::vfail;
use edp_client::fragmentation::FragmentAssembler;
use proptest::prelude::*;
use serde::{Deserialize, Serialize};
use std::collections::{BTreeMap, BTreeSet};
use std::time::Duration;

#[derive(Clone, Debug, Serialize, Deserialize, PartialEq)]
pub struct SeqSpec {
    pub seq_id: u64,
    /// fragments in the order the sender emits them: frags[0] is the header fragment (numbered
    /// n = frags.len()), frags[k] is the continuation numbered n-k
    pub frags: Vec<Vec<u8>>,
    pub cache: Option<Vec<u8>>,
}

#[derive(Clone, Debug, Serialize, Deserialize, PartialEq)]
pub enum Ev {
    Frag { seq: usize, idx: usize },
    /// a continuation with an id outside 1..=n (0, n+1, huge)
    Bogus { seq: usize, id: u64, len: u8 },
}

#[derive(Clone, Debug, Serialize, Deserialize, PartialEq)]
pub struct Case {
    pub seqs: Vec<SeqSpec>,
    pub events: Vec<Ev>,
    pub expire: bool,
}

#[derive(Default, Clone)]
struct MSeq {
    total: Option<u64>,
    got: BTreeSet<u64>,
    junk_only: bool,
}

fn original(s: &SeqSpec) -> Vec<u8> {
    let mut o = s.cache.clone().unwrap_or_default();
    for f in &s.frags {
        o.extend_from_slice(f);
    }
    o
}

/// what the known ordering defect produces: fragments concatenated by ascending fragment id
fn ascending(s: &SeqSpec) -> Vec<u8> {
    let mut o = s.cache.clone().unwrap_or_default();
    for f in s.frags.iter().rev() {
        o.extend_from_slice(f);
    }
    o
}

pub fn oracle(case: &Case) -> Verdict {
    let mut asm = if case.expire { FragmentAssembler::with_timeout(Duration::from_nanos(0)) } else { FragmentAssembler::new() };
    let mut model: BTreeMap<u64, MSeq> = BTreeMap::new();
    let mut delivered: BTreeMap<usize, usize> = BTreeMap::new();
    let mut known_order_hit = false;
    let mut saw_dup = false;
    let mut non_descending = false;
    let mut last_idx: BTreeMap<usize, usize> = BTreeMap::new();
    for (step, ev) in case.events.iter().enumerate() {
        let (seq, got, expect_complete): (usize, Option<Vec<u8>>, bool) = match ev {
            Ev::Frag { seq, idx } => {
                let s = &case.seqs[*seq];
                let n = s.frags.len() as u64;
                if *idx >= s.frags.len() {
                    return Verdict::Pass(CaseInfo::trivial());
                }
                let id = n - *idx as u64;
                let m = model.entry(s.seq_id).or_default();
                if let Some(&l) = last_idx.get(seq) {
                    if *idx < l {
                        non_descending = true;
                    }
                }
                last_idx.insert(*seq, *idx);
                let got = if *idx == 0 {
                    m.total = Some(n);
                    // ids beyond n buffered earlier are discarded
                    m.got.retain(|g| *g >= 1 && *g <= n);
                    asm.start_fragment(s.seq_id, n, s.cache.clone(), s.frags[0].clone())
                } else {
                    asm.add_fragment(s.seq_id, id, s.frags[*idx].clone())
                };
                if !m.got.insert(id) {
                    saw_dup = true;
                }
                m.junk_only = false;
                let complete = m.total.map_or(false, |t| (1..=t).all(|i| m.got.contains(&i)));
                if complete {
                    model.remove(&s.seq_id);
                }
                (*seq, got, complete)
            }
            Ev::Bogus { seq, id, len } => {
                let s = &case.seqs[*seq];
                let n = s.frags.len() as u64;
                if *id >= 1 && *id <= n {
                    return Verdict::Pass(CaseInfo::trivial());
                }
                let existed = model.contains_key(&s.seq_id);
                let m = model.entry(s.seq_id).or_default();
                if !existed {
                    m.junk_only = true;
                }
                // before the header an id > n cannot be told from a real one: it is buffered, then dropped
                let got = asm.add_fragment(s.seq_id, *id, vec![0xEE; *len as usize]);
                (*seq, got, false)
            }
        };
        match (got, expect_complete) {
            (None, false) => {}
            (Some(data), true) => {
                let s = &case.seqs[seq];
                *delivered.entry(seq).or_insert(0) += 1;
                if data == original(s) {
                } else if data == ascending(s) {
                    known_order_hit = true;
                } else {
                    vfail!(
                        "reassembled-data-wrong",
                        "step {step}: sequence {} returned {} bytes that are neither the original nor its fragment-reversed form: {:?} (fragments {:?})",
                        s.seq_id,
                        data.len(),
                        crate::engine::truncate(&format!("{:?}", data), 200),
                        s.frags
                    );
                }
            }
            (Some(data), false) => {
                vfail!(
                    "delivered-while-incomplete-or-twice",
                    "step {step} ({:?}): assembler returned a {}-byte message although the model says the sequence is not complete now",
                    ev,
                    data.len()
                );
            }
            (None, true) => {
                vfail!("complete-but-not-delivered", "step {step} ({:?}): last missing fragment arrived but nothing was returned", ev);
            }
        }
        // bookkeeping after every step
        let incomplete_real = model.values().filter(|m| !m.junk_only).count();
        let incomplete_all = model.len();
        let pc = asm.pending_count();
        if pc < incomplete_real || pc > incomplete_all {
            vfail!(
                "pending-count-wrong",
                "step {step} ({:?}): pending_count() = {pc}, model has {incomplete_real} incomplete sequences (+{} that only saw out-of-range ids)",
                ev,
                incomplete_all - incomplete_real
            );
        }
    }
    // expiry
    let before = asm.pending_count();
    if case.expire {
        std::thread::sleep(Duration::from_millis(1));
        let dropped = asm.cleanup_expired();
        if asm.pending_count() != 0 || dropped != before {
            vfail!("expired-sequences-retained", "timeout 0: cleanup_expired dropped {dropped} of {before}, {} left", asm.pending_count());
        }
    } else {
        let dropped = asm.cleanup_expired();
        if dropped != 0 || asm.pending_count() != before {
            vfail!("unexpired-sequences-dropped", "30 s timeout: cleanup_expired dropped {dropped}");
        }
    }
    let multi = case.seqs.len() >= 2;
    let n_max = case.seqs.iter().map(|s| s.frags.len()).max().unwrap_or(0);
    let nontrivial = (n_max >= 2 && non_descending) || saw_dup || multi;
    let info = if nontrivial { CaseInfo::nt(fp(&format!("{:?}", case))) } else { CaseInfo::trivial() };
    let info = info
        .class_if(saw_dup, "duplicate")
        .class_if(multi, "interleaved-sequences")
        .class_if(non_descending, "out-of-order")
        .class_if(case.events.iter().any(|e| matches!(e, Ev::Bogus { .. })), "out-of-range-id")
        .class_if(case.expire, "expiry")
        .class_if(n_max == 1, "single-fragment");
    if known_order_hit {
        return Verdict::Known {
            signature: "reassembly-concatenates-ascending-fragment-id".into(),
            detail: format!(
                "message returned with its fragments in ascending-id order (last fragment's data first), e.g. fragments {:?}",
                case.seqs[0].frags
            ),
            info,
        };
    }
    Verdict::Pass(info)
}

fn perms(n: usize) -> Vec<Vec<usize>> {
    fn rec(cur: &mut Vec<usize>, used: &mut Vec<bool>, n: usize, out: &mut Vec<Vec<usize>>) {
        if cur.len() == n {
            out.push(cur.clone());
            return;
        }
        for i in 0..n {
            if !used[i] {
                used[i] = true;
                cur.push(i);
                rec(cur, used, n, out);
                cur.pop();
                used[i] = false;
            }
        }
    }
    let mut out = vec![];
    rec(&mut vec![], &mut vec![false; n], n, &mut out);
    out
}

fn mk_frags(n: usize, style: u8, base: u8) -> Vec<Vec<u8>> {
    // pairwise distinct bytes so that order errors show
    (0..n)
        .map(|k| {
            let len = match style {
                0 => 1,
                1 => (k % 3) + 1,
                2 => {
                    if k % 2 == 0 {
                        0
                    } else {
                        2
                    }
                }
                _ => 3,
            };
            (0..len).map(|j| base.wrapping_add((k * 7 + j) as u8)).collect()
        })
        .collect()
}

/// all n! arrival orders for n <= max_n, x cut styles, x one duplicate at every later position (n <= dup_n)
fn exhaustive(max_n: usize, dup_n: usize) -> Vec<Case> {
    let mut out = vec![];
    for n in 1..=max_n {
        for style in 0..3u8 {
            let frags = mk_frags(n, style, 10);
            if n >= 2 && style == 2 && frags.iter().all(|f| f.is_empty()) {
                continue;
            }
            for p in perms(n) {
                let events: Vec<Ev> = p.iter().map(|&i| Ev::Frag { seq: 0, idx: i }).collect();
                out.push(Case { seqs: vec![SeqSpec { seq_id: 7, frags: frags.clone(), cache: None }], events: events.clone(), expire: false });
                if n <= dup_n && style == 1 {
                    // duplicate of the fragment at position a re-sent at position b > a
                    for a in 0..n {
                        for b in (a + 1)..=n {
                            let mut e2 = events.clone();
                            e2.insert(b, events[a].clone());
                            out.push(Case { seqs: vec![SeqSpec { seq_id: u64::MAX, frags: frags.clone(), cache: None }], events: e2, expire: false });
                        }
                    }
                    // an out-of-range id at every position
                    for b in 0..=n {
                        for id in [0u64, n as u64 + 1, u64::MAX] {
                            let mut e2 = events.clone();
                            e2.insert(b, Ev::Bogus { seq: 0, id, len: 2 });
                            out.push(Case { seqs: vec![SeqSpec { seq_id: 1, frags: frags.clone(), cache: None }], events: e2, expire: false });
                        }
                    }
                }
            }
        }
    }
    // two interleaved sequences, all interleavings of their (fixed) orders for small n
    for (n1, n2) in [(2usize, 2usize), (3, 2), (2, 3), (3, 3)] {
        for o1 in perms(n1) {
            for o2 in perms(n2) {
                // all merges
                let total = n1 + n2;
                for mask in 0u32..(1 << total) {
                    if mask.count_ones() as usize != n1 {
                        continue;
                    }
                    let (mut i1, mut i2) = (0, 0);
                    let mut events = vec![];
                    for b in 0..total {
                        if mask & (1 << b) != 0 {
                            events.push(Ev::Frag { seq: 0, idx: o1[i1] });
                            i1 += 1;
                        } else {
                            events.push(Ev::Frag { seq: 1, idx: o2[i2] });
                            i2 += 1;
                        }
                    }
                    out.push(Case {
                        seqs: vec![
                            SeqSpec { seq_id: 0, frags: mk_frags(n1, 1, 20), cache: None },
                            SeqSpec { seq_id: 1 << 63, frags: mk_frags(n2, 1, 120), cache: Some(vec![1, 2]) },
                        ],
                        events,
                        expire: false,
                    });
                }
            }
        }
    }
    out
}

pub fn random_case() -> impl Strategy<Value = Case> {
    let seq = (
        prop_oneof![Just(0u64), Just(1), Just(u64::MAX), any::<u64>()],
        prop_oneof![6 => 1usize..8, 2 => 8usize..40, 1 => 40usize..65],
        0u8..4,
        any::<u8>(),
        prop::option::weighted(0.2, prop::collection::vec(any::<u8>(), 0..4)),
    )
        .prop_map(|(seq_id, n, style, base, cache)| SeqSpec { seq_id, frags: mk_frags(n, style, base), cache });
    (prop::collection::vec(seq, 1..=4), prop::collection::vec((any::<u8>(), any::<u16>(), any::<u64>()), 0..30), any::<u64>(), prop::bool::weighted(0.06))
        .prop_map(|(mut seqs, extras, shuffle_seed, expire)| {
            // distinct sequence ids
            for i in 0..seqs.len() {
                for j in 0..i {
                    if seqs[i].seq_id == seqs[j].seq_id {
                        seqs[i].seq_id = seqs[i].seq_id.wrapping_add(1 + i as u64 * 1000);
                    }
                }
            }
            let mut events: Vec<Ev> = vec![];
            for (si, s) in seqs.iter().enumerate() {
                for k in 0..s.frags.len() {
                    events.push(Ev::Frag { seq: si, idx: k });
                }
            }
            // deterministic shuffle (xorshift) — choices all derive from the generated seed
            let mut x = shuffle_seed | 1;
            let mut next = move || {
                x ^= x << 13;
                x ^= x >> 7;
                x ^= x << 17;
                x
            };
            // partial shuffle intensity: sometimes nearly ordered, sometimes fully random
            let swaps = match next() % 4 {
                0 => 0,
                1 => 2,
                _ => events.len() * 2,
            };
            for _ in 0..swaps {
                let (a, b) = ((next() % events.len() as u64) as usize, (next() % events.len() as u64) as usize);
                events.swap(a, b);
            }
            for (kind, pos, id) in extras {
                let si = (kind as usize) % seqs.len();
                let n = seqs[si].frags.len();
                let at = (pos as usize * (events.len() + 1)) >> 16;
                match kind % 5 {
                    0 | 1 | 2 => {
                        // duplicate of some fragment of that sequence
                        events.insert(at, Ev::Frag { seq: si, idx: (id % n as u64) as usize });
                    }
                    3 => events.insert(at, Ev::Bogus { seq: si, id: [0, n as u64 + 1, n as u64 + 2, u64::MAX][(id % 4) as usize], len: (id % 5) as u8 }),
                    _ => {}
                }
            }
            Case { seqs, events, expire }
        })
}

#[derive(Clone, Debug, Serialize, Deserialize)]
pub struct BigCount {
    pub n: u64,
}

/// a message in very many fragments (the protocol sets no limit below 2^64)
pub fn big_oracle(c: &BigCount) -> Verdict {
    let mut asm = FragmentAssembler::new();
    let n = c.n;
    let mut out = asm.start_fragment(3u64, n, None, vec![(n % 251) as u8]);
    let mut returned = 0;
    for id in (1..n).rev() {
        if out.is_some() {
            returned += 1;
        }
        out = asm.add_fragment(3u64, id, vec![(id % 251) as u8]);
    }
    match out {
        Some(data) if returned == 0 => {
            let want: Vec<u8> = (1..=n).rev().map(|i| (i % 251) as u8).collect();
            let asc: Vec<u8> = (1..=n).map(|i| (i % 251) as u8).collect();
            if data == want {
                Verdict::Pass(CaseInfo::nt(fp(&n)).class("many-fragments"))
            } else if data == asc {
                return Verdict::Known {
                    signature: "reassembly-concatenates-ascending-fragment-id".into(),
                    detail: format!("{} fragments returned in ascending-id order", n),
                    info: CaseInfo::nt(fp(&n)).class("many-fragments"),
                };
            } else {
                vfail!("reassembled-data-wrong", "{} fragments: wrong data ({} bytes)", n, data.len());
            }
        }
        _ => vfail!("many-fragments-never-complete", "a message of {} one-byte fragments, all delivered, was never returned (pending_count = {})", n, asm.pending_count()),
    }
}

// ---- very many sequences in flight at once ---------------------------------------------------------------------------------

#[derive(Clone, Debug, Serialize, Deserialize)]
pub struct ManySeq {
    pub n: u32,
    /// the continuation of every sequence arrives before its header
    pub cont_first: bool,
}

/// `n` two-fragment messages are all begun before any of them is finished (a busy connection, or a peer that interleaves):
/// every one of them completes when its second fragment arrives, and nothing is left behind
pub fn many_seq_oracle(c: &ManySeq) -> Verdict {
    let mut asm = FragmentAssembler::new();
    let hdr = |i: u32| vec![(i % 251) as u8, 0xA1];
    let cont = |i: u32| vec![0xB2, (i % 241) as u8, (i >> 8) as u8];
    let seq = |i: u32| 1_000_000u64 + i as u64 * 3;
    for i in 0..c.n {
        let r = if c.cont_first { asm.add_fragment(seq(i), 1, cont(i)) } else { asm.start_fragment(seq(i), 2, None, hdr(i)) };
        if r.is_some() {
            vfail!("incomplete-sequence-returned", "sequence #{i} of {}: a message was returned after one of its two fragments", c.n);
        }
    }
    let mut known = 0u32;
    for i in 0..c.n {
        let r = if c.cont_first { asm.start_fragment(seq(i), 2, None, hdr(i)) } else { asm.add_fragment(seq(i), 1, cont(i)) };
        let want = [hdr(i), cont(i)].concat();
        let asc = [cont(i), hdr(i)].concat();
        match r {
            Some(data) if data == want => {}
            Some(data) if data == asc => known += 1,
            Some(data) => vfail!("reassembled-data-wrong", "sequence #{i} of {} in flight: {:?}", c.n, data),
            None => vfail!(
                "sequence-lost-among-many",
                "with {} sequences in flight ({} first), sequence #{i} got both its fragments and was never returned (pending_count = {})",
                c.n,
                if c.cont_first { "continuations" } else { "headers" },
                asm.pending_count()
            ),
        }
    }
    if asm.pending_count() != 0 {
        vfail!("completed-sequences-still-held", "{} sequences are still held after all {} completed", asm.pending_count(), c.n);
    }
    let info = CaseInfo::nt(fp(&(c.n, c.cont_first))).class("many-sequences-in-flight");
    if known > 0 {
        return Verdict::Known { signature: "reassembly-concatenates-ascending-fragment-id".into(), detail: format!("{known} of {} two-fragment messages returned in ascending-id order", c.n), info };
    }
    Verdict::Pass(info)
}

// ---- expiry: every fragment of a sequence, also one that arrives before the header, keeps the sequence alive -------------

#[derive(Clone, Debug, Serialize, Deserialize)]
pub struct ExpiryCase {
    /// position of the header fragment among the arrivals (0 = first ... n-1 = last)
    pub header_at: u8,
    pub n: u8,
}

/// Real time is involved (the assembler reads the system clock), so the premises are *measured*: the verdict is only
/// drawn when the measured gaps make the expected outcome certain, whatever the machine's load did to the sleeps.
pub fn expiry_oracle(c: &ExpiryCase) -> Verdict {
    let n = 4 + (c.n as usize % 3);
    let header_at = c.header_at as usize % n;
    let timeout = Duration::from_millis(900);
    let gap = Duration::from_millis(400);
    let margin = Duration::from_millis(100);
    let mut asm = FragmentAssembler::with_timeout(timeout);
    let frags = mk_frags(n, 3, 40);
    // arrival order: continuations in protocol order, the header inserted at `header_at`
    let mut order: Vec<usize> = (1..n).collect();
    order.insert(header_at, 0);
    let mut delivered = None;
    for (step, &idx) in order.iter().enumerate() {
        let before = std::time::Instant::now();
        let r = if idx == 0 { asm.start_fragment(5u64, n as u64, None, frags[0].clone()) } else { asm.add_fragment(5u64, (n - idx) as u64, frags[idx].clone()) };
        if r.is_some() {
            delivered = r;
        }
        if step + 1 < order.len() {
            std::thread::sleep(gap);
            let _ = asm.cleanup_expired();
            let since_last = before.elapsed();
            if since_last >= timeout - margin {
                // the machine stalled: the premise "younger than the timeout" cannot be vouched for
                return Verdict::Pass(CaseInfo::trivial().class("expiry:premise-not-met(machine stalled)"));
            }
            if asm.pending_count() == 0 {
                vfail!(
                    "active-sequence-expired",
                    "header at position {header_at} of {n}: fragment #{step} was received {:?} ago (timeout {:?}) and cleanup_expired removed the sequence",
                    since_last,
                    timeout
                );
            }
        }
    }
    match delivered {
        Some(_) => Verdict::Pass(CaseInfo::nt(fp(&(header_at, n))).class("expiry:sequence-kept-alive-by-each-fragment")),
        None => vfail!("complete-but-not-delivered", "header at position {header_at} of {n}, fragments {:?} apart with a {:?} timeout: the last missing fragment arrived but nothing was returned", gap, timeout),
    }
}

pub fn run(run: &mut Run) {
    run.rule = "messages with pairwise distinct bytes cut into n fragments (incl. empty fragments), fed through start_fragment/add_fragment exactly as connection.rs does: \
        all n! arrival orders for n <= 5 (6 in thorough) x cut styles x one duplicate / one out-of-range id at every position, all merges of two interleaved sequences, and random \
        cases with up to 4 sequences, 64 fragments, duplicates, bogus ids, arbitrary u64 sequence ids, expiry; a model assembler is the oracle. Non-trivial = n >= 2 and not in \
        descending order, or a duplicate, or >= 2 sequences"
        .into();
    run.assumptions = vec![
        "a sequence that so far received only out-of-range ids may or may not be counted by pending_count()".into(),
        "a fragment id above the count that arrives before the header is indistinguishable from a real one until the header arrives; it must then be dropped".into(),
    ];
    let (max_n, dup_n) = run.tier.pick((5, 4), (7, 5));
    run.enumerate("all-orders", exhaustive(max_n, dup_n).into_iter(), oracle);
    run.prop("random-histories", random_case, run.tier.pick(20_000, 1_000_000), oracle);
    let bigs: Vec<BigCount> = run.tier.pick(vec![100_000, 100_001], vec![65_536, 100_000, 100_001, 250_000, 1_000_000]).into_iter().map(|n| BigCount { n }).collect();
    run.enumerate("many-fragments", bigs.into_iter(), big_oracle);
    let many: Vec<ManySeq> = run.tier.pick(vec![60_000u32, 1_000], vec![60_000, 200_000, 1_000]).into_iter().flat_map(|n| [true, false].into_iter().map(move |cont_first| ManySeq { n, cont_first })).collect();
    run.enumerate("many-sequences", many.into_iter(), many_seq_oracle);
    // expiry (real clock, measured premises): nine arrival patterns, in parallel
    let pats: Vec<ExpiryCase> = (0..3u8).flat_map(|n| [0u8, 2, 200].into_iter().map(move |h| ExpiryCase { n, header_at: if h == 200 { 3 + n } else { h } })).collect();
    let verdicts: Vec<(ExpiryCase, Verdict)> = std::thread::scope(|sc| {
        let hs: Vec<_> = pats.iter().map(|p| sc.spawn(move || (p.clone(), crate::engine::guarded(|| expiry_oracle(p))))).collect();
        hs.into_iter().map(|h| h.join().expect("expiry thread")).collect()
    });
    let n_expiry = verdicts.len();
    for (p, v) in verdicts {
        run.custom("expiry-refresh", &p, v);
    }
    run.note_campaign(serde_json::json!({"name": "expiry-refresh", "kind": "enumerated", "evaluations": n_expiry}));
    if run.tier == crate::engine::Tier::Thorough {
        // coverage-guided byte fuzzing of the same oracle (libFuzzer, structure-aware through fuzzde); see fuzzbridge.rs
        crate::fuzzbridge::campaign(run, "c09", 3_000_000, 400);
    }
}

pub fn replays() -> Vec<ReplayEntry> {
    vec![replay_entry("fuzz:c09", crate::fuzzbridge::eval_input), replay_entry("all-orders", oracle), replay_entry("random-histories", oracle), replay_entry("many-fragments", big_oracle), replay_entry("many-sequences", many_seq_oracle), replay_entry("expiry-refresh", expiry_oracle)]
}

//! C08 — control messages parse and serialise losslessly and use the protocol's numbering.

use crate::engine::{fp, replay_entry, CaseInfo, ReplayEntry, Run, Verdict};
use crate::gen::{arb_choices, arb_value, GenCfg};
use crate::terms::{denote, identical, lift};
use crate::vfail;
use edp_client::control::ControlMessage as CM;
use erltf::OwnedTerm;
use proptest::prelude::*;
use refmodel::etf::VecPicker;
use refmodel::proto::{control_row, CONTROL_TABLE};
use refmodel::{BigI, Value};
use serde::{Deserialize, Serialize};

#[derive(Clone, Debug, Serialize, Deserialize)]
pub struct TupleCase {
    /// the term to parse: usually {Tag, e1..ek}
    pub term: Value,
    pub repr: Vec<u8>,
}

fn variant_name(m: &CM) -> &'static str {
    match m {
        CM::Link { .. } => "LINK",
        CM::Send { .. } => "SEND",
        CM::Exit { .. } => "EXIT",
        CM::UnlinkId { .. } => "UNLINK_ID",
        CM::UnlinkIdAck { .. } => "UNLINK_ID_ACK",
        CM::RegSend { .. } => "REG_SEND",
        CM::MonitorP { .. } => "MONITOR_P",
        CM::DemonitorP { .. } => "DEMONITOR_P",
        CM::MonitorPExit { .. } => "MONITOR_P_EXIT",
        CM::SpawnRequest { .. } => "SPAWN_REQUEST",
        CM::SpawnReply { .. } => "SPAWN_REPLY",
        CM::AliasSend { .. } => "ALIAS_SEND",
        CM::Unlink { .. } => "UNLINK",
        CM::NodeLink => "NODE_LINK",
        CM::GroupLeader { .. } => "GROUP_LEADER",
        CM::Exit2 { .. } => "EXIT2",
        CM::SendSender { .. } => "SEND_SENDER",
        CM::PayloadExit { .. } => "PAYLOAD_EXIT",
        CM::PayloadExit2 { .. } => "PAYLOAD_EXIT2",
        CM::PayloadMonitorPExit { .. } => "PAYLOAD_MONITOR_P_EXIT",
        CM::SendTt { .. } => "SEND_TT",
        CM::ExitTt { .. } => "EXIT_TT",
        CM::RegSendTt { .. } => "REG_SEND_TT",
        CM::Exit2Tt { .. } => "EXIT2_TT",
        CM::SendSenderTt { .. } => "SEND_SENDER_TT",
        CM::PayloadExitTt { .. } => "PAYLOAD_EXIT_TT",
        CM::PayloadExit2Tt { .. } => "PAYLOAD_EXIT2_TT",
        CM::SpawnRequestTt { .. } => "SPAWN_REQUEST_TT",
        CM::SpawnReplyTt { .. } => "SPAWN_REPLY_TT",
        CM::AliasSendTt { .. } => "ALIAS_SEND_TT",
        CM::Generic { .. } => "GENERIC",
    }
}

fn id_term(id: u64) -> OwnedTerm {
    match i64::try_from(id) {
        Ok(i) => OwnedTerm::Integer(i),
        Err(_) => OwnedTerm::BigInt(erltf::BigInt::new(false, id.to_le_bytes().to_vec())),
    }
}

/// Fields of a structured variant *by name as the protocol documents them* (wire order of the
/// documentation).  None for Generic.
fn named_fields(m: &CM) -> Option<Vec<(&'static str, OwnedTerm)>> {
    let c = |t: &OwnedTerm| t.clone();
    Some(match m {
        CM::Link { from_pid, to_pid } => vec![("FromPid", c(from_pid)), ("ToPid", c(to_pid))],
        CM::Send { cookie, to_pid } => vec![("Unused", c(cookie)), ("ToPid", c(to_pid))],
        CM::Exit { from_pid, to_pid, reason } => vec![("FromPid", c(from_pid)), ("ToPid", c(to_pid)), ("Reason", c(reason))],
        CM::UnlinkId { id, from_pid, to_pid } => vec![("Id", id_term(*id)), ("FromPid", c(from_pid)), ("ToPid", c(to_pid))],
        CM::UnlinkIdAck { id, from_pid, to_pid } => vec![("Id", id_term(*id)), ("FromPid", c(from_pid)), ("ToPid", c(to_pid))],
        CM::RegSend { from_pid, cookie, to_name } => vec![("FromPid", c(from_pid)), ("Unused", c(cookie)), ("ToName", c(to_name))],
        CM::MonitorP { from_pid, to_proc, reference } => vec![("FromPid", c(from_pid)), ("ToProc", c(to_proc)), ("Ref", c(reference))],
        CM::DemonitorP { from_pid, to_proc, reference } => vec![("FromPid", c(from_pid)), ("ToProc", c(to_proc)), ("Ref", c(reference))],
        CM::MonitorPExit { from_proc, to_pid, reference, reason } => {
            vec![("FromProc", c(from_proc)), ("ToPid", c(to_pid)), ("Ref", c(reference)), ("Reason", c(reason))]
        }
        CM::SpawnRequest { req_id, from, group_leader, mfa, arg_list, opt_list } => vec![
            ("ReqId", c(req_id)),
            ("From", c(from)),
            ("GroupLeader", c(group_leader)),
            ("MFA", c(mfa)),
            ("ArgList(not in the protocol's control tuple)", c(arg_list)),
            ("OptList", c(opt_list)),
        ],
        CM::SpawnReply { req_id, to, flags, result } => vec![("ReqId", c(req_id)), ("To", c(to)), ("Flags", c(flags)), ("Result", c(result))],
        CM::AliasSend { from_pid, alias } => vec![("FromPid", c(from_pid)), ("Alias", c(alias))],
        CM::Unlink { from_pid, to_pid } => vec![("FromPid", c(from_pid)), ("ToPid", c(to_pid))],
        CM::NodeLink => vec![],
        CM::GroupLeader { from_pid, to_pid } => vec![("FromPid", c(from_pid)), ("ToPid", c(to_pid))],
        CM::Exit2 { from_pid, to_pid, reason } => vec![("FromPid", c(from_pid)), ("ToPid", c(to_pid)), ("Reason", c(reason))],
        CM::SendSender { from_pid, to_pid } => vec![("FromPid", c(from_pid)), ("ToPid", c(to_pid))],
        CM::PayloadExit { from_pid, to_pid } => vec![("FromPid", c(from_pid)), ("ToPid", c(to_pid))],
        CM::PayloadExit2 { from_pid, to_pid } => vec![("FromPid", c(from_pid)), ("ToPid", c(to_pid))],
        CM::PayloadMonitorPExit { from_proc, to_pid, reference } => vec![("FromProc", c(from_proc)), ("ToPid", c(to_pid)), ("Ref", c(reference))],
        CM::SendTt { cookie, to_pid, trace_token } => vec![("Unused", c(cookie)), ("ToPid", c(to_pid)), ("TraceToken", c(trace_token))],
        CM::ExitTt { from_pid, to_pid, trace_token, reason } => {
            vec![("FromPid", c(from_pid)), ("ToPid", c(to_pid)), ("TraceToken", c(trace_token)), ("Reason", c(reason))]
        }
        CM::RegSendTt { from_pid, cookie, to_name, trace_token } => {
            vec![("FromPid", c(from_pid)), ("Unused", c(cookie)), ("ToName", c(to_name)), ("TraceToken", c(trace_token))]
        }
        CM::Exit2Tt { from_pid, to_pid, trace_token, reason } => {
            vec![("FromPid", c(from_pid)), ("ToPid", c(to_pid)), ("TraceToken", c(trace_token)), ("Reason", c(reason))]
        }
        CM::SendSenderTt { from_pid, to_pid, trace_token } => vec![("FromPid", c(from_pid)), ("ToPid", c(to_pid)), ("TraceToken", c(trace_token))],
        CM::PayloadExitTt { from_pid, to_pid, trace_token } => vec![("FromPid", c(from_pid)), ("ToPid", c(to_pid)), ("TraceToken", c(trace_token))],
        CM::PayloadExit2Tt { from_pid, to_pid, trace_token } => vec![("FromPid", c(from_pid)), ("ToPid", c(to_pid)), ("TraceToken", c(trace_token))],
        CM::SpawnRequestTt { req_id, from, group_leader, mfa, arg_list, opt_list, trace_token } => vec![
            ("ReqId", c(req_id)),
            ("From", c(from)),
            ("GroupLeader", c(group_leader)),
            ("MFA", c(mfa)),
            ("ArgList(not in the protocol's control tuple)", c(arg_list)),
            ("OptList", c(opt_list)),
            ("TraceToken", c(trace_token)),
        ],
        CM::SpawnReplyTt { req_id, to, flags, result, trace_token } => {
            vec![("ReqId", c(req_id)), ("To", c(to)), ("Flags", c(flags)), ("Result", c(result)), ("TraceToken", c(trace_token))]
        }
        CM::AliasSendTt { from_pid, alias, trace_token } => vec![("FromPid", c(from_pid)), ("Alias", c(alias)), ("TraceToken", c(trace_token))],
        CM::Generic { .. } => return None,
    })
}

/// Build the named variant from protocol-ordered fields (by documented field name).
fn build_named(name: &str, f: &[OwnedTerm]) -> Option<CM> {
    let g = |i: usize| f[i].clone();
    let id = |t: &OwnedTerm| -> u64 {
        match denote(t) {
            Value::Int(b) => b.to_u64().unwrap_or(0),
            _ => 0,
        }
    };
    Some(match name {
        "LINK" => CM::Link { from_pid: g(0), to_pid: g(1) },
        "SEND" => CM::Send { cookie: g(0), to_pid: g(1) },
        "EXIT" => CM::Exit { from_pid: g(0), to_pid: g(1), reason: g(2) },
        "UNLINK" => CM::Unlink { from_pid: g(0), to_pid: g(1) },
        "NODE_LINK" => CM::NodeLink,
        "REG_SEND" => CM::RegSend { from_pid: g(0), cookie: g(1), to_name: g(2) },
        "GROUP_LEADER" => CM::GroupLeader { from_pid: g(0), to_pid: g(1) },
        "EXIT2" => CM::Exit2 { from_pid: g(0), to_pid: g(1), reason: g(2) },
        "SEND_TT" => CM::SendTt { cookie: g(0), to_pid: g(1), trace_token: g(2) },
        "EXIT_TT" => CM::ExitTt { from_pid: g(0), to_pid: g(1), trace_token: g(2), reason: g(3) },
        "REG_SEND_TT" => CM::RegSendTt { from_pid: g(0), cookie: g(1), to_name: g(2), trace_token: g(3) },
        "EXIT2_TT" => CM::Exit2Tt { from_pid: g(0), to_pid: g(1), trace_token: g(2), reason: g(3) },
        "MONITOR_P" => CM::MonitorP { from_pid: g(0), to_proc: g(1), reference: g(2) },
        "DEMONITOR_P" => CM::DemonitorP { from_pid: g(0), to_proc: g(1), reference: g(2) },
        "MONITOR_P_EXIT" => CM::MonitorPExit { from_proc: g(0), to_pid: g(1), reference: g(2), reason: g(3) },
        "SEND_SENDER" => CM::SendSender { from_pid: g(0), to_pid: g(1) },
        "SEND_SENDER_TT" => CM::SendSenderTt { from_pid: g(0), to_pid: g(1), trace_token: g(2) },
        "PAYLOAD_EXIT" => CM::PayloadExit { from_pid: g(0), to_pid: g(1) },
        "PAYLOAD_EXIT_TT" => CM::PayloadExitTt { from_pid: g(0), to_pid: g(1), trace_token: g(2) },
        "PAYLOAD_EXIT2" => CM::PayloadExit2 { from_pid: g(0), to_pid: g(1) },
        "PAYLOAD_EXIT2_TT" => CM::PayloadExit2Tt { from_pid: g(0), to_pid: g(1), trace_token: g(2) },
        "PAYLOAD_MONITOR_P_EXIT" => CM::PayloadMonitorPExit { from_proc: g(0), to_pid: g(1), reference: g(2) },
        "SPAWN_REPLY" => CM::SpawnReply { req_id: g(0), to: g(1), flags: g(2), result: g(3) },
        "SPAWN_REPLY_TT" => CM::SpawnReplyTt { req_id: g(0), to: g(1), flags: g(2), result: g(3), trace_token: g(4) },
        "ALIAS_SEND" => CM::AliasSend { from_pid: g(0), alias: g(1) },
        "ALIAS_SEND_TT" => CM::AliasSendTt { from_pid: g(0), alias: g(1), trace_token: g(2) },
        "UNLINK_ID" => CM::UnlinkId { id: id(&f[0]), from_pid: g(1), to_pid: g(2) },
        "UNLINK_ID_ACK" => CM::UnlinkIdAck { id: id(&f[0]), from_pid: g(1), to_pid: g(2) },
        // SPAWN_REQUEST(_TT): the library's variants carry an extra arg_list field that the
        // protocol's control tuple does not have; they cannot be built from the protocol's fields
        _ => return None,
    })
}

fn u64_of(v: &Value) -> Option<u64> {
    match v {
        Value::Int(b) => b.to_u64(),
        _ => None,
    }
}

pub fn grid_oracle(case: &TupleCase) -> Verdict {
    let Some(t) = lift(&case.term, &mut VecPicker::new(&case.repr)) else {
        return Verdict::Pass(CaseInfo::trivial());
    };
    let res = crate::engine::no_panic(|| CM::from_term(&t));
    let res = match res {
        Ok(r) => r,
        Err(p) => vfail!("panic", "from_term panicked: {p}"),
    };
    // classify the input by the statement
    let elems = match &case.term {
        Value::Tuple(e) if !e.is_empty() => e,
        _ => {
            return match res {
                Err(_) => Verdict::Pass(CaseInfo::nt(fp(&format!("{:?}", case.term))).class("rejected:not-a-tagged-tuple")),
                Ok(m) => vfail!("non-control-term-accepted", "{} parsed as {}", case.term.render(), variant_name(&m)),
            }
        }
    };
    let tag = match &elems[0] {
        Value::Int(b) => b.to_i128().filter(|v| (0..=255).contains(v)).map(|v| v as u8),
        _ => None,
    };
    let Some(tag) = tag else {
        return match res {
            Err(_) => Verdict::Pass(CaseInfo::nt(fp(&format!("{:?}", case.term))).class("rejected:tag-not-0..255")),
            Ok(m) => vfail!("non-control-term-accepted", "{} parsed as {}", case.term.render(), variant_name(&m)),
        };
    };
    // a tag 0..255 that arrives in big-integer representation: either outcome is accepted
    let tag_is_bigint = matches!(&t, OwnedTerm::Tuple(e) if matches!(e[0], OwnedTerm::BigInt(_)));
    let unlink_shape = (tag == 35 || tag == 36) && elems.len() == 4;
    let id_ok = unlink_shape && u64_of(&elems[1]).is_some();
    let m = match res {
        Ok(m) => {
            if unlink_shape && !id_ok {
                vfail!("bad-unlink-id-accepted", "{} parsed although the id is not a non-negative integer of <= 64 bits", case.term.render());
            }
            m
        }
        Err(e) => {
            if unlink_shape && !id_ok {
                return Verdict::Pass(CaseInfo::nt(fp(&format!("{:?}", case.term))).class("rejected:bad-unlink-id"));
            }
            if tag_is_bigint {
                return Verdict::Pass(CaseInfo::trivial().class("tag-as-bigint:rejected"));
            }
            vfail!("tagged-tuple-rejected", "{} (tag {} arity {}) was rejected: {}", case.term.render(), tag, elems.len(), e);
        }
    };
    // lossless: serialising gives back a tuple denoting the same value
    let back = m.to_term();
    let db = denote(&back);
    if !db.same(&case.term) {
        vfail!("serialised-tuple-differs", "parsed as {}, to_term gives {} for input {}", variant_name(&m), db.render(), case.term.render());
    }
    let consumed = m.clone().into_term();
    if !identical(&consumed, &back) {
        vfail!("into-term-differs-from-to-term", "variant {}: into_term {:?} vs to_term {:?}", variant_name(&m), consumed, back);
    }
    // numbering: a tuple with a protocol tag and the protocol's arity must become the named variant
    let mut info = CaseInfo::trivial();
    if let Some(row) = control_row(tag) {
        if row.2 == elems.len() {
            if variant_name(&m) != row.0 {
                if row.0.starts_with("SPAWN_REQUEST") {
                    return Verdict::Known {
                        signature: "spawn-request-arity-differs-from-protocol".into(),
                        detail: format!("{} with the protocol's arity {} parsed as {}", row.0, row.2, variant_name(&m)),
                        info: CaseInfo::nt(fp(&format!("{:?}", case))).class("known-tag:protocol-arity"),
                    };
                }
                vfail!("protocol-message-not-recognised", "{{{}, ...}} of arity {} should be {}, parsed as {}", tag, row.2, row.0, variant_name(&m));
            }
            let nf = named_fields(&m).unwrap();
            for (i, fname) in row.3.iter().enumerate() {
                if nf[i].0 != *fname || !denote(&nf[i].1).same(&elems[i + 1]) {
                    vfail!("field-in-wrong-slot", "{}: protocol field {} ({}) ended up as {} = {}", row.0, fname, elems[i + 1].render(), nf[i].0, denote(&nf[i].1).render());
                }
            }
            info = CaseInfo::nt(fp(&format!("{:?}", case))).class("known-tag:protocol-arity");
        } else if variant_name(&m) != "GENERIC" {
            // a named variant for an arity the protocol does not assign
            if row.0.starts_with("SPAWN_REQUEST") && elems.len() == row.2 + 1 {
                return Verdict::Known {
                    signature: "spawn-request-arity-differs-from-protocol".into(),
                    detail: format!("{} parsed from a tuple of arity {} (protocol: {})", row.0, elems.len(), row.2),
                    info: CaseInfo::nt(fp(&format!("{:?}", case))).class("known-tag:other-arity"),
                };
            }
            vfail!("named-variant-for-wrong-arity", "tag {} arity {} parsed as {} (protocol arity {})", tag, elems.len(), variant_name(&m), row.2);
        } else {
            info = CaseInfo::nt(fp(&format!("{:?}", case))).class("known-tag:other-arity");
        }
    } else {
        if variant_name(&m) != "GENERIC" {
            vfail!("unassigned-tag-parsed-as-named", "tag {} is not assigned by the protocol but parsed as {}", tag, variant_name(&m));
        }
        if elems.len() >= 3 {
            info = CaseInfo::nt(fp(&format!("{:?}", case))).class("unknown-tag");
        }
    }
    // wire trip of whatever was parsed
    let wire = match erltf::encode(&back) {
        Ok(b) => b,
        Err(e) => vfail!("encode-error", "{e:?}"),
    };
    let dec = match erltf::decode(&wire) {
        Ok(d) => d,
        Err(e) => vfail!("decode-error", "{e:?}"),
    };
    match CM::from_term(&dec) {
        Ok(m2) => {
            if variant_name(&m2) != variant_name(&m) || !denote(&m2.to_term()).same(&case.term) {
                vfail!("wire-trip-changes-message", "{} became {} / {} after encode+decode", variant_name(&m), variant_name(&m2), denote(&m2.to_term()).render());
            }
        }
        Err(e) => vfail!("wire-trip-rejected", "{} ({}) no longer parses after encode+decode: {}", variant_name(&m), case.term.render(), e),
    }
    Verdict::Pass(info.class_if(unlink_shape && u64_of(&elems[1]).map_or(false, |i| i >= (1 << 31)), "unlink-id>=2^31").class_if(tag_is_bigint, "tag-as-bigint:accepted"))
}

#[derive(Clone, Debug, Serialize, Deserialize)]
pub struct RowCase {
    pub row: usize,
    pub fields: Vec<Value>,
    pub repr: Vec<u8>,
}

/// (b)+(c): the named variant built from fields serialises to the protocol's tuple, survives the wire.
pub fn row_oracle(case: &RowCase) -> Verdict {
    let row = &CONTROL_TABLE[case.row % CONTROL_TABLE.len()];
    let k = row.3.len();
    let mut fields: Vec<Value> = case.fields.iter().take(k).cloned().collect();
    while fields.len() < k {
        fields.push(Value::atom(&format!("f{}", fields.len())));
    }
    if row.3.first() == Some(&"Id") {
        if u64_of(&fields[0]).is_none() {
            fields[0] = Value::Int(BigI::from_u64(1 << 40));
        }
    }
    let mut pk = VecPicker::new(&case.repr);
    let Some(lifted): Option<Vec<OwnedTerm>> = fields.iter().map(|f| lift(f, &mut pk)).collect() else {
        return Verdict::Pass(CaseInfo::trivial());
    };
    let Some(m) = build_named(row.0, &lifted) else {
        return Verdict::Known {
            signature: "spawn-request-arity-differs-from-protocol".into(),
            detail: format!("{}: the library's variant has an arg_list field, the protocol's control tuple (arity {}) has none", row.0, row.2),
            info: CaseInfo::nt(fp(&format!("{:?}", case))).class("row:spawn-request"),
        };
    };
    let mut spec = vec![Value::int(row.1 as i128)];
    spec.extend(fields.iter().cloned());
    let spec = Value::Tuple(spec);
    let t = m.to_term();
    if !denote(&t).same(&spec) {
        vfail!("wrong-tag-arity-or-field-order", "{} serialises to {} but the protocol prescribes {}", row.0, denote(&t).render(), spec.render());
    }
    if !identical(&m.clone().into_term(), &t) {
        vfail!("into-term-differs-from-to-term", "{}", row.0);
    }
    let wire = match erltf::encode(&t) {
        Ok(b) => b,
        Err(e) => vfail!("encode-error", "{e:?}"),
    };
    // an independent reader sees the protocol's tuple
    match refmodel::etf::refdec(&wire) {
        Ok(v) if v.same(&spec) => {}
        other => vfail!("wire-form-differs", "{}: independent reader sees {:?}", row.0, other.map(|v| v.render())),
    }
    let dec = match erltf::decode(&wire) {
        Ok(d) => d,
        Err(e) => vfail!("decode-error", "{e:?}"),
    };
    match CM::from_term(&dec) {
        Ok(m2) => {
            if variant_name(&m2) != row.0 {
                vfail!("wire-trip-changes-message", "{} came back as {}", row.0, variant_name(&m2));
            }
            let (a, b) = (named_fields(&m).unwrap(), named_fields(&m2).unwrap());
            for (x, y) in a.iter().zip(b.iter()) {
                if x.0 != y.0 || !denote(&x.1).same(&denote(&y.1)) {
                    vfail!("wire-trip-changes-field", "{}: field {} was {} and came back as {}", row.0, x.0, denote(&x.1).render(), denote(&y.1).render());
                }
            }
        }
        Err(e) => vfail!("wire-trip-rejected", "{} with fields {} no longer parses after the wire: {}", row.0, spec.render(), e),
    }
    Verdict::Pass(CaseInfo::nt(fp(&format!("{:?}", case))).class("row:structured").class_if(row.3.first() == Some(&"Id"), "row:unlink-id"))
}

fn arb_unlink_id() -> BoxedStrategy<Value> {
    prop_oneof![
        4 => prop::sample::select(vec![0u64, 1, 255, (1 << 31) - 1, 1 << 31, (1u64 << 32), (1u64 << 63) - 1, 1u64 << 63, u64::MAX - 1, u64::MAX]).prop_map(|v| Value::Int(BigI::from_u64(v))),
        3 => any::<u64>().prop_map(|v| Value::Int(BigI::from_u64(v))),
        1 => Just(Value::Int(BigI::from_u128(false, 1u128 << 64))),
        1 => Just(Value::Int(BigI::from_u128(false, (1u128 << 64) + 5))),
        1 => (1i64..1000).prop_map(|v| Value::int(-(v as i128))),
        1 => Just(Value::Int(BigI::from_u128(true, 1u128 << 63))),
        1 => Just(Value::atom("not_an_id")),
        1 => Just(Value::float(3.0)),
    ]
    .boxed()
}

pub fn grid_strategy() -> impl Strategy<Value = TupleCase> {
    let elem = || arb_value(GenCfg { depth: 2, size: 6, heavy: false, ..GenCfg::std() });
    let tagged = (0u8..=255, 0usize..=9, prop::collection::vec(elem(), 9), arb_unlink_id(), arb_choices(12)).prop_map(|(tag, k, els, uid, repr)| {
        let mut v = vec![Value::int(tag as i128)];
        v.extend(els.into_iter().take(k));
        if (tag == 35 || tag == 36) && v.len() == 4 {
            v[1] = uid;
        }
        TupleCase { term: Value::Tuple(v), repr }
    });
    // bias towards protocol tags with their own arity and arity +-1
    let known = (prop::sample::select((0..CONTROL_TABLE.len()).collect::<Vec<_>>()), 0usize..3, prop::collection::vec(elem(), 9), arb_unlink_id(), arb_choices(12)).prop_map(
        |(r, d, els, uid, repr)| {
            let row = &CONTROL_TABLE[r];
            let k = (row.2 + d).saturating_sub(2).min(9);
            let mut v = vec![Value::int(row.1 as i128)];
            v.extend(els.into_iter().take(k));
            if (row.1 == 35 || row.1 == 36) && v.len() == 4 {
                v[1] = uid;
            }
            TupleCase { term: Value::Tuple(v), repr }
        },
    );
    // a protocol tag shifted by a multiple of 256 (or negated), at the arity of the real operation: must be refused
    let aliased = (
        prop::sample::select((0..CONTROL_TABLE.len()).collect::<Vec<_>>()),
        prop::sample::select(vec![256i128, 512, -256, 65536, 1 << 24, 1 << 31, 1 << 32, (1 << 32) + 256, 1 << 56, -(1 << 32), 1 << 64]),
        any::<bool>(),
        prop::collection::vec(elem(), 9),
        arb_unlink_id(),
    )
        .prop_map(|(r, off, negate, els, uid)| {
            let row = &CONTROL_TABLE[r];
            let k = row.2.saturating_sub(1).min(9);
            let tag = if negate && row.1 != 0 { -(row.1 as i128) } else { row.1 as i128 + off };
            let mut v = vec![Value::int(tag)];
            v.extend(els.into_iter().take(k));
            if (row.1 == 35 || row.1 == 36) && v.len() == 4 {
                v[1] = uid;
            }
            TupleCase { term: Value::Tuple(v), repr: vec![] }
        });
    let junk = prop_oneof![
        elem().prop_map(|v| TupleCase { term: v, repr: vec![] }),
        Just(TupleCase { term: Value::Tuple(vec![]), repr: vec![] }),
        (prop_oneof![Just(Value::int(256)), Just(Value::int(-1)), Just(Value::atom("link")), Just(Value::float(1.0)), Just(Value::int(1 << 70))], elem())
            .prop_map(|(t, e)| TupleCase { term: Value::Tuple(vec![t, e.clone(), e]), repr: vec![] }),
    ];
    prop_oneof![5 => tagged, 6 => known, 1 => junk, 1 => aliased]
}

fn row_strategy() -> impl Strategy<Value = RowCase> {
    let elem = || arb_value(GenCfg { depth: 3, size: 10, heavy: false, ..GenCfg::std() });
    (0usize..CONTROL_TABLE.len(), prop::collection::vec(elem(), 6), arb_unlink_id(), arb_choices(12)).prop_map(|(row, mut fields, uid, repr)| {
        if CONTROL_TABLE[row].3.first() == Some(&"Id") {
            fields[0] = uid;
        }
        RowCase { row, fields, repr }
    })
}

pub fn run(run: &mut Run) {
    run.rule = "(a) tuples {Tag, e1..ek} over the full tag x arity grid 0..255 x 1..10 (biased to protocol tags at their own arity +-1; unlink ids over the 64-bit range and beyond; \
        non-tuples and bad tags) checked for lossless parse/serialise, to_term == into_term, wire trip and protocol numbering; (b,c) every row of the protocol table built as the \
        named variant from generated fields and compared with the tuple the protocol prescribes, through the wire and an independent reader. Non-trivial = protocol tag with \
        matching arity, unknown tag with arity >= 3, a rejected malformed input, or a structured row; distinct by input"
        .into();
    run.assumptions = vec![
        "refmodel::proto::CONTROL_TABLE is a faithful copy of the erl_dist_protocol table (tags, arities, field order)".into(),
        "a tag 0..255 that arrives in big-integer representation may be accepted or rejected (statement silent)".into(),
    ];
    // the complete table once, deterministically
    let all_rows: Vec<RowCase> = (0..CONTROL_TABLE.len())
        .map(|r| RowCase { row: r, fields: (0..6).map(|i| if i == 0 && CONTROL_TABLE[r].3.first() == Some(&"Id") { Value::Int(BigI::from_u64(77)) } else { Value::atom(&format!("field{i}")) }).collect(), repr: vec![] })
        .collect();
    run.enumerate("protocol-table", all_rows.into_iter(), row_oracle);
    run.prop("tag-arity-grid", grid_strategy, run.tier.pick(60_000, 2_000_000), grid_oracle);
    run.prop("structured-rows", row_strategy, run.tier.pick(20_000, 1_000_000), row_oracle);
    if run.tier == crate::engine::Tier::Thorough {
        // coverage-guided byte fuzzing of the same oracle (libFuzzer, structure-aware through fuzzde); see fuzzbridge.rs
        crate::fuzzbridge::campaign(run, "c08", 3_000_000, 400);
    }
}

pub fn replays() -> Vec<ReplayEntry> {
    vec![replay_entry("fuzz:c08", crate::fuzzbridge::eval_input), replay_entry("protocol-table", row_oracle), replay_entry("tag-arity-grid", grid_oracle), replay_entry("structured-rows", row_oracle)]
}

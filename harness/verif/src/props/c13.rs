//! C13 — the zero-copy decoder agrees with the owned decoder.

use crate::engine::{fp, replay_entry, CaseInfo, ReplayEntry, Run, Verdict};
use crate::gen::{arb_choices, arb_value, GenCfg};
use crate::mutate::{apply, arb_mutation, Mutation};
use crate::terms::{hex, identical};
use crate::vfail;
use proptest::prelude::*;
use refmodel::etf::{refenc_choices, Dec};
use refmodel::Value;
use serde::{Deserialize, Serialize};

#[derive(Clone, Debug, Serialize, Deserialize)]
pub enum Case {
    Encoded { value: Value, choices: Vec<u8>, legacy: bool, other: Value, mutation: Mutation },
    Raw(Vec<u8>),
}

/// tags OTP 26+ emits over distribution
const MODERN: &[u8] = &[70, 77, 88, 89, 90, 97, 98, 104, 105, 106, 107, 108, 109, 110, 111, 112, 113, 116, 118, 119, 120];

/// independent tag walk: Some(all tags modern) if the input is a well-formed term, None otherwise
fn modern_only(bytes: &[u8]) -> Option<bool> {
    if bytes.first() != Some(&131) {
        return None;
    }
    let mut d = Dec::new(&bytes[1..]);
    d.max_depth = 400;
    match d.term() {
        Ok(_) if d.pos == bytes.len() - 1 => Some(d.tags_seen.iter().all(|t| MODERN.contains(t))),
        _ => None,
    }
}

pub fn bytes_of(case: &Case) -> Vec<u8> {
    match case {
        Case::Raw(b) => b.clone(),
        Case::Encoded { value, choices, legacy, other, mutation } => {
            let (b, _, _) = refenc_choices(value, choices, *legacy, *legacy);
            let (o, _, _) = refenc_choices(other, &[], false, false);
            apply(&b, &o, mutation)
        }
    }
}

pub fn oracle(case: &Case) -> Verdict {
    let b = bytes_of(case);
    let ro = erltf::decode(&b);
    let rb = erltf::decode_borrowed(&b);
    let modern = modern_only(&b);
    let mut info = CaseInfo::trivial();
    match (&rb, &ro) {
        (Ok(t), Ok(u)) => {
            let o = t.to_owned();
            if !identical(&o, u) {
                vfail!(
                    "zero-copy-result-differs-from-owned",
                    "to_owned() of the zero-copy result differs from the owned decoder's term: {} vs {} bytes={}",
                    crate::engine::truncate(&format!("{:?}", o), 300),
                    crate::engine::truncate(&format!("{:?}", u), 300),
                    hex(&b)
                );
            }
            info = info.class("both-accept");
        }
        (Ok(t), Err(e)) => {
            vfail!(
                "zero-copy-accepts-what-owned-rejects",
                "decode_borrowed accepted ({}) but decode failed with {:?}; bytes={}",
                crate::engine::truncate(&format!("{:?}", t), 200),
                e,
                hex(&b)
            );
        }
        (Err(e), Ok(u)) => {
            if e.context.byte_offset > b.len() {
                vfail!("error-offset-outside-input", "byte_offset {} > input length {}", e.context.byte_offset, b.len());
            }
            if modern == Some(true) {
                vfail!(
                    "zero-copy-rejects-modern-input-owned-accepts",
                    "input uses only modern tags, decode accepts ({}) but decode_borrowed fails with {:?} at offset {}; bytes={}",
                    crate::engine::truncate(&format!("{:?}", u), 200),
                    e.error,
                    e.context.byte_offset,
                    hex(&b)
                );
            }
            info = info.class("owned-only-accepts(non-modern tags)");
        }
        (Err(e), Err(_)) => {
            if e.context.byte_offset > b.len() {
                vfail!("error-offset-outside-input", "byte_offset {} > input length {}; bytes={}", e.context.byte_offset, b.len(), hex(&b));
            }
            info = info.class("both-reject");
        }
    }
    let past_version = b.first() == Some(&131) && b.len() >= 2;
    let mutated = matches!(case, Case::Encoded { mutation, .. } if *mutation != Mutation::None);
    let nodes = match case {
        Case::Encoded { value, .. } => value.node_count(),
        _ => 0,
    };
    if past_version && (nodes >= 2 || mutated || matches!(case, Case::Raw(_))) {
        info.nontrivial = Some(fp(&b));
    }
    info = info
        .class_if(mutated, "mutated")
        .class_if(modern == Some(true), "well-formed:modern-only")
        .class_if(modern == Some(false), "well-formed:non-modern-tags")
        .class_if(matches!(case, Case::Raw(_)), "raw-bytes");
    Verdict::Pass(info)
}

pub fn strategy() -> impl Strategy<Value = Case> {
    let cfg = GenCfg { depth: 5, size: 40, heavy: false, eq_num_keys: true, ..GenCfg::std() };
    let small = GenCfg { depth: 2, size: 6, heavy: false, ..GenCfg::std() };
    prop_oneof![
        10 => (arb_value(cfg), arb_choices(32), prop::bool::weighted(0.3), arb_value(small), arb_mutation(true))
            .prop_map(|(value, choices, legacy, other, mutation)| Case::Encoded { value, choices, legacy, other, mutation }),
        1 => prop::collection::vec(any::<u8>(), 0..40).prop_map(|mut v| { if !v.is_empty() { v[0] = 131; } Case::Raw(v) }),
        1 => (prop::sample::select(MODERN.to_vec()), prop::collection::vec(any::<u8>(), 0..24)).prop_map(|(t, mut v)| { v.insert(0, t); v.insert(0, 131); Case::Raw(v) }),
    ]
}

/// every truncation of a set of valid modern encodings
fn truncation_cases(seed: [u8; 32], n: usize) -> Vec<Case> {
    let cfg = GenCfg { depth: 4, size: 24, heavy: false, ..GenCfg::std() };
    let vals = crate::engine::sample_strategy(&arb_value(cfg), seed, n);
    let mut out = vec![];
    for v in vals {
        let (b, _, _) = refenc_choices(&v, &[], false, false);
        if b.len() > 400 {
            continue;
        }
        for cut in 0..b.len() {
            out.push(Case::Raw(b[..cut].to_vec()));
        }
    }
    out
}

/// terms nested to just below, at and just above the decoders' nesting limit, with every kind of leaf at the bottom
fn nesting_boundary_cases() -> Vec<Case> {
    let pid = Value::Pid { node: "n@h".into(), id: 1, serial: 2, creation: 3 };
    let leaves: Vec<Value> = vec![
        Value::int(7),
        Value::int(1 << 40),
        Value::float(1.5),
        Value::atom("leaf"),
        Value::binary(b"bin"),
        Value::bits(&[0xA0], 3),
        Value::nil(),
        Value::Tuple(vec![]),
        Value::Tuple(vec![Value::atom("a")]),
        Value::list(vec![Value::int(1), Value::int(2)]),
        Value::list((0..3).map(|i| Value::int(i + 65)).collect()),
        Value::Map(vec![(Value::atom("k"), Value::atom("v"))]),
        pid.clone(),
        Value::Port { node: "n@h".into(), id: 5, creation: 1 },
        Value::Port { node: "n@h".into(), id: 1 << 40, creation: 1 },
        Value::Ref { node: "n@h".into(), creation: 2, ids: vec![1, 2, 3] },
        Value::ExportFun { module: "m".into(), function: "f".into(), arity: 2 },
        Value::Fun { arity: 1, uniq: [7; 16], index: 1, module: "m".into(), old_index: 2, old_uniq: 3, pid: Box::new(pid), free: vec![Value::atom("fv")] },
    ];
    let mut out = vec![];
    for kind in 0..4u8 {
        for k in (248..=262usize).chain([2usize, 100, 127, 128, 129, 200]) {
            for leaf in &leaves {
                let steps = if kind == 3 { k / 2 } else { k };
                let v = crate::props::c03::nested(kind, steps, leaf);
                out.push(Case::Raw(refmodel::etf::refenc_canonical(&v)));
            }
        }
    }
    out
}

pub fn run(run: &mut Run) {
    run.rule = "valid encodings from the term space (modern tags only, and with legacy/LOCAL forms), every truncation of a sample of them, mutations (bit flips, \
        boundary-value overwrites, inserts, deletes, splices) and raw bytes; differential owned vs zero-copy. Non-trivial = input passes the version byte and has >= 2 nodes or was mutated; distinct by bytes"
        .into();
    run.assumptions = vec![
        "'modern tag set' = 70,77,88,89,90,97,98,104-111,112,113,116,118,119,120; an input counts as modern-only when an independent tag walker parses it completely with those tags only".into(),
        "nesting depth of generated inputs is bounded (stack exhaustion is C02's subject)".into(),
    ];
    run.prop("differential", strategy, run.tier.pick(60_000, 3_000_000), oracle);
    let t = truncation_cases(run.seed_for("truncations"), run.tier.pick(150, 3000));
    run.enumerate("all-truncations", t.into_iter(), oracle);
    run.enumerate("nesting-boundary", nesting_boundary_cases().into_iter(), oracle);
    if run.tier == crate::engine::Tier::Thorough {
        // coverage-guided byte fuzzing of the same oracle (libFuzzer, structure-aware through fuzzde); see fuzzbridge.rs
        crate::fuzzbridge::campaign(run, "c13", 3_000_000, 400);
    }
    if run.tier == crate::engine::Tier::Thorough {
        // coverage-guided byte fuzzing of the same oracle (libFuzzer, structure-aware through fuzzde); see fuzzbridge.rs
        crate::fuzzbridge::campaign(run, "decode", 3_000_000, 400);
    }
}

pub fn replays() -> Vec<ReplayEntry> {
    vec![replay_entry("fuzz:c13", crate::fuzzbridge::eval_input), replay_entry("fuzz:decode", crate::fuzzbridge::eval_input), replay_entry("differential", oracle), replay_entry("all-truncations", oracle), replay_entry("nesting-boundary", oracle)]
}

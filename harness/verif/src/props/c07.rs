//! C07 — each send operation emits exactly one well-formed frame with the right content.

use crate::engine::{fp, replay_entry, CaseInfo, ReplayEntry, Run, Verdict};
use crate::gen::{arb_choices, arb_pid, arb_ref, arb_value, GenCfg};
use crate::netbed::{refused_pair, clear_schedule, connected_pair, drain, install_schedule, library_panics_since, node_with_peer, panic_mark, parse_pass_through, run_case, BedErr, PeerConn};
use crate::terms::{denote, lift, lift_pid};
use crate::vfail;
use edp_client::flags::DistributionFlags;
use edp_client::{Connection, ConnectionConfig};
use erltf::types::ExternalReference;
use erltf::{Atom, OwnedTerm};
use proptest::prelude::*;
use refmodel::dist::{read_dist_message, PeerCache};
use refmodel::etf::VecPicker;
use refmodel::{BigI, Value};
use serde::{Deserialize, Serialize};
use std::time::Duration;

#[derive(Clone, Debug, Serialize, Deserialize, PartialEq)]
pub enum SendOp {
    Send { to: Value, payload: Value },
    RegSend { from: Value, name: String, payload: Value },
    Link { from: Value, to: Value },
    Unlink { from: Value, to: Value, id: u64 },
    Monitor { from: Value, to: Value, reference: Value },
    Demonitor { from: Value, to: Value, reference: Value },
}

fn yes() -> bool {
    true
}

#[derive(Clone, Debug, Serialize, Deserialize)]
pub struct SeqCase {
    /// this side offers DIST_HDR_ATOM_CACHE
    pub header_mode: bool,
    /// the peer offers DIST_HDR_ATOM_CACHE (header mode is negotiated only if both do)
    #[serde(default = "yes")]
    pub peer_header: bool,
    pub ops: Vec<SendOp>,
    pub repr: Vec<u8>,
    /// when > 0 the first send operation carries a binary of this many KiB (larger than the socket buffers: the frame
    /// cannot be written in one go)
    #[serde(default)]
    pub huge_kib: u32,
    /// 0: connected, 1: never connected, 2: closed before the operations, 3: handshake refused (status nok), 4: refused (wrong acknowledgement)
    pub state: u8,
}

/// expected control tuple; None entries are "Unused" slots (any term)
fn expected_control(op: &SendOp) -> (Vec<Option<Value>>, Option<Value>) {
    match op {
        SendOp::Send { to, payload } => (vec![Some(Value::int(2)), None, Some(to.clone())], Some(payload.clone())),
        SendOp::RegSend { from, name, payload } => (vec![Some(Value::int(6)), Some(from.clone()), None, Some(Value::atom(name))], Some(payload.clone())),
        SendOp::Link { from, to } => (vec![Some(Value::int(1)), Some(from.clone()), Some(to.clone())], None),
        SendOp::Unlink { from, to, id } => (vec![Some(Value::int(35)), Some(Value::Int(BigI::from_u64(*id))), Some(from.clone()), Some(to.clone())], None),
        SendOp::Monitor { from, to, reference } => (vec![Some(Value::int(19)), Some(from.clone()), Some(to.clone()), Some(reference.clone())], None),
        SendOp::Demonitor { from, to, reference } => (vec![Some(Value::int(20)), Some(from.clone()), Some(to.clone()), Some(reference.clone())], None),
    }
}

fn matches_control(got: &Value, want: &[Option<Value>]) -> bool {
    match got {
        Value::Tuple(el) if el.len() == want.len() => el.iter().zip(want).all(|(g, w)| w.as_ref().map_or(true, |w| g.same(w))),
        _ => false,
    }
}

fn to_ref(v: &Value) -> ExternalReference {
    match v {
        Value::Ref { node, creation, ids } => ExternalReference::new(Atom::new(node), *creation, ids.clone()),
        _ => panic!("not a ref"),
    }
}

async fn apply(conn: &mut Connection, op: &SendOp, pk: &mut VecPicker<'_>) -> Result<(), String> {
    let pid = |v: &Value, pk: &mut VecPicker<'_>| match lift(v, pk) {
        Some(OwnedTerm::Pid(p)) => p,
        _ => lift_pid(v),
    };
    let r = match op {
        SendOp::Send { to, payload } => {
            let p = lift(payload, pk).ok_or("unrepresentable")?;
            let from = pid(to, &mut VecPicker::new(&[]));
            conn.send_message(from, pid(to, pk), p).await
        }
        SendOp::RegSend { from, name, payload } => {
            let p = lift(payload, pk).ok_or("unrepresentable")?;
            conn.send_to_name(pid(from, pk), Atom::new(name), p).await
        }
        SendOp::Link { from, to } => conn.link(&pid(from, pk), &pid(to, pk)).await,
        SendOp::Unlink { from, to, id } => conn.unlink(&pid(from, pk), &pid(to, pk), *id).await,
        SendOp::Monitor { from, to, reference } => conn.monitor(&pid(from, pk), &pid(to, pk), &to_ref(reference)).await,
        SendOp::Demonitor { from, to, reference } => conn.demonitor(&pid(from, pk), &pid(to, pk), &to_ref(reference)).await,
    };
    r.map_err(|e| e.to_string())
}

async fn collect_frames(p: &mut PeerConn) -> Vec<Vec<u8>> {
    for _ in 0..3 {
        drain().await;
        p.poll_in();
        std::thread::sleep(Duration::from_micros(200));
    }
    p.poll_in();
    let mut v = vec![];
    while let Some(f) = p.deframer.next(4) {
        v.push(f);
    }
    v
}

struct SeqOutcome {
    results: Vec<Result<(), String>>,
    frames: Vec<Vec<u8>>,
    leftover: usize,
}

/// the operations as issued: with `huge_kib` the first send's payload is a large binary
fn effective(c: &SeqCase) -> SeqCase {
    let mut c = c.clone();
    if c.huge_kib > 0 {
        let big = Value::binary(&vec![0xCDu8; c.huge_kib as usize * 1024]);
        if let Some(op) = c.ops.iter_mut().find(|o| matches!(o, SendOp::Send { .. } | SendOp::RegSend { .. })) {
            match op {
                SendOp::Send { payload, .. } | SendOp::RegSend { payload, .. } => *payload = big,
                _ => {}
            }
        }
    }
    c
}

fn seq_run(c: &SeqCase) -> Result<Result<SeqOutcome, String>, BedErr> {
    let c = c.clone();
    run_case(Duration::from_secs(20), move |bed| async move {
        let our = DistributionFlags::default().as_u64() | if c.header_mode { DistributionFlags::DIST_HDR_ATOM_CACHE.as_u64() } else { 0 };
        let mut pk = VecPicker::new(&c.repr);
        if c.state == 1 {
            // never connected: no peer at all
            let mut conn = Connection::new(ConnectionConfig::new("rust@127.0.0.1", "peer@127.0.0.1", "cookie"));
            let mut results = vec![];
            for op in &c.ops {
                results.push(apply(&mut conn, op, &mut pk).await);
            }
            return Ok(SeqOutcome { results, frames: vec![], leftover: 0 });
        }
        if c.state == 3 || c.state == 4 {
            // the handshake was refused (status nok / acknowledgement with a wrong digest): still not connected
            let (mut conn, mut p) = refused_pair(&bed, our, c.state - 3).await?;
            let mut results = vec![];
            for op in &c.ops {
                results.push(apply(&mut conn, op, &mut pk).await);
            }
            let _ = collect_frames(&mut p).await;
            let leftover = p.deframer.buf.len();
            let mut frames = vec![];
            while let Some(f) = p.deframer.next(4) {
                frames.push(f);
            }
            return Ok(SeqOutcome { results, frames, leftover });
        }
        let theirs = if c.peer_header { u64::MAX } else { u64::MAX & !DistributionFlags::DIST_HDR_ATOM_CACHE.as_u64() };
        let (mut conn, mut p, _) = connected_pair(&bed, our, theirs, Duration::from_secs(5)).await?;
        if c.state == 2 {
            let _ = conn.close().await;
        }
        // the peer reads while the operations run (a frame larger than the socket buffers cannot complete otherwise)
        let finished = std::cell::Cell::new(false);
        let mut results = vec![];
        let ops_side = async {
            for op in &c.ops {
                results.push(apply(&mut conn, op, &mut pk).await);
            }
            finished.set(true);
        };
        let peer_side = async {
            while !finished.get() {
                p.poll_in();
                drain().await;
                std::thread::sleep(Duration::from_micros(100));
            }
        };
        tokio::join!(ops_side, peer_side);
        let frames = collect_frames(&mut p).await;
        Ok(SeqOutcome { results, frames, leftover: p.deframer.buf.len() })
    })
}

pub fn seq_oracle(c: &SeqCase) -> Verdict {
    let c = &effective(c);
    let mark = panic_mark();
    let out = match seq_run(c) {
        Ok(Ok(o)) => o,
        Ok(Err(e)) => vfail!("harness:netbed", "{e}"),
        Err(BedErr::RealTimeCap) => vfail!("send-operation-hangs", "a send-side operation did not return"),
        Err(BedErr::Setup(e)) => vfail!("harness:netbed", "{e}"),
    };
    let panics = library_panics_since(mark);
    if !panics.is_empty() {
        vfail!("panic", "{:?}", panics);
    }
    if c.state != 0 {
        for (op, r) in c.ops.iter().zip(&out.results) {
            if r.is_ok() {
                vfail!("operation-succeeds-without-connection", "{:?} returned Ok on a connection that is {}", op, ["", "not connected", "closed", "refused by the peer (status nok)", "refused (the peer's acknowledgement was wrong)"][c.state as usize % 5]);
            }
        }
        if !out.frames.is_empty() || out.leftover > 0 {
            vfail!("bytes-written-without-connection", "{} frames / {} stray bytes reached the peer", out.frames.len(), out.leftover);
        }
        return Verdict::Pass(CaseInfo::nt(fp(&format!("{:?}", c))).class("not-connected"));
    }
    if out.leftover > 0 {
        vfail!("partial-frame-on-the-wire", "{} bytes that do not form a complete frame", out.leftover);
    }
    let ok_ops: Vec<&SendOp> = c.ops.iter().zip(&out.results).filter(|(_, r)| r.is_ok()).map(|(o, _)| o).collect();
    if out.frames.len() != ok_ops.len() {
        vfail!("frame-count-differs-from-operations", "{} operations succeeded ({} failed) but the peer received {} frames", ok_ops.len(), c.ops.len() - ok_ops.len(), out.frames.len());
    }
    let mut cache = PeerCache::default();
    let mut boundary = false;
    let negotiated_header = c.header_mode && c.peer_header;
    for (i, (op, frame)) in ok_ops.iter().zip(&out.frames).enumerate() {
        let (want_c, want_p) = expected_control(op);
        let (got_c, got_p) = if negotiated_header {
            match read_dist_message(frame, &mut cache) {
                Ok(m) => (m.control, m.payload),
                Err(e) => vfail!("frame-not-readable", "frame {i} for {:?} is not a well-formed distribution-header message: {:?}", op, e),
            }
        } else {
            match parse_pass_through(frame) {
                Ok(x) => x,
                Err(e) => vfail!("frame-not-readable", "frame {i} for {:?} is not a well-formed pass-through message: {e}", op),
            }
        };
        if !matches_control(&got_c, &want_c) {
            vfail!("wrong-control-tuple", "frame {i}: operation {:?} was sent as {}", op, got_c.render());
        }
        match (&got_p, &want_p) {
            (None, None) => {}
            (Some(a), Some(b)) if a.same(b) => {}
            (a, b) => vfail!("wrong-payload", "frame {i}: operation {:?} carried payload {:?}, expected {:?}", op, a.as_ref().map(|v| v.render()), b.as_ref().map(|v| v.render())),
        }
        if let SendOp::Unlink { id, .. } = op {
            if *id >= (1 << 31) {
                boundary = true;
            }
        }
    }
    // failed operations: acceptable only for what the format cannot carry
    for (op, r) in c.ops.iter().zip(&out.results) {
        if let Err(e) = r {
            let mut atoms = vec![];
            let (wc, wp) = expected_control(op);
            for v in wc.iter().flatten().chain(wp.iter()) {
                refmodel::dist::atoms_of(v, &mut atoms);
            }
            // (the control tuple adds at most a handful of atoms the model does not spell out)
            let too_many_atoms = e.contains("too many atoms") && negotiated_header && atoms.len() + 6 > 255;
            if !too_many_atoms && !e.contains("too large") {
                vfail!("operation-failed-on-connected-connection", "{:?} failed: {e}", op);
            }
        }
    }
    let info = if boundary || c.ops.len() >= 2 { CaseInfo::nt(fp(&format!("{:?}", c))) } else { CaseInfo::trivial() };
    let failed_ops = out.results.iter().filter(|r| r.is_err()).count();
    Verdict::Pass(
        info.class_if(negotiated_header, "header-mode")
            .class_if(!negotiated_header, "pass-through")
            .class_if(c.header_mode != c.peer_header, "asymmetric-header-flag")
            .class_if(failed_ops > 0, "unencodable-operation-in-sequence")
            .class_if(boundary, "unlink-id>=2^31"),
    )
}

// ---- concurrent senders through one Node ---------------------------------------------------------

#[derive(Clone, Debug, Serialize, Deserialize)]
pub struct ConcCase {
    /// per task: list of op kinds (0 send, 1 link, 2 unlink, 3 monitor, 4 demonitor)
    pub tasks: Vec<Vec<u8>>,
    pub schedule: Vec<u8>,
    pub big_payload: bool,
}

struct ConcOutcome {
    issued: Vec<Vec<(u8, bool)>>,
    frames: Vec<Vec<u8>>,
    leftover: usize,
    switched: usize,
}

fn conc_run(c: &ConcCase) -> Result<Result<ConcOutcome, String>, BedErr> {
    let c = c.clone();
    run_case(Duration::from_secs(30), move |bed| async move {
        let (node, mut p) = node_with_peer(&bed, u64::MAX).await?;
        let local = tokio::task::LocalSet::new();
        let switched = install_schedule(c.schedule.clone());
        let big = c.big_payload;
        let issued = local
            .run_until(async {
                let mut hs = vec![];
                for (t, ops) in c.tasks.iter().enumerate() {
                    let node = node.clone();
                    let ops = ops.clone();
                    hs.push(tokio::task::spawn_local(async move {
                        let mut done = vec![];
                        for (k, kind) in ops.iter().enumerate() {
                            let me = erltf::ExternalPid::new(Atom::new("rust@127.0.0.1"), 9000 + t as u32, k as u32, 1);
                            let remote = erltf::ExternalPid::new(Atom::new("peer@127.0.0.1"), t as u32, k as u32, 7);
                            let r = match kind % 5 {
                                0 => {
                                    let mut items = vec![OwnedTerm::Integer(t as i64), OwnedTerm::Integer(k as i64)];
                                    if big {
                                        items.push(OwnedTerm::Binary(vec![t as u8; 3000]));
                                    }
                                    node.send(&remote, OwnedTerm::Tuple(items)).await.map(|_| ())
                                }
                                1 => node.link(&me, &remote).await,
                                2 => node.unlink(&me, &remote).await,
                                3 => node.monitor(&me, &remote).await.map(|_| ()),
                                _ => {
                                    let r = ExternalReference::new(Atom::new("rust@127.0.0.1"), 1, vec![t as u32, k as u32, 77]);
                                    node.demonitor(&me, &remote, &r).await
                                }
                            };
                            done.push((kind % 5, r.is_ok()));
                        }
                        done
                    }));
                }
                let mut all = vec![];
                for h in hs {
                    all.push(h.await.unwrap_or_default());
                }
                all
            })
            .await;
        clear_schedule();
        let frames = collect_frames(&mut p).await;
        Ok(ConcOutcome { issued, frames, leftover: p.deframer.buf.len(), switched: switched.get() })
    })
}

pub fn conc_oracle(c: &ConcCase) -> Verdict {
    let mark = panic_mark();
    let out = match conc_run(c) {
        Ok(Ok(o)) => o,
        Ok(Err(e)) => vfail!("harness:netbed", "{e}"),
        Err(BedErr::RealTimeCap) => vfail!("send-operation-hangs", "concurrent operations did not all return (deadlock?)"),
        Err(BedErr::Setup(e)) => vfail!("harness:netbed", "{e}"),
    };
    clear_schedule();
    let panics = library_panics_since(mark);
    if !panics.is_empty() {
        vfail!("panic", "{:?}", panics);
    }
    if out.leftover > 0 {
        vfail!("partial-frame-on-the-wire", "{} stray bytes after the last complete frame", out.leftover);
    }
    let ok_total: usize = out.issued.iter().map(|t| t.iter().filter(|(_, ok)| *ok).count()).sum();
    let failed: usize = out.issued.iter().map(|t| t.iter().filter(|(_, ok)| !*ok).count()).sum();
    if failed > 0 {
        vfail!("operation-failed-on-connected-connection", "{failed} operations failed");
    }
    if out.frames.len() != ok_total {
        vfail!("frame-count-differs-from-operations", "{} operations succeeded but the peer received {} frames", ok_total, out.frames.len());
    }
    // every frame parses (interleaved writes would corrupt lengths or terms) and names its task and sequence number
    let mut next: Vec<usize> = vec![0; c.tasks.len()];
    for (i, f) in out.frames.iter().enumerate() {
        let (ctrl, payload) = match parse_pass_through(f) {
            Ok(x) => x,
            Err(e) => vfail!("frame-not-readable", "frame {i} of {}: {e} (bytes of different frames interleaved?)", out.frames.len()),
        };
        let Value::Tuple(el) = &ctrl else { vfail!("wrong-control-tuple", "frame {i}: {}", ctrl.render()) };
        let tag = match el.first() {
            Some(Value::Int(b)) => b.to_i64().unwrap_or(-1),
            _ => -1,
        };
        // recover (task, seq) from the remote pid (id = task, serial = seq) or, for sends, from the payload
        let (t, k, kind) = match tag {
            2 => match &payload {
                Some(Value::Tuple(pl)) if pl.len() >= 2 => match (&pl[0], &pl[1]) {
                    (Value::Int(a), Value::Int(b)) => (a.to_i64().unwrap_or(-1), b.to_i64().unwrap_or(-1), 0u8),
                    _ => vfail!("wrong-payload", "frame {i}: {:?}", payload.as_ref().map(|v| v.render())),
                },
                _ => vfail!("wrong-payload", "frame {i}: SEND without the payload that was given"),
            },
            1 | 35 | 19 | 20 => {
                let to_idx = if tag == 35 { 3 } else { 2 };
                match el.get(to_idx) {
                    Some(Value::Pid { id, serial, .. }) => (*id as i64, *serial as i64, match tag { 1 => 1, 35 => 2, 19 => 3, _ => 4 }),
                    _ => vfail!("wrong-control-tuple", "frame {i}: {}", ctrl.render()),
                }
            }
            _ => vfail!("wrong-control-tuple", "frame {i}: unexpected control {}", ctrl.render()),
        };
        let t = t as usize;
        if t >= c.tasks.len() {
            vfail!("wrong-control-tuple", "frame {i} names task {t}");
        }
        if k as usize != next[t] {
            vfail!("per-task-order-violated", "frame {i}: task {t} issued operation #{} next, but #{k} arrived", next[t]);
        }
        if c.tasks[t][k as usize] % 5 != kind {
            vfail!("wrong-control-tuple", "frame {i}: task {t} op #{k} was kind {} but a message of kind {kind} arrived", c.tasks[t][k as usize] % 5);
        }
        if tag == 2 {
            if let Some(Value::Tuple(pl)) = &payload {
                if c.big_payload && !matches!(pl.get(2), Some(Value::Bits { bytes, .. }) if bytes.len() == 3000 && bytes.iter().all(|b| *b == t as u8)) {
                    vfail!("wrong-payload", "frame {i}: the 3000-byte payload of task {t} arrived altered");
                }
            }
        }
        next[t] += 1;
    }
    let info = if c.tasks.len() >= 2 && out.switched > 0 { CaseInfo::nt(fp(&format!("{:?}", c))) } else { CaseInfo::trivial() };
    Verdict::Pass(info.class("concurrent-node").class_if(out.switched > 0, "schedule-switched-inside-frame").class_if(c.big_payload, "big-payload"))
}

fn op_strategy() -> impl Strategy<Value = SendOp> {
    let payload = || {
        prop_oneof![
            14 => arb_value(GenCfg { depth: 3, size: 12, heavy: false, ..GenCfg::std() }),
            // more distinct atoms than a distribution header can reference (fails in header mode only)
            // (around the limit of 255: the control tuple's own atoms count too)
            1 => prop_oneof![248usize..262, 256usize..320].prop_map(|n| Value::list((0..n).map(|i| Value::atom(&format!("atom_{i}"))).collect())),
            // an atom no encoding can carry (fails in both modes)
            1 => Just(Value::Tuple(vec![Value::int(1), Value::Atom("x".repeat(65536))])),
        ]
    };
    let id = prop_oneof![
        3 => prop::sample::select(vec![0u64, 1, (1 << 31) - 1, 1 << 31, 1 << 32, (1u64 << 63) - 1, 1u64 << 63, u64::MAX]),
        2 => any::<u64>(),
        1 => 0u64..1000,
    ];
    let name = prop_oneof![3 => "[a-z_]{1,12}".prop_map(|s| s), 1 => Just(String::new()), 1 => Just("n".repeat(255)), 1 => Just("ñ".repeat(200)), 1 => Just("rex".to_string())];
    prop_oneof![
        3 => (arb_pid(), payload()).prop_map(|(to, payload)| SendOp::Send { to, payload }),
        3 => (arb_pid(), name, payload()).prop_map(|(from, name, payload)| SendOp::RegSend { from, name, payload }),
        2 => (arb_pid(), arb_pid()).prop_map(|(from, to)| SendOp::Link { from, to }),
        3 => (arb_pid(), arb_pid(), id).prop_map(|(from, to, id)| SendOp::Unlink { from, to, id }),
        2 => (arb_pid(), arb_pid(), arb_ref(false)).prop_map(|(from, to, reference)| SendOp::Monitor { from, to, reference }),
        2 => (arb_pid(), arb_pid(), arb_ref(false)).prop_map(|(from, to, reference)| SendOp::Demonitor { from, to, reference }),
    ]
}

/// sends whose frame length steps byte by byte across 2^12, 2^13, 2^14, 2^15 and 2^16 (88 consecutive lengths each), in
/// both framing modes: a writer that treats "small" and "large" frames differently has its boundary somewhere there
fn size_sweep() -> Vec<SeqCase> {
    let mut out = vec![];
    let to = Value::Pid { node: "peer@127.0.0.1".into(), id: 5, serial: 0, creation: 1 };
    for header_mode in [true, false] {
        for p in [4096usize, 8192, 16384, 32768, 65536] {
            for base in ((p - 80)..(p + 8)).step_by(8) {
                let ops = (base..base + 8)
                    .map(|n| SendOp::Send { to: to.clone(), payload: Value::binary(&(0..n).map(|i| (i * 13 % 251) as u8).collect::<Vec<u8>>()) })
                    .collect();
                out.push(SeqCase { header_mode, peer_header: true, ops, repr: vec![], huge_kib: 0, state: 0 });
            }
        }
    }
    out
}

fn seq_strategy() -> impl Strategy<Value = SeqCase> {
    // now and then two consecutive sends whose payloads differ only in the sign of a zero (equal for the library's `==`,
    // different values on the wire): the second must not go out as a copy of the first
    let twin = prop::option::weighted(0.25, (arb_pid(), arb_value(GenCfg { depth: 2, size: 5, heavy: false, ..GenCfg::std() }), any::<bool>()));
    let ops = (prop::collection::vec(op_strategy(), 1..8), twin).prop_map(|(mut ops, twin)| {
        if let Some((to, x, neg_first)) = twin {
            let zero = |neg: bool| Value::Float(if neg { (-0.0f64).to_bits() } else { 0.0f64.to_bits() });
            ops.push(SendOp::Send { to: to.clone(), payload: Value::Tuple(vec![x.clone(), zero(neg_first)]) });
            ops.push(SendOp::Send { to, payload: Value::Tuple(vec![x, zero(!neg_first)]) });
        }
        ops
    });
    (any::<bool>(), prop::bool::weighted(0.7), ops, arb_choices(24), prop_oneof![8 => Just(0u8), 1 => Just(1u8), 1 => Just(2u8), 1 => Just(3u8), 1 => Just(4u8)], prop_oneof![60 => Just(0u32), 1 => Just(9000u32), 1 => 5000u32..14000])
        .prop_map(|(header_mode, peer_header, ops, repr, state, huge_kib)| SeqCase { header_mode, peer_header, ops, repr, state, huge_kib })
}

fn conc_strategy() -> impl Strategy<Value = ConcCase> {
    (prop::collection::vec(prop::collection::vec(0u8..5, 1..8), 1..6), prop::collection::vec(any::<u8>(), 0..40), prop::bool::weighted(0.3))
        .prop_map(|(tasks, schedule, big_payload)| ConcCase { tasks, schedule, big_payload })
}

pub fn run(run: &mut Run) {
    run.rule = "(a) sequences of send / send-to-name / link / unlink / monitor / demonitor on a Connection handshaken with a scripted peer, in pass-through and in distribution-header mode, with pids/refs \
        in plain and node-local form, names of 0..255 bytes, payloads from the term space (and 248..320 distinct atoms; sends whose frame length steps byte by byte across 2^12..2^16), unlink ids over the 64-bit range; also on a never-connected and on a closed Connection. The peer's byte stream is \
        cut into frames by an independent deframer and each frame read by an independent reader (pass-through layout or distribution header) and compared with the protocol's control tuple for the operation. \
        (b) 1..5 tasks issuing 1..7 operations each through one Node, interleaved by a generated schedule applied at the scheduling points between the partial writes of a frame and before each connection lock. \
        Non-trivial = (a) >= 2 operations or a boundary argument, (b) >= 2 tasks and a schedule that yielded inside a frame"
        .into();
    run.assumptions = vec![
        "the 'Unused' slot of SEND / REG_SEND may hold any term".into(),
        "task interleaving is controlled at the instrumented scheduling points and at real I/O waits only".into(),
    ];
    run.enumerate("frame-sizes-around-powers-of-two", size_sweep().into_iter(), seq_oracle);
    run.prop("operations", seq_strategy, run.tier.pick(4000, 150_000), seq_oracle);
    run.prop("concurrent-node", conc_strategy, run.tier.pick(2500, 100_000), conc_oracle);
}

pub fn replays() -> Vec<ReplayEntry> {
    vec![replay_entry("operations", seq_oracle), replay_entry("frame-sizes-around-powers-of-two", seq_oracle), replay_entry("concurrent-node", conc_oracle)]
}

//! C06 — receiving delivers each peer message exactly once, in order, and survives junk.

use crate::engine::{fp, replay_entry, CaseInfo, ReplayEntry, Run, Verdict};
use crate::gen::{arb_value, GenCfg};
use crate::netbed::{advance, connected_pair, drain, library_panics_since, panic_mark, run_case, BedErr};
use crate::terms::denote;
use edp_client::flags::DistributionFlags;
use edp_client::Connection;
use proptest::prelude::*;
use refmodel::dist::{fragment, sender_encode, SenderCache};
use refmodel::etf::{refenc_canonical, Canonical};
use refmodel::proto::{frame4, CONTROL_TABLE};
use refmodel::{BigI, Value};
use serde::{Deserialize, Serialize};
use std::cell::{Cell, RefCell};
use std::time::Duration;

macro_rules! vfail_ {
    ($sig:expr, $detail:expr) => {
        return Verdict::Fail { signature: $sig.to_string(), detail: $detail }
    };
}

#[derive(Clone, Debug, Serialize, Deserialize, PartialEq)]
pub enum Form {
    PassThrough,
    /// distribution header; slot policy seed
    Header(u16),
    /// distribution header, split into fragments at these cut points (per mille of the body)
    Fragmented(u16, Vec<u16>),
}

#[derive(Clone, Debug, Serialize, Deserialize, PartialEq)]
pub enum Junk {
    Random(Vec<u8>),
    /// a valid pass-through frame cut short (the frame length matches the shortened body)
    TruncatedTerm(u8),
    WrongFirstByte(u8),
    /// `131 69 Seq Frag Count` and then fewer bytes than the count announces
    FragHeaderShort { frag_id: u8, count: u8, extra: u8 },
    FragContUnknown { frag_id: u8 },
    NotAControlTuple,
    EmptyTupleControl,
    /// one of a table of one- to three-byte frames (`131`, `112`, `131 68`, `131 69`, ...)
    Tiny(u8),
    /// header mode only: a frame with a conforming distribution header that introduces new atom cache entries, followed
    /// by a term that cannot be decoded; then a valid message that refers to those entries
    HeaderThenBadTerm(u16),
    /// 250..400 frames in a row that end exactly where the next term would begin (a tuple that announces three elements and
    /// brings none): each is an error for itself, however many there are
    CutAtTermBoundaryRun(u8),
}

const TINY: &[&[u8]] = &[&[131], &[112], &[131, 68], &[131, 69], &[131, 70], &[112, 131], &[131, 80], &[68], &[131, 68, 1], &[131, 69, 0], &[112, 131, 104], &[0], &[131, 131], &[70]];

#[derive(Clone, Debug, Serialize, Deserialize, PartialEq)]
pub enum Item {
    Msg { row: u8, fields: Vec<Value>, payload: Value, form: Form },
    Tick,
    Junk(Junk),
}

#[derive(Clone, Debug, Serialize, Deserialize)]
pub struct Case {
    pub header_mode: bool,
    pub items: Vec<Item>,
    pub cuts: Vec<u16>,
    pub read_half: bool,
    /// after the last message the peer starts one more frame and disappears inside it (FIN); the value picks where
    #[serde(default)]
    pub dies_inside: Option<u16>,
    /// read-half loop only: the peer falls silent at a frame boundary for 6..20 virtual seconds (longer than the
    /// receiver's per-frame timeout), and the frame that ends the silence arrives in two pieces
    #[serde(default)]
    pub quiet: Option<(u16, u8)>,
}

const WITH_PAYLOAD: &[u8] = &[2, 6, 12, 16, 22, 23, 24, 25, 26, 27, 28, 33, 34];

fn control_of(row: u8, fields: &[Value]) -> (Value, bool) {
    let r = &CONTROL_TABLE[row as usize % CONTROL_TABLE.len()];
    let mut v = vec![Value::int(r.1 as i128)];
    for (i, name) in r.3.iter().enumerate() {
        let f = fields.get(i).cloned().unwrap_or(Value::atom("f"));
        if *name == "Id" {
            let id = match &f {
                Value::Int(b) if b.to_u64().is_some() => f.clone(),
                _ => Value::Int(BigI::from_u64(1 << 40)),
            };
            v.push(id);
        } else {
            v.push(f);
        }
    }
    (Value::Tuple(v), WITH_PAYLOAD.contains(&r.1))
}

fn sentinel() -> (Value, Value) {
    (Value::Tuple(vec![Value::int(2), Value::atom(""), Value::Pid { node: "rust@127.0.0.1".into(), id: 424242, serial: 0, creation: 1 }]), Value::atom("the_end"))
}

fn pass_through(control: &Value, payload: Option<&Value>) -> Vec<u8> {
    let mut b = vec![112u8];
    b.extend_from_slice(&refenc_canonical(control));
    if let Some(p) = payload {
        b.extend_from_slice(&refenc_canonical(p));
    }
    b
}

fn atom_hash(a: &str) -> u16 {
    let mut h: u32 = 0x811c9dc5;
    for b in a.bytes() {
        h = (h ^ b as u32).wrapping_mul(0x0100_0193);
    }
    (h ^ (h >> 16)) as u16
}

struct Built {
    stream: Vec<u8>,
    /// (control, payload, multi_fragment) of every valid message in order, sentinel last
    expected: Vec<(Value, Option<Value>, bool)>,
    junk_frames: usize,
    ticks: usize,
    split_forms: usize,
    /// bytes of an unfinished frame at the very end of the stream (0 = none)
    partial: usize,
}

fn build(c: &Case) -> Built {
    let mut stream = vec![];
    let mut expected = vec![];
    let mut cache = SenderCache::default();
    let mut junk_frames = 0;
    let mut ticks = 0;
    let mut split_forms = 0;
    let mut seq: u64 = 1000;
    let mut emit_msg = |control: Value, payload: Option<Value>, form: &Form, stream: &mut Vec<u8>, expected: &mut Vec<(Value, Option<Value>, bool)>, cache: &mut SenderCache| {
        let form = if c.header_mode && !c.read_half { form.clone() } else { Form::PassThrough };
        match form {
            Form::PassThrough => {
                stream.extend_from_slice(&frame4(&pass_through(&control, payload.as_ref())));
                expected.push((control, payload, false));
            }
            Form::Header(seed) => {
                // the slot follows from the atom's text (as in a real node: equal atoms meet their earlier entry again); half of
                // the messages squeeze their atoms into six slots, so that slots are overwritten and re-used all the time
                let space = if seed % 2 == 0 { 6 } else { 2048 };
                let mut slot_of = |a: &str| Some(if a == "slot_b" { 256 } else if a.starts_with("slot_") { 255 } else { (atom_hash(a).wrapping_add(seed >> 15)) % space });
                let (b, _) = sender_encode(&control, payload.as_ref(), cache, &mut slot_of, &mut Canonical);
                stream.extend_from_slice(&frame4(&b));
                expected.push((control, payload, false));
            }
            Form::Fragmented(seed, cuts) => {
                let space = if seed % 2 == 0 { 6 } else { 2048 };
                let mut slot_of = |a: &str| Some(if a == "slot_b" { 256 } else if a.starts_with("slot_") { 255 } else { (atom_hash(a).wrapping_add(seed >> 15)) % space });
                let (b, refs) = sender_encode(&control, payload.as_ref(), cache, &mut slot_of, &mut Canonical);
                let body_len = b.len() - 2;
                let pts: Vec<usize> = cuts.iter().map(|p| (*p as usize * body_len) / 1000).collect();
                let frames = fragment(&b, seq, &pts);
                seq += 1;
                let multi = frames.len() >= 2;
                if multi {
                    // whether the receiver took this message's header in or not (reassembly garbles the message, C06-F1), the
                    // sender no longer relies on the slots it wrote: it forgets them and will write them afresh
                    for r in refs.iter().filter(|r| r.new) {
                        cache.slots[r.slot as usize] = None;
                    }
                }
                for f in frames {
                    stream.extend_from_slice(&frame4(&f));
                }
                expected.push((control, payload, multi));
            }
        }
    };
    for it in &c.items {
        match it {
            Item::Tick => {
                stream.extend_from_slice(&[0, 0, 0, 0]);
                ticks += 1;
            }
            Item::Msg { row, fields, payload, form } => {
                let (control, has_payload) = control_of(*row, fields);
                if *form != Form::PassThrough {
                    split_forms += 1;
                }
                emit_msg(control, if has_payload { Some(payload.clone()) } else { None }, form, &mut stream, &mut expected, &mut cache);
            }
            Item::Junk(j) => {
                junk_frames += 1;
                let body: Vec<u8> = match j {
                    Junk::Random(b) => {
                        let mut b = b.clone();
                        if b.is_empty() {
                            b.push(7);
                        }
                        // keep random junk from posing as a header / fragment frame of this connection
                        if b[0] == 131 && b.len() > 1 && (68..=70).contains(&b[1]) {
                            b[1] = 1;
                        }
                        b
                    }
                    Junk::TruncatedTerm(k) => {
                        let (ctl, pay) = sentinel();
                        // cut strictly inside the control term, so what remains is not a message
                        let control = Value::Tuple(vec![Value::int(2), Value::atom("x"), ctl]);
                        let lc = refenc_canonical(&control).len();
                        let full = pass_through(&control, Some(&pay));
                        let n = 2 + (*k as usize * (lc - 2)) / 256;
                        full[..n].to_vec()
                    }
                    Junk::WrongFirstByte(b) => {
                        let (ctl, pay) = sentinel();
                        let mut f = pass_through(&ctl, Some(&pay));
                        f[0] = if *b == 112 || *b == 131 { 7 } else { *b };
                        f
                    }
                    Junk::FragHeaderShort { frag_id, count, extra } => {
                        let mut f = vec![131u8, 69];
                        f.extend_from_slice(&(900_000u64 + *frag_id as u64).to_be_bytes());
                        f.extend_from_slice(&((*frag_id % 3) as u64 + 1).to_be_bytes());
                        f.push(*count);
                        f.extend(std::iter::repeat(0xEE).take((*extra % 4) as usize));
                        f
                    }
                    Junk::FragContUnknown { frag_id } => {
                        let mut f = vec![131u8, 70];
                        f.extend_from_slice(&(800_000u64 + *frag_id as u64).to_be_bytes());
                        f.extend_from_slice(&(*frag_id as u64 + 2).to_be_bytes());
                        f.extend_from_slice(&[1, 2, 3]);
                        f
                    }
                    Junk::Tiny(k) => TINY[*k as usize % TINY.len()].to_vec(),
                    Junk::HeaderThenBadTerm(seed) if c.header_mode && !c.read_half => {
                        let names = [format!("hb{}", seed % 5), format!("hx{}", seed % 3)];
                        let control = Value::Tuple(vec![Value::int(2), Value::atom(""), Value::Pid { node: "rust@127.0.0.1".into(), id: 7, serial: 0, creation: 1 }]);
                        let payload = Value::Tuple(vec![Value::atom(&names[0]), Value::atom(&names[1]), Value::int(7)]);
                        let slots = |seed: u16| {
                            let mut k = seed;
                            move |a: &str| {
                                k = k.wrapping_mul(31).wrapping_add(a.len() as u16 + 7);
                                Some(k % 2048)
                            }
                        };
                        let (mut bad, _) = sender_encode(&control, Some(&payload), &mut cache, &mut slots(*seed), &mut Canonical);
                        // the payload ends `97 7`: make its last element an unassigned tag
                        let n = bad.len();
                        bad[n - 2] = 0;
                        // one time in two the refused message travels as a fragmented message of one fragment (a different receive path)
                        if seed & 0x400 != 0 {
                            let fr = fragment(&bad, 700_000 + *seed as u64, &[]);
                            debug_assert_eq!(fr.len(), 1);
                            stream.extend_from_slice(&frame4(&fr[0]));
                        } else {
                            stream.extend_from_slice(&frame4(&bad));
                        }
                        // the peer does not know the frame was refused: it now refers to the entries it has just sent
                        let (good, refs) = sender_encode(&control, Some(&payload), &mut cache, &mut slots(*seed), &mut Canonical);
                        debug_assert!(refs.iter().all(|r| !r.new));
                        expected.push((control, Some(payload), false));
                        split_forms += 1;
                        good
                    }
                    Junk::HeaderThenBadTerm(k) => TINY[*k as usize % TINY.len()].to_vec(),
                    Junk::CutAtTermBoundaryRun(k) => {
                        let one: Vec<u8> = if c.header_mode && !c.read_half { vec![131, 68, 0, 104, 3] } else { vec![112, 131, 104, 3] };
                        let n = 250 + (*k as usize * 150) / 256;
                        for _ in 1..n {
                            stream.extend_from_slice(&frame4(&one));
                        }
                        junk_frames += n - 1;
                        one
                    }
                    Junk::NotAControlTuple => pass_through(&Value::atom("hello"), None),
                    Junk::EmptyTupleControl => pass_through(&Value::Tuple(vec![]), Some(&Value::int(1))),
                };
                stream.extend_from_slice(&frame4(&body));
            }
        }
    }
    let (sc, sp) = sentinel();
    emit_msg(sc, Some(sp), &Form::PassThrough, &mut stream, &mut expected, &mut cache);
    let mut partial = 0;
    if let Some(k) = c.dies_inside {
        let control = Value::Tuple(vec![Value::int(2), Value::atom(""), Value::Pid { node: "rust@127.0.0.1".into(), id: 7, serial: 0, creation: 1 }]);
        let payload = if k & 4 == 0 { Value::atom("never_finished") } else { Value::binary(&vec![0x5a; 70_000]) };
        let clen = refenc_canonical(&control).len();
        let f = frame4(&pass_through(&control, Some(&payload)));
        let cut = match k & 3 {
            0 | 1 => 4 + 1 + clen,                                  // exactly between the control term and the payload
            2 => [1usize, 2, 3, 4, 5, 6][(k >> 3) as usize % 6],    // inside the length prefix / just behind the marker
            _ => 5 + ((k >> 3) as usize * (f.len() - 6) >> 13).min(f.len() - 6), // anywhere inside
        };
        stream.extend_from_slice(&f[..cut]);
        partial = cut;
    }
    Built { stream, expected, junk_frames, ticks, split_forms, partial }
}

enum Got {
    Ok(Value, Option<Value>),
    Err(String),
    /// what the receive call after the last complete message returned when the peer died inside a frame
    AfterEnd(Result<String, String>),
}

fn run_net(c: &Case, b: &Built) -> Result<Result<Vec<Got>, String>, BedErr> {
    let c = c.clone();
    let stream = b.stream.clone();
    let max_results = b.expected.len() + b.junk_frames + 8;
    let partial = b.partial > 0;
    run_case(Duration::from_secs(30), move |bed| async move {
        let extra = if c.header_mode { DistributionFlags::DIST_HDR_ATOM_CACHE.as_u64() } else { 0 };
        let ours = DistributionFlags::default().as_u64() | extra;
        let (mut conn, p, _) = connected_pair(&bed, ours, DistributionFlags::default().as_u64() | extra, Duration::from_secs(5)).await?;
        let mut p = Some(p);
        let done = Cell::new(false);
        let results: RefCell<Vec<Got>> = RefCell::new(vec![]);
        let (s_end, _) = sentinel();
        let receiver = async {
            let mut rh = if c.read_half { conn.take_read_half() } else { None };
            let mut timeouts = 0;
            loop {
                let r = match rh.as_mut() {
                    Some(h) => Connection::receive_message_from_read_half(h, Duration::from_secs(5)).await,
                    None => conn.receive_message().await,
                };
                match r {
                    Ok((ctrl, payload)) => {
                        timeouts = 0;
                        let cv = denote(&ctrl.to_term());
                        let is_end = cv.same(&s_end);
                        results.borrow_mut().push(Got::Ok(cv, payload.as_ref().map(denote)));
                        if is_end {
                            if partial {
                                let r = match rh.as_mut() {
                                    Some(h) => Connection::receive_message_from_read_half(h, Duration::from_secs(5)).await,
                                    None => conn.receive_message().await,
                                };
                                results.borrow_mut().push(Got::AfterEnd(match r {
                                    Ok((ctrl, payload)) => Ok(format!("{} / {:?}", denote(&ctrl.to_term()).render(), payload.as_ref().map(|t| crate::engine::truncate(&denote(t).render(), 80)))),
                                    Err(e) => Err(e.to_string()),
                                }));
                            }
                            break;
                        }
                    }
                    Err(e) => {
                        let text = e.to_string();
                        let is_timeout = e.is_timeout();
                        let closed = e.is_connection_closed();
                        results.borrow_mut().push(Got::Err(text));
                        if is_timeout {
                            timeouts += 1;
                        }
                        if timeouts >= 2 || closed {
                            break;
                        }
                    }
                }
                if results.borrow().len() > max_results {
                    break;
                }
            }
            done.set(true);
        };
        let sender = async {
            let cuts: Vec<usize> = c.cuts.iter().map(|k| (*k as usize * stream.len()) >> 16).collect();
            let pp = p.as_mut().unwrap();
            let mut starts = vec![];
            let mut i = 0usize;
            while i + 4 <= stream.len() {
                let l = u32::from_be_bytes([stream[i], stream[i + 1], stream[i + 2], stream[i + 3]]) as usize;
                if i + 4 + l > stream.len() {
                    break;
                }
                starts.push(i);
                i += 4 + l;
            }
            match c.quiet {
                Some((pos, secs)) if c.read_half && starts.len() >= 2 => {
                    let b = starts[1 + pos as usize % (starts.len() - 1)];
                    let scaled = |from: usize, to: usize| -> Vec<usize> { c.cuts.iter().map(|k| (*k as usize * (to - from)) >> 16).collect() };
                    let _ = pp.write_segmented(&stream[..b], &scaled(0, b)).await;
                    pp.settle().await;
                    advance(Duration::from_secs(6 + secs as u64 % 15)).await;
                    let first = [1usize, 2, 3, 4, 5, 9][(pos >> 8) as usize % 6].min(stream.len() - b - 1).max(1);
                    let _ = pp.write(&stream[b..b + first]).await;
                    pp.settle().await;
                    std::thread::sleep(Duration::from_millis(2));
                    drain().await;
                    let _ = pp.write_segmented(&stream[b + first..], &scaled(b + first, stream.len())).await;
                }
                _ => {
                    let _ = pp.write_segmented(&stream, &cuts).await;
                }
            }
            pp.settle().await;
            if partial {
                // the peer goes away for good inside the frame it has just started
                p.take().unwrap().close_gracefully();
            }
            // if the receiver is still waiting, only its timeout can end the wait: let virtual time pass
            for _ in 0..6 {
                if done.get() {
                    break;
                }
                advance(Duration::from_secs(6)).await;
            }
        };
        tokio::join!(receiver, sender);
        drop(p);
        Ok(results.into_inner())
    })
}

pub fn oracle(c: &Case) -> Verdict {
    let b = build(c);
    let mark = panic_mark();
    let got = match run_net(c, &b) {
        Ok(Ok(g)) => g,
        Ok(Err(e)) => vfail_!("harness:netbed", e),
        Err(BedErr::RealTimeCap) => vfail_!("receive-hangs", "receive_message neither returned a message nor timed out".to_string()),
        Err(BedErr::Setup(e)) => vfail_!("harness:netbed", e),
    };
    let panics = library_panics_since(mark);
    if !panics.is_empty() {
        vfail_!("panic-in-receive-path", format!("{:?}", panics));
    }
    if std::env::var("VERIF_DEBUG").is_ok() {
        for (i, e) in b.expected.iter().enumerate() {
            eprintln!("expected[{i}] = {} / {:?} multi={}", e.0.render(), e.1.as_ref().map(|v| v.render()), e.2);
        }
        for (i, g) in got.iter().enumerate() {
            match g {
                Got::Ok(c, p) => eprintln!("got[{i}] = Ok {} / {:?}", c.render(), p.as_ref().map(|v| v.render())),
                Got::Err(e) => eprintln!("got[{i}] = Err {e}"),
                Got::AfterEnd(r) => eprintln!("got[{i}] = after the end {r:?}"),
            }
        }
    }
    // the Ok results, in order, must be the valid messages in order; multi-fragment messages may be
    // missing (known finding) but nothing else
    let oks: Vec<(&Value, &Option<Value>)> = got.iter().filter_map(|g| if let Got::Ok(c, p) = g { Some((c, p)) } else { None }).collect();
    let errs = got.iter().filter(|g| matches!(g, Got::Err(_))).count();
    for g in &got {
        if let Got::AfterEnd(Ok(what)) = g {
            vfail_!(
                "unfinished-frame-delivered-as-message",
                format!("the peer sent {} bytes of a frame and closed the connection; the receiver returned a message for it: {what}", b.partial)
            );
        }
    }
    let died_inside = got.iter().any(|g| matches!(g, Got::AfterEnd(Err(_))));
    // align the delivered messages with the expected ones; a multi-fragment message is optional
    let same = |k: usize, g: usize| -> bool {
        let (ec, ep, _) = &b.expected[k];
        let (c2, p2) = oks[g];
        c2.same(ec)
            && match (p2, ep) {
                (None, None) => true,
                (Some(a), Some(b)) => a.same(b),
                _ => false,
            }
    };
    let (ne, ng) = (b.expected.len(), oks.len());
    // reach[k][g]: expected[k..] can be aligned with oks[g..]
    let mut reach = vec![vec![false; ng + 1]; ne + 1];
    reach[ne][ng] = true;
    for k in (0..ne).rev() {
        for g in (0..=ng).rev() {
            let take = g < ng && same(k, g) && reach[k + 1][g + 1];
            let skip = b.expected[k].2 && reach[k + 1][g];
            reach[k][g] = take || skip;
        }
    }
    let mut missing_fragmented = 0;
    if reach[0][0] {
        let (mut k, mut g) = (0, 0);
        while k < ne {
            if g < ng && same(k, g) && reach[k + 1][g + 1] {
                g += 1;
            } else {
                missing_fragmented += 1;
            }
            k += 1;
        }
    } else {
        // report the first point where no alignment is possible
        let (mut k, mut g) = (0, 0);
        while k < ne && g <= ng {
            if g < ng && same(k, g) {
                k += 1;
                g += 1;
            } else if b.expected[k].2 {
                k += 1;
            } else {
                break;
            }
        }
        let errors: Vec<&String> = got.iter().filter_map(|x| if let Got::Err(e) = x { Some(e) } else { None }).collect();
        if k < ne {
            let (ec, ep, _) = &b.expected[k];
            let what = oks.get(g).map(|(c2, p2)| format!("{} / {:?}", c2.render(), p2.as_ref().map(|v| v.render()))).unwrap_or_else(|| "nothing (receive ended)".into());
            vfail_!(
                "message-lost-altered-or-reordered",
                format!(
                    "valid message #{k} ({} / {:?}) was expected next but the receiver produced {}; {} ok results, errors {:?}",
                    ec.render(),
                    ep.as_ref().map(|v| v.render()),
                    what,
                    oks.len(),
                    errors
                )
            );
        }
        vfail_!("message-duplicated-or-invented", format!("{} messages were delivered, {} were sent; errors {:?}", oks.len(), ne, errors));
    }
    let timeouts = got.iter().filter(|g| matches!(g, Got::Err(e) if e.contains("timeout"))).count();
    if errs > b.junk_frames + missing_fragmented + timeouts {
        vfail_!("more-errors-than-bad-frames", format!("{errs} errors for {} junk frames (+{missing_fragmented} garbled fragmented messages)", b.junk_frames));
    }
    let valid = b.expected.len();
    let nontrivial = valid >= 3 && (b.junk_frames > 0 || b.ticks > 0 || b.split_forms > 0 || !c.cuts.is_empty());
    let info = if nontrivial { CaseInfo::nt(fp(&format!("{:?}", c))) } else { CaseInfo::trivial() };
    let info = info
        .class_if(b.junk_frames > 0, "junk-frames")
        .class_if(b.junk_frames >= 250, "run-of-250-or-more-bad-frames")
        .class_if(b.ticks > 0, "ticks")
        .class_if(c.header_mode && !c.read_half, "header-mode")
        .class_if(c.read_half, "read-half-loop")
        .class_if(!c.cuts.is_empty(), "segmented-stream")
        .class_if(died_inside, "peer-died-inside-a-frame")
        .class_if(c.quiet.is_some() && c.read_half, "silence-then-a-split-frame")
        .class_if(b.expected.iter().any(|e| e.2), "multi-fragment");
    if missing_fragmented > 0 {
        return Verdict::Known {
            signature: "fragmented-message-garbled-by-reassembly-order".into(),
            detail: format!("{missing_fragmented} message(s) sent in two or more fragments were not delivered (reassembled in ascending fragment-id order, see C09-F1); everything else arrived intact"),
            info,
        };
    }
    Verdict::Pass(info)
}



fn strategy() -> impl Strategy<Value = Case> {
    let term = || arb_value(GenCfg { depth: 3, size: 10, heavy: false, ..GenCfg::std() });
    // (a few payloads draw their atoms from three names, two of which share the last slot of segment 0 while the third sits in
    // the first slot of segment 1: written, overwritten, referred to again, next to a segment boundary)
    let big = prop_oneof![
        6 => term(),
        1 => (1000usize..200_000).prop_map(|n| Value::binary(&vec![0xAB; n])),
        2 => prop::collection::vec(prop::sample::select(vec!["slot_a", "slot_b", "slot_c"]), 1..3).prop_map(|v| Value::Tuple(v.into_iter().map(Value::atom).collect())),
    ];
    let form = prop_oneof![
        4 => Just(Form::PassThrough),
        4 => any::<u16>().prop_map(Form::Header),
        2 => (any::<u16>(), prop::collection::vec(0u16..1000, 0..4)).prop_map(|(s, c)| Form::Fragmented(s, c)),
    ];
    let junk = prop_oneof![
        3 => prop::collection::vec(any::<u8>(), 0..40).prop_map(Junk::Random),
        2 => any::<u8>().prop_map(Junk::TruncatedTerm),
        2 => any::<u8>().prop_map(Junk::WrongFirstByte),
        2 => (any::<u8>(), any::<u8>(), any::<u8>()).prop_map(|(frag_id, count, extra)| Junk::FragHeaderShort { frag_id, count, extra }),
        1 => any::<u8>().prop_map(|frag_id| Junk::FragContUnknown { frag_id }),
        1 => Just(Junk::NotAControlTuple),
        1 => Just(Junk::EmptyTupleControl),
        2 => any::<u8>().prop_map(Junk::Tiny),
        2 => any::<u16>().prop_map(Junk::HeaderThenBadTerm),
        1 => any::<u8>().prop_map(Junk::CutAtTermBoundaryRun),
    ];
    let item = prop_oneof![
        8 => (0u8..CONTROL_TABLE.len() as u8, prop::collection::vec(term(), 6), big, form).prop_map(|(row, fields, payload, form)| Item::Msg { row, fields, payload, form }),
        2 => Just(Item::Tick),
        3 => junk.prop_map(Item::Junk),
    ];
    (any::<bool>(), prop::collection::vec(item, 1..14), prop::collection::vec(any::<u16>(), 0..8), prop::bool::weighted(0.25), prop::option::weighted(0.3, any::<u16>()), prop::option::weighted(0.5, (any::<u16>(), any::<u8>()))).prop_map(|(header_mode, items, cuts, read_half, dies_inside, quiet)| {
        // the node's read loop (read-half variant) cannot skip bad frames by itself: its caller decides; junk is allowed there too
        Case { header_mode, items, cuts, read_half, dies_inside, quiet }
    })
}

pub fn run(run: &mut Run) {
    run.rule = "scripts of up to 14 items from a conforming sender model over a real loopback socket: every control-message kind of the protocol table with fields and payloads from the term space (a few bytes to \
        200 KB), in pass-through form, with a distribution header (persistent sender atom cache, all segments; slots follow from the atom text, half of the messages squeeze their atoms into six slots so that slots are overwritten and referred to again) or split into 1..5 fragments, interleaved with ticks and with malformed frames (random bytes, truncated \
        terms, wrong marker, short fragment headers, continuations of unknown sequences, non-tuple / empty-tuple control terms), the byte stream cut into arbitrary TCP writes; a sentinel ends each script; in 30% of the scripts the peer then starts one more frame and closes the connection inside it (between control term and payload, inside the length prefix, anywhere), which must not be returned as a message. \
        Both Connection::receive_message and receive_message_from_read_half are driven; for the latter the peer may fall silent for 6..20 virtual seconds (longer than the per-frame timeout of 5 s) and end the silence with a frame that arrives in two pieces. Oracle: Ok results in order = valid messages in order, each once; at most one error per bad frame; no panic. \
        Non-trivial = >= 3 valid messages and a junk frame, tick, non-pass-through form or split stream"
        .into();
    run.assumptions = vec![
        "junk fragment frames use sequence ids disjoint from valid messages; random junk never poses as a distribution-header frame (it could legitimately rewrite atom-cache slots)".into(),
        "after a message sent in >= 2 fragments the sender model forgets the cache slots that message wrote and writes them afresh when it next needs them (conforming whether or not the receiver took the garbled message's header in)".into(),
        "if the receiver blocks, virtual time is advanced so that its own timeout ends the wait; timeouts are not counted as errors of a frame".into(),
    ];
    run.prop("receive-scripts", strategy, run.tier.pick(1500, 60_000), oracle);
}

pub fn replays() -> Vec<ReplayEntry> {
    vec![replay_entry("receive-scripts", oracle)]
}

//! C18 — local processes: ordered exactly-once delivery, exit notices, name lifecycle.

use crate::engine::{fp, replay_entry, CaseInfo, ReplayEntry, Run, Verdict};
use crate::netbed::{clear_schedule, drain, install_schedule, library_panics_since, panic_mark, run_case, run_case_mt, BedErr};
use crate::nodebed::{new_log, pid_value, wait_until, Event, Log, Recorder};
use crate::terms::denote;
use edp_node::{CallResult, GenEventCallResult, EventResult, GenEventHandler, GenEventManager, GenServer, GenServerProcess, Node};
use erltf::types::ExternalReference;
use erltf::{Atom, ExternalPid, OwnedTerm};
use proptest::prelude::*;
use refmodel::Value;
use serde::{Deserialize, Serialize};
use std::collections::{BTreeMap, BTreeSet};
use std::sync::Arc;
use std::time::Duration;

const NPROC: usize = 5;
const NAMES: &[&str] = &["alpha", "beta", "gamma", "delta", "race0", "race1"];
/// names used by the sequential operations and by sends; the last two are fought over by concurrent tasks
const SEQ_NAMES: usize = 4;

#[derive(Clone, Debug, Serialize, Deserialize, PartialEq)]
pub enum Op {
    Register { name: u8, proc_: u8 },
    Unregister { name: u8 },
    Link { a: u8, b: u8 },
    Unlink { a: u8, b: u8 },
    Monitor { watcher: u8, target: u8 },
    /// remove the k-th monitor created so far
    Demonitor { k: u8 },
    Send { to: u8 },
    SendToName { name: u8 },
    /// make the process fail (its handler returns an error)
    Kill { proc_: u8 },
    GenCall { caller: u8, request: i32 },
    GenEventCall { caller: u8, request: i32 },
    /// `watcher` is linked to and monitors `victim`, is kept busy in its handler with a completely full mailbox, and
    /// `victim` fails meanwhile: the notices have to wait for room, they must not get lost
    KillWhileFull { victim: u8, watcher: u8 },
    /// `victim` holds `name` and fails; while it is still on its way out (after `turns` rounds of the scheduler) the name is
    /// taken from it and given to `other` (a supervisor restarting a worker under the same name): a registration that
    /// succeeded must survive the victim's own clean-up
    KillRebind { victim: u8, other: u8, name: u8, turns: u8 },
    /// `{'$gen_cast', V}` to the gen_server: no answer, but every later call reports the sum of the casts handled before it
    GenCast { value: i32 },
    /// a message that is neither a call nor a cast: the server's `handle_info` counts it
    GenInfo { value: i32 },
    /// `{'$gen_notify', V}` to the event manager: every handler adds V to its state, later calls report it
    GenNotify { value: i32 },
}

#[derive(Clone, Debug, Serialize, Deserialize, PartialEq)]
pub enum TaskOp {
    Send(u8),
    SendName(u8),
    /// try to take one of the two contested names for a process
    RaceRegister { name: bool, proc_: u8 },
}

#[derive(Clone, Debug, Serialize, Deserialize)]
pub struct Case {
    /// sequential prefix (single task)
    pub setup: Vec<Op>,
    /// concurrent part: per task a list of operations
    pub tasks: Vec<Vec<TaskOp>>,
    pub schedule: Vec<u8>,
    /// sequential suffix (single task): typically unlink/demonitor/kill and name checks
    pub teardown: Vec<Op>,
}

#[derive(Default)]
struct Echo {
    casts: i64,
    infos: i64,
}
impl GenServer for Echo {
    async fn init(&mut self, _args: Vec<OwnedTerm>) -> edp_node::Result<()> {
        Ok(())
    }
    async fn handle_call(&mut self, msg: OwnedTerm, _from: ExternalPid) -> edp_node::Result<CallResult> {
        Ok(CallResult::Reply(OwnedTerm::Tuple(vec![OwnedTerm::atom("echo"), msg, OwnedTerm::Integer(self.casts), OwnedTerm::Integer(self.infos)])))
    }
    async fn handle_cast(&mut self, msg: OwnedTerm) -> edp_node::Result<()> {
        self.casts += msg.as_integer().unwrap_or(0);
        Ok(())
    }
    async fn handle_info(&mut self, _msg: OwnedTerm) -> edp_node::Result<()> {
        self.infos += 1;
        Ok(())
    }
}

/// event handler `name`: answers a call V with V * k + (sum of the events notified so far)
struct Doubler {
    k: i64,
    name: &'static str,
    events: i64,
}
impl GenEventHandler for Doubler {
    fn init<'a>(&'a mut self, _args: OwnedTerm) -> std::pin::Pin<Box<dyn std::future::Future<Output = edp_node::Result<()>> + Send + 'a>> {
        Box::pin(async { Ok(()) })
    }
    fn handle_event<'a>(&'a mut self, event: OwnedTerm) -> std::pin::Pin<Box<dyn std::future::Future<Output = edp_node::Result<EventResult>> + Send + 'a>> {
        self.events += event.as_integer().unwrap_or(0);
        Box::pin(async { Ok(EventResult::Ok) })
    }
    fn handle_call<'a>(&'a mut self, request: OwnedTerm) -> std::pin::Pin<Box<dyn std::future::Future<Output = edp_node::Result<GenEventCallResult>> + Send + 'a>> {
        Box::pin(async move {
            let v = request.as_integer().unwrap_or(0);
            Ok(GenEventCallResult::Reply(OwnedTerm::Integer(v * self.k + self.events)))
        })
    }
    fn id(&self) -> OwnedTerm {
        OwnedTerm::atom(self.name)
    }
}

#[derive(Default)]
struct Model {
    alive: Vec<bool>,
    names: BTreeMap<usize, usize>,
    links: BTreeSet<(usize, usize)>,
    monitors: Vec<(usize, usize, Value, bool, ExternalReference)>, // watcher, target, reference, active
    expected: Vec<Vec<Event>>,
}

struct NetOut {
    logs: Vec<Vec<Event>>,
    expected: Vec<Vec<Event>>,
    /// per (sender task, target): payload counters in the order they were sent with Ok
    conc_sent: Vec<Vec<(usize, Value)>>,
    problems: Vec<(String, String)>,
    killed_with_ties: bool,
    switched: usize,
    raced: bool,
}

fn payload(tag: &str, a: i128, b: i128) -> Value {
    Value::Tuple(vec![Value::atom(tag), Value::int(a), Value::int(b)])
}

fn run_net(c: &Case) -> Result<Result<NetOut, String>, BedErr> {
    let c = c.clone();
    run_case(Duration::from_secs(40), move |_bed| async move {
        let mut node = Node::new("rust@127.0.0.1", "cookie");
        node.start(0).await.map_err(|e| format!("node start: {e}"))?;
        let node = Arc::new(node);
        let mut procs: Vec<(ExternalPid, Log)> = vec![];
        let mut gates: Vec<Arc<tokio::sync::Notify>> = vec![];
        for _ in 0..NPROC {
            let log = new_log();
            let gate = Arc::new(tokio::sync::Notify::new());
            let pid = node.spawn(Recorder { log: log.clone(), gate: Some(gate.clone()) }).await.map_err(|e| e.to_string())?;
            procs.push((pid, log));
            gates.push(gate);
        }
        let server = node.spawn(GenServerProcess::new(Echo::default(), node.registry())).await.map_err(|e| e.to_string())?;
        let mut mgr = GenEventManager::new(node.registry());
        mgr.add_handler(Box::new(Doubler { k: 2, name: "doubler", events: 0 }), OwnedTerm::Nil).await.map_err(|e| e.to_string())?;
        mgr.add_handler(Box::new(Doubler { k: 3, name: "tripler", events: 0 }), OwnedTerm::Nil).await.map_err(|e| e.to_string())?;
        // what the behaviours have been told so far (casts, plain messages, events)
        let (mut cast_sum, mut info_count, mut event_sum) = (0i128, 0i128, 0i128);
        let manager = node.spawn(mgr).await.map_err(|e| e.to_string())?;
        let base_count = node.process_count().await;
        let mut m = Model { alive: vec![true; NPROC], expected: vec![vec![]; NPROC], ..Default::default() };
        let mut problems: Vec<(String, String)> = vec![];
        let mut counter = 0i128;
        let mut killed_with_ties = false;
        let mut ref_no = 0u32;

        // one sequential operation against node and model
        let hold = crate::netbed::install_hold();
        macro_rules! seq_op {
            ($op:expr, $phase:expr) => {{
                let op: &Op = $op;
                match op {
                    Op::Register { name, proc_ } => {
                        let (n, p) = (*name as usize % SEQ_NAMES, *proc_ as usize % NPROC);
                        if !m.alive[p] {
                            continue;
                        }
                        let r = node.register(Atom::new(NAMES[n]), procs[p].0.clone()).await;
                        let free = !m.names.contains_key(&n);
                        match (r.is_ok(), free) {
                            (true, true) => {
                                m.names.insert(n, p);
                            }
                            (false, false) => {}
                            (true, false) => problems.push(("name-registered-twice".into(), format!("{}: register({}) succeeded although the name is held by process {}", $phase, NAMES[n], m.names[&n]))),
                            (false, true) => problems.push(("free-name-cannot-be-registered".into(), format!("{}: register({}) failed although the name is free: {:?}", $phase, NAMES[n], r.err().map(|e| e.to_string())))),
                        }
                    }
                    Op::Unregister { name } => {
                        let n = *name as usize % SEQ_NAMES;
                        let r = node.unregister(&Atom::new(NAMES[n])).await;
                        if r.is_ok() != m.names.contains_key(&n) {
                            problems.push(("unregister-result-wrong".into(), format!("{}: unregister({}) -> {:?}", $phase, NAMES[n], r.is_ok())));
                        }
                        m.names.remove(&n);
                    }
                    Op::Link { a, b } => {
                        let (a, b) = (*a as usize % NPROC, *b as usize % NPROC);
                        if a != b && m.alive[a] && m.alive[b] {
                            let _ = node.link(&procs[a].0, &procs[b].0).await;
                            m.links.insert((a.min(b), a.max(b)));
                        }
                    }
                    Op::Unlink { a, b } => {
                        let (a, b) = (*a as usize % NPROC, *b as usize % NPROC);
                        if a != b && m.alive[a] && m.alive[b] {
                            let _ = node.unlink(&procs[a].0, &procs[b].0).await;
                            m.links.remove(&(a.min(b), a.max(b)));
                        }
                    }
                    Op::Monitor { watcher, target } => {
                        let (w, t) = (*watcher as usize % NPROC, *target as usize % NPROC);
                        if w != t && m.alive[w] && m.alive[t] {
                            match node.monitor(&procs[w].0, &procs[t].0).await {
                                Ok(r) => m.monitors.push((w, t, denote(&OwnedTerm::Reference(r.clone())), true, r)),
                                Err(e) => problems.push(("monitor-failed".into(), e.to_string())),
                            }
                        }
                    }
                    Op::Demonitor { k } => {
                        if !m.monitors.is_empty() {
                            let i = *k as usize % m.monitors.len();
                            let (w, t, _r, active, er) = m.monitors[i].clone();
                            if active && m.alive[t] {
                                let _ = node.demonitor(&procs[w].0, &procs[t].0, &er).await;
                                m.monitors[i].3 = false;
                            }
                        }
                    }
                    Op::Send { to } => {
                        let t = *to as usize % NPROC;
                        counter += 1;
                        let v = payload($phase, 99, counter);
                        let r = node.send(&procs[t].0, crate::terms::lift0(&v).unwrap()).await;
                        match (r.is_ok(), m.alive[t]) {
                            (true, true) => m.expected[t].push(Event::Regular(v)),
                            (false, false) => {}
                            (true, false) => problems.push(("send-to-dead-process-succeeds".into(), format!("{}: send to the terminated process {} returned Ok", $phase, t))),
                            (false, true) => problems.push(("send-to-live-process-fails".into(), format!("{}: {:?}", $phase, r.err().map(|e| e.to_string())))),
                        }
                    }
                    Op::SendToName { name } => {
                        let n = *name as usize % SEQ_NAMES;
                        counter += 1;
                        let v = payload($phase, 98, counter);
                        let r = node.send_to_name(&Atom::new(NAMES[n]), crate::terms::lift0(&v).unwrap()).await;
                        match (r.is_ok(), m.names.get(&n)) {
                            (true, Some(p)) => m.expected[*p].push(Event::Regular(v)),
                            (false, None) => {}
                            (true, None) => problems.push(("send-to-unregistered-name-succeeds".into(), format!("{}: {}", $phase, NAMES[n]))),
                            (false, Some(p)) => problems.push(("send-to-registered-name-fails".into(), format!("{}: {} (held by live process {}): {:?}", $phase, NAMES[n], p, r.err().map(|e| e.to_string())))),
                        }
                        // whereis agrees with the model
                        let w = node.whereis(&Atom::new(NAMES[n])).await;
                        let want = m.names.get(&n).map(|p| procs[*p].0.clone());
                        if w != want {
                            problems.push(("whereis-wrong".into(), format!("{}: whereis({}) = {:?}, model says process {:?}", $phase, NAMES[n], w.map(|p| p.id), m.names.get(&n))));
                        }
                    }
                    Op::Kill { proc_ } => {
                        let p = *proc_ as usize % NPROC;
                        if m.alive[p] {
                            let has_ties = m.links.iter().any(|(a, b)| *a == p || *b == p) || m.monitors.iter().any(|(_, t, _, act, _)| *t == p && *act) || m.names.values().any(|x| *x == p);
                            killed_with_ties |= has_ties;
                            let _ = node.send(&procs[p].0, OwnedTerm::atom("poison")).await;
                            m.expected[p].push(Event::Regular(Value::atom("poison")));
                            m.alive[p] = false;
                            // notices
                            let me = pid_value(&procs[p].0);
                            for (a, b) in m.links.clone() {
                                let other = if a == p { b } else if b == p { a } else { continue };
                                if m.alive[other] {
                                    m.expected[other].push(Event::Exit { from: me.clone(), reason: Value::atom("error") });
                                }
                                m.links.remove(&(a, b));
                            }
                            for mon in m.monitors.iter_mut() {
                                if mon.1 == p && mon.3 {
                                    if m.alive[mon.0] {
                                        m.expected[mon.0].push(Event::MonitorExit { monitored: me.clone(), reference: mon.2.clone(), reason: Value::atom("error") });
                                    }
                                    mon.3 = false;
                                }
                            }
                            m.names.retain(|_, holder| *holder != p);
                            // wait until the death has been observed
                            let reg = node.registry();
                            let t0 = std::time::Instant::now();
                            let mut rounds = 0usize;
                            while reg.get(&procs[p].0).await.is_some() {
                                drain().await;
                                rounds += 1;
                                if t0.elapsed() > Duration::from_secs(5) && rounds >= crate::nodebed::MIN_WAIT_ROUNDS {
                                    problems.push(("process-does-not-terminate".into(), format!("{}: process {}", $phase, p)));
                                    break;
                                }
                                std::thread::sleep(Duration::from_micros(100));
                            }
                            drain().await;
                            let alive_n = m.alive.iter().filter(|a| **a).count();
                            let pc = node.process_count().await;
                            if pc != base_count - (NPROC - alive_n) {
                                problems.push(("process-count-wrong".into(), format!("{}: process_count() = {}, expected {}", $phase, pc, base_count - (NPROC - alive_n))));
                            }
                        }
                    }
                    Op::KillRebind { victim, other, name, turns } => {
                        let (p, q, n) = (*victim as usize % NPROC, *other as usize % NPROC, *name as usize % SEQ_NAMES);
                        if p != q && m.alive[p] && m.alive[q] && (m.names.get(&n) == Some(&p) || !m.names.contains_key(&n)) {
                            if !m.names.contains_key(&n) {
                                if node.register(Atom::new(NAMES[n]), procs[p].0.clone()).await.is_err() {
                                    problems.push(("free-name-cannot-be-registered".into(), format!("{}: {}", $phase, NAMES[n])));
                                    continue;
                                }
                                m.names.insert(n, p);
                            }
                            killed_with_ties = true;
                            let _ = node.send(&procs[p].0, OwnedTerm::atom("poison")).await;
                            m.expected[p].push(Event::Regular(Value::atom("poison")));
                            m.alive[p] = false;
                            // odd `turns`: the victim is kept at the point where it has left the process table but not yet released
                            // its names (holding point) until the name has changed hands; even: wherever it happens to be
                            let held = *turns % 2 == 1;
                            hold.set(held);
                            if held {
                                let (reg, vp) = (node.registry(), procs[p].0.clone());
                                let t0 = std::time::Instant::now();
                                while reg.get(&vp).await.is_some() && t0.elapsed() < Duration::from_secs(5) {
                                    tokio::task::yield_now().await;
                                }
                            } else {
                                for _ in 0..(*turns % 12) {
                                    tokio::task::yield_now().await;
                                }
                            }
                            // the name changes hands while the victim is on its way out
                            let _ = node.unregister(&Atom::new(NAMES[n])).await;
                            let taken = node.register(Atom::new(NAMES[n]), procs[q].0.clone()).await.is_ok();
                            hold.set(false);
                            if held {
                                // let the victim finish its clean-up
                                drain().await;
                            }
                            let me = pid_value(&procs[p].0);
                            for (a, b) in m.links.clone() {
                                let other = if a == p { b } else if b == p { a } else { continue };
                                if m.alive[other] {
                                    m.expected[other].push(Event::Exit { from: me.clone(), reason: Value::atom("error") });
                                }
                                m.links.remove(&(a, b));
                            }
                            for mon in m.monitors.iter_mut() {
                                if mon.1 == p && mon.3 {
                                    if m.alive[mon.0] {
                                        m.expected[mon.0].push(Event::MonitorExit { monitored: me.clone(), reference: mon.2.clone(), reason: Value::atom("error") });
                                    }
                                    mon.3 = false;
                                }
                            }
                            m.names.retain(|_, holder| *holder != p);
                            if taken {
                                m.names.insert(n, q);
                            }
                            let reg = node.registry();
                            let t0 = std::time::Instant::now();
                            let mut rounds = 0usize;
                            while reg.get(&procs[p].0).await.is_some() {
                                drain().await;
                                rounds += 1;
                                if t0.elapsed() > Duration::from_secs(5) && rounds >= crate::nodebed::MIN_WAIT_ROUNDS {
                                    problems.push(("process-does-not-terminate".into(), format!("{}: process {}", $phase, p)));
                                    break;
                                }
                                std::thread::sleep(Duration::from_micros(100));
                            }
                            drain().await;
                            let w = node.whereis(&Atom::new(NAMES[n])).await;
                            let want = m.names.get(&n).map(|x| procs[*x].0.clone());
                            if w != want {
                                problems.push((
                                    "whereis-wrong".into(),
                                    format!("{}: process {} failed while {} was re-registered for process {} (register succeeded: {}); afterwards whereis = {:?}, expected process {:?}", $phase, p, NAMES[n], q, taken, w.map(|x| x.id), m.names.get(&n)),
                                ));
                            }
                        }
                    }
                    Op::KillWhileFull { victim, watcher } => {
                        let (p, w) = (*victim as usize % NPROC, *watcher as usize % NPROC);
                        if p != w && m.alive[p] && m.alive[w] {
                            let _ = node.link(&procs[w].0, &procs[p].0).await;
                            m.links.insert((p.min(w), p.max(w)));
                            match node.monitor(&procs[w].0, &procs[p].0).await {
                                Ok(r) => m.monitors.push((w, p, denote(&OwnedTerm::Reference(r.clone())), true, r)),
                                Err(e) => problems.push(("monitor-failed".into(), e.to_string())),
                            }
                            // the watcher blocks inside its handler ...
                            let _ = node.send(&procs[w].0, OwnedTerm::atom("hold")).await;
                            m.expected[w].push(Event::Regular(Value::atom("hold")));
                            let lg = procs[w].1.clone();
                            let want = Event::Regular(Value::atom("hold"));
                            let n_hold = m.expected[w].iter().filter(|e| **e == want).count();
                            let _ = wait_until(Duration::from_secs(5), || lg.lock().unwrap().iter().filter(|e| **e == want).count() >= n_hold).await;
                            // ... while its mailbox is filled to the brim (capacity 1000)
                            for k in 0..1000 {
                                counter += 1;
                                let v = payload("fill", k, counter);
                                if node.send(&procs[w].0, crate::terms::lift0(&v).unwrap()).await.is_ok() {
                                    m.expected[w].push(Event::Regular(v));
                                }
                            }
                            // the victim fails: its notices for the watcher find no room
                            killed_with_ties = true;
                            let _ = node.send(&procs[p].0, OwnedTerm::atom("poison")).await;
                            m.expected[p].push(Event::Regular(Value::atom("poison")));
                            m.alive[p] = false;
                            let me = pid_value(&procs[p].0);
                            for (a, b) in m.links.clone() {
                                let other = if a == p { b } else if b == p { a } else { continue };
                                if m.alive[other] {
                                    m.expected[other].push(Event::Exit { from: me.clone(), reason: Value::atom("error") });
                                }
                                m.links.remove(&(a, b));
                            }
                            for mon in m.monitors.iter_mut() {
                                if mon.1 == p && mon.3 {
                                    if m.alive[mon.0] {
                                        m.expected[mon.0].push(Event::MonitorExit { monitored: me.clone(), reference: mon.2.clone(), reason: Value::atom("error") });
                                    }
                                    mon.3 = false;
                                }
                            }
                            m.names.retain(|_, holder| *holder != p);
                            for _ in 0..10 {
                                drain().await;
                            }
                            // the watcher gets on with its mailbox
                            gates[w].notify_one();
                            let reg = node.registry();
                            let t0 = std::time::Instant::now();
                            let mut rounds = 0usize;
                            while reg.get(&procs[p].0).await.is_some() {
                                drain().await;
                                rounds += 1;
                                if t0.elapsed() > Duration::from_secs(5) && rounds >= crate::nodebed::MIN_WAIT_ROUNDS {
                                    problems.push(("process-does-not-terminate".into(), format!("{}: process {} (its notices had to wait for a full mailbox)", $phase, p)));
                                    break;
                                }
                                std::thread::sleep(Duration::from_micros(100));
                            }
                            let want_n = m.expected[w].len();
                            let lg = procs[w].1.clone();
                            let _ = wait_until(Duration::from_secs(5), || lg.lock().unwrap().len() >= want_n).await;
                        }
                    }
                    Op::GenCall { caller, request } | Op::GenEventCall { caller, request } => {
                        let cidx = *caller as usize % NPROC;
                        // a call may also carry the identifier of a caller that has failed meanwhile (it was on its way when the caller
                        // went): nobody is left to answer, and the behaviour must go on serving the others
                        let caller_alive = m.alive[cidx];
                        {
                            ref_no += 1;
                            let r = ExternalReference::new(Atom::new("rust@127.0.0.1"), node.creation(), vec![ref_no, 7, 7]);
                            let from = OwnedTerm::Tuple(vec![OwnedTerm::Pid(procs[cidx].0.clone()), OwnedTerm::Reference(r.clone())]);
                            let is_event = matches!(op, Op::GenEventCall { .. });
                            let (target, msg, reply) = if is_event {
                                (
                                    &manager,
                                    OwnedTerm::Tuple(vec![OwnedTerm::atom("$gen_call"), from, OwnedTerm::atom(if request % 2 == 0 { "doubler" } else { "tripler" }), OwnedTerm::Integer(*request as i64)]),
                                    Value::int(*request as i128 * if request % 2 == 0 { 2 } else { 3 } + event_sum),
                                )
                            } else {
                                (
                                    &server,
                                    OwnedTerm::Tuple(vec![OwnedTerm::atom("$gen_call"), from, OwnedTerm::Integer(*request as i64)]),
                                    Value::Tuple(vec![Value::atom("echo"), Value::int(*request as i128), Value::int(cast_sum), Value::int(info_count)]),
                                )
                            };
                            let answer = Event::Regular(Value::Tuple(vec![denote(&OwnedTerm::Reference(r)), reply])).canon();
                            match node.send(target, msg).await {
                                Ok(()) if caller_alive => m.expected[cidx].push(answer.clone()),
                                Ok(()) => {}
                                Err(e) => problems.push(("gen-call-send-failed".into(), e.to_string())),
                            }
                            // the reply is produced by another task: wait for it so that the order in the caller's log is fixed
                            let lg = procs[cidx].1.clone();
                            if caller_alive && !wait_until(Duration::from_secs(5), || lg.lock().unwrap().contains(&answer)).await {
                                problems.push(("gen-call-not-answered".into(), format!("{}: call #{ref_no} from process {cidx}; its log: {:?}", $phase, lg.lock().unwrap().iter().rev().take(3).collect::<Vec<_>>())));
                            }
                        }
                    }
                    Op::GenCast { value } => match node.send(&server, OwnedTerm::Tuple(vec![OwnedTerm::atom("$gen_cast"), OwnedTerm::Integer(*value as i64)])).await {
                        Ok(()) => cast_sum += *value as i128,
                        Err(e) => problems.push(("gen-cast-send-failed".into(), e.to_string())),
                    },
                    Op::GenInfo { value } => match node.send(&server, OwnedTerm::Tuple(vec![OwnedTerm::atom("note"), OwnedTerm::Integer(*value as i64)])).await {
                        Ok(()) => info_count += 1,
                        Err(e) => problems.push(("gen-info-send-failed".into(), e.to_string())),
                    },
                    Op::GenNotify { value } => match node.send(&manager, OwnedTerm::Tuple(vec![OwnedTerm::atom("$gen_notify"), OwnedTerm::Integer(*value as i64)])).await {
                        Ok(()) => event_sum += *value as i128,
                        Err(e) => problems.push(("gen-notify-send-failed".into(), e.to_string())),
                    },
                }
            }};
        }

        let switched = install_schedule(c.schedule.clone());
        for op in &c.setup {
            seq_op!(op, "setup");
        }
        // concurrent part
        let local = tokio::task::LocalSet::new();
        let alive_now = m.alive.clone();
        let names_now = m.names.clone();
        type TaskOut = (Vec<(usize, Value)>, Vec<(usize, usize)>, Vec<(String, String)>);
        let outs: Vec<TaskOut> = local
            .run_until(async {
                let mut hs = vec![];
                for (t, ops) in c.tasks.iter().enumerate() {
                    let node = node.clone();
                    let procs: Vec<ExternalPid> = procs.iter().map(|p| p.0.clone()).collect();
                    let ops = ops.clone();
                    let alive = alive_now.clone();
                    let names = names_now.clone();
                    hs.push(tokio::task::spawn_local(async move {
                        let mut done = vec![];
                        let mut won = vec![];
                        let mut probs = vec![];
                        for (k, op) in ops.iter().enumerate() {
                            let v = payload("conc", t as i128, k as i128);
                            let term = crate::terms::lift0(&v).unwrap();
                            match op {
                                TaskOp::SendName(x) => {
                                    let n = *x as usize % SEQ_NAMES;
                                    let r = node.send_to_name(&Atom::new(NAMES[n]), term).await;
                                    match (r.is_ok(), names.get(&n)) {
                                        (true, Some(p)) => done.push((*p, v)),
                                        (false, None) => {}
                                        (true, None) => probs.push(("send-to-unregistered-name-succeeds".to_string(), format!("concurrent: {}", NAMES[n]))),
                                        (false, Some(p)) => probs.push(("send-to-registered-name-fails".to_string(), format!("concurrent: {} held by live process {p}: {:?}", NAMES[n], r.err().map(|e| e.to_string())))),
                                    }
                                }
                                TaskOp::Send(x) => {
                                    let p = *x as usize % NPROC;
                                    let r = node.send(&procs[p], term).await;
                                    match (r.is_ok(), alive[p]) {
                                        (true, true) => done.push((p, v)),
                                        (false, false) => {}
                                        (true, false) => probs.push(("send-to-dead-process-succeeds".to_string(), format!("concurrent: process {p}"))),
                                        (false, true) => probs.push(("send-to-live-process-fails".to_string(), format!("concurrent: process {p}: {:?}", r.err().map(|e| e.to_string())))),
                                    }
                                }
                                TaskOp::RaceRegister { name, proc_ } => {
                                    let n = SEQ_NAMES + *name as usize;
                                    let p = *proc_ as usize % NPROC;
                                    if alive[p] && node.register(Atom::new(NAMES[n]), procs[p].clone()).await.is_ok() {
                                        won.push((n, p));
                                    }
                                }
                            }
                        }
                        (done, won, probs)
                    }));
                }
                let mut all = vec![];
                for h in hs {
                    all.push(h.await.unwrap_or_default());
                }
                all
            })
            .await;
        let mut conc_sent: Vec<Vec<(usize, Value)>> = vec![];
        let mut race_attempts = [0usize; 2];
        for t in &c.tasks {
            for op in t {
                if let TaskOp::RaceRegister { name, proc_ } = op {
                    if alive_now[*proc_ as usize % NPROC] {
                        race_attempts[*name as usize] += 1;
                    }
                }
            }
        }
        let mut winners: Vec<(usize, usize)> = vec![];
        for (done, won, probs) in outs {
            conc_sent.push(done);
            winners.extend(won);
            problems.extend(probs);
        }
        let mut raced = false;
        for k in 0..2 {
            let n = SEQ_NAMES + k;
            let w: Vec<usize> = winners.iter().filter(|(nn, _)| *nn == n).map(|(_, p)| *p).collect();
            raced |= race_attempts[k] >= 2;
            if race_attempts[k] > 0 && w.len() != 1 {
                problems.push(("contested-name-not-taken-exactly-once".into(), format!("{} attempts to register the free name {}, {} succeeded (processes {:?})", race_attempts[k], NAMES[n], w.len(), w)));
            }
            if let Some(p) = w.first() {
                m.names.insert(n, *p);
            }
        }
        // let every mailbox drain before the sequential suffix (its order relative to the concurrent part is then fixed)
        let total_conc: usize = conc_sent.iter().map(|v| v.len()).sum();
        let logs_now: Vec<Log> = procs.iter().map(|p| p.1.clone()).collect();
        let exp_now: usize = m.expected.iter().map(|e| e.len()).sum();
        let _ = wait_until(Duration::from_secs(5), || logs_now.iter().map(|l| l.lock().unwrap().len()).sum::<usize>() >= exp_now + total_conc).await;
        for op in &c.teardown {
            seq_op!(op, "teardown");
        }
        clear_schedule();
        // quiescence
        let exp_total: usize = m.expected.iter().map(|e| e.len()).sum::<usize>() + total_conc;
        let _ = wait_until(Duration::from_secs(3), || logs_now.iter().map(|l| l.lock().unwrap().len()).sum::<usize>() >= exp_total).await;
        for _ in 0..5 {
            drain().await;
        }
        // final registry state
        let mut regd: Vec<String> = node.registered().await.iter().map(|a| a.as_str().to_string()).collect();
        regd.sort();
        let mut want: Vec<String> = m.names.keys().map(|n| NAMES[*n].to_string()).collect();
        want.sort();
        if regd != want {
            problems.push(("registered-names-wrong".into(), format!("registered() = {:?}, model {:?}", regd, want)));
        }
        for (n, name) in NAMES.iter().enumerate() {
            let w = node.whereis(&Atom::new(*name)).await;
            let want = m.names.get(&n).map(|p| procs[*p].0.clone());
            if w != want {
                problems.push(("whereis-wrong".into(), format!("final: whereis({name}) = {:?}, model says process {:?}", w.map(|p| p.id), m.names.get(&n))));
            }
        }
        for (p, alive) in m.alive.iter().enumerate() {
            if !alive {
                if node.send(&procs[p].0, OwnedTerm::atom("x")).await.is_ok() {
                    problems.push(("send-to-dead-process-succeeds".into(), format!("final: process {p}")));
                }
            }
        }
        let logs = procs.iter().map(|p| p.1.lock().unwrap().clone()).collect();
        Ok(NetOut { logs, expected: m.expected, conc_sent, problems, killed_with_ties, switched: switched.get(), raced })
    })
}

/// The notices caused by one termination reach a process in no promised order: sort each maximal run of notices.
fn sort_notice_runs(mut l: Vec<Event>) -> Vec<Event> {
    let is_notice = |e: &Event| matches!(e, Event::Exit { .. } | Event::MonitorExit { .. });
    let mut i = 0;
    while i < l.len() {
        if is_notice(&l[i]) {
            let mut j = i;
            while j < l.len() && is_notice(&l[j]) {
                j += 1;
            }
            l[i..j].sort_by_key(|e| format!("{:?}", e));
            i = j;
        } else {
            i += 1;
        }
    }
    l
}

pub fn oracle(c: &Case) -> Verdict {
    let mark = panic_mark();
    let out = match run_net(c) {
        Ok(Ok(o)) => o,
        Ok(Err(e)) => return Verdict::Fail { signature: "harness:netbed".into(), detail: e },
        Err(BedErr::RealTimeCap) => return Verdict::Fail { signature: "node-hangs".into(), detail: "the history did not finish".into() },
        Err(BedErr::Setup(e)) => return Verdict::Fail { signature: "harness:netbed".into(), detail: e },
    };
    clear_schedule();
    let panics = library_panics_since(mark);
    if !panics.is_empty() {
        return Verdict::Fail { signature: "panic".into(), detail: format!("{:?}", panics) };
    }
    if let Some((s, d)) = out.problems.first() {
        return Verdict::Fail { signature: s.clone(), detail: d.clone() };
    }
    // per process: the log, with the concurrent messages taken out, equals the sequential model;
    // the concurrent messages appear exactly once each and in per-sender order
    for p in 0..NPROC {
        let is_conc = |e: &Event| matches!(e, Event::Regular(Value::Tuple(t)) if t.first() == Some(&Value::atom("conc")));
        let seq_part: Vec<Event> = sort_notice_runs(out.logs[p].iter().filter(|e| !is_conc(e)).cloned().collect());
        let want = sort_notice_runs(crate::nodebed::canon_log(&out.expected[p]));
        if seq_part != want {
            let first = seq_part.iter().zip(want.iter()).position(|(a, b)| a != b).unwrap_or(seq_part.len().min(want.len()));
            return Verdict::Fail {
                signature: "process-log-differs-from-model".into(),
                detail: format!("process {p}: {} events, model {}; first difference at #{first}: got {:?}, expected {:?}", seq_part.len(), want.len(), seq_part.get(first), want.get(first)),
            };
        }
        for (t, sent) in out.conc_sent.iter().enumerate() {
            let mine: Vec<Value> = sent.iter().filter(|(tp, _)| *tp == p).map(|(_, v)| v.canon()).collect();
            let got: Vec<Value> = out.logs[p]
                .iter()
                .filter_map(|e| match e {
                    Event::Regular(v @ Value::Tuple(tt)) if tt.first() == Some(&Value::atom("conc")) && tt.get(1) == Some(&Value::int(t as i128)) => Some(v.clone()),
                    _ => None,
                })
                .collect();
            if got != mine {
                return Verdict::Fail {
                    signature: "concurrent-sends-lost-duplicated-or-reordered".into(),
                    detail: format!("process {p}, sender task {t}: handler saw {:?}, sender issued {:?}", got.iter().map(|v| v.render()).collect::<Vec<_>>(), mine.iter().map(|v| v.render()).collect::<Vec<_>>()),
                };
            }
        }
    }
    let multi_sender = (0..NPROC).any(|p| out.conc_sent.iter().filter(|s| s.iter().any(|(tp, _)| *tp == p)).count() >= 2);
    let nontrivial = out.killed_with_ties || multi_sender || out.raced;
    let info = if nontrivial { CaseInfo::nt(fp(&format!("{:?}", c))) } else { CaseInfo::trivial() };
    Verdict::Pass(
        info.class_if(out.killed_with_ties, "failure-with-link/monitor/name")
            .class_if(multi_sender, "several-tasks-one-target")
            .class_if(out.switched > 0, "schedule-yields")
            .class_if(out.raced, "contested-name")
            .class_if(c.setup.iter().chain(c.teardown.iter()).any(|o| matches!(o, Op::GenCall { .. } | Op::GenEventCall { .. })), "gen-call")
            .class_if(
                {
                    let ops: Vec<&Op> = c.setup.iter().chain(c.teardown.iter()).collect();
                    let told = ops.iter().position(|o| matches!(o, Op::GenCast { .. } | Op::GenInfo { .. } | Op::GenNotify { .. }));
                    let asked = ops.iter().rposition(|o| matches!(o, Op::GenCall { .. } | Op::GenEventCall { .. }));
                    matches!((told, asked), (Some(t), Some(a)) if t < a)
                },
                "gen-call-after-casts-or-events",
            ),
    )
}

fn op_strategy() -> impl Strategy<Value = Op> {
    prop_oneof![
        3 => (any::<u8>(), any::<u8>()).prop_map(|(name, proc_)| Op::Register { name, proc_ }),
        1 => any::<u8>().prop_map(|name| Op::Unregister { name }),
        3 => (any::<u8>(), any::<u8>()).prop_map(|(a, b)| Op::Link { a, b }),
        1 => (any::<u8>(), any::<u8>()).prop_map(|(a, b)| Op::Unlink { a, b }),
        3 => (any::<u8>(), any::<u8>()).prop_map(|(watcher, target)| Op::Monitor { watcher, target }),
        1 => any::<u8>().prop_map(|k| Op::Demonitor { k }),
        3 => any::<u8>().prop_map(|to| Op::Send { to }),
        2 => any::<u8>().prop_map(|name| Op::SendToName { name }),
        2 => any::<u8>().prop_map(|proc_| Op::Kill { proc_ }),
        1 => (any::<u8>(), prop_oneof![Just(0i32), Just(1), Just(-1), Just(i32::MAX), Just(i32::MIN), any::<i32>()]).prop_map(|(caller, request)| Op::GenCall { caller, request }),
        1 => (any::<u8>(), -1000i32..1000).prop_map(|(caller, request)| Op::GenEventCall { caller, request }),
        1 => (any::<u8>(), any::<u8>()).prop_map(|(victim, watcher)| Op::KillWhileFull { victim, watcher }),
        1 => (any::<u8>(), any::<u8>(), any::<u8>(), any::<u8>()).prop_map(|(victim, other, name, turns)| Op::KillRebind { victim, other, name, turns }),
        1 => gen_op_strategy(),
    ]
}

/// traffic for the two behaviours only: calls from several callers between casts, plain messages and events
fn gen_op_strategy() -> impl Strategy<Value = Op> {
    let small = || prop_oneof![Just(0i32), Just(1), Just(-1), -1000i32..1000, any::<i32>()];
    prop_oneof![
        3 => (any::<u8>(), small()).prop_map(|(caller, request)| Op::GenCall { caller, request }),
        3 => (any::<u8>(), -1000i32..1000).prop_map(|(caller, request)| Op::GenEventCall { caller, request }),
        2 => small().prop_map(|value| Op::GenCast { value }),
        1 => small().prop_map(|value| Op::GenInfo { value }),
        2 => (-100_000i32..100_000).prop_map(|value| Op::GenNotify { value }),
        1 => any::<u8>().prop_map(|proc_| Op::Kill { proc_ }),
    ]
}

fn task_op_strategy() -> impl Strategy<Value = TaskOp> {
    prop_oneof![
        5 => any::<u8>().prop_map(TaskOp::Send),
        2 => any::<u8>().prop_map(TaskOp::SendName),
        1 => (any::<bool>(), any::<u8>()).prop_map(|(name, proc_)| TaskOp::RaceRegister { name, proc_ }),
    ]
}

fn strategy() -> impl Strategy<Value = Case> {
    (
        prop::collection::vec(op_strategy(), 0..16),
        prop::collection::vec(prop::collection::vec(task_op_strategy(), 0..10), 0..4),
        prop::collection::vec(any::<u8>(), 0..30),
        prop_oneof![6 => prop::collection::vec(op_strategy(), 0..20), 1 => prop::collection::vec(gen_op_strategy(), 4..24)],
    )
        .prop_map(|(setup, tasks, schedule, teardown)| Case { setup, tasks, schedule, teardown })
}


// ---- parallel stress: the same oracle questions on a multi-threaded runtime -----------------------------

const S_PROC: usize = 6;
const S_NAMES: &[&str] = &["n0", "n1", "n2", "n3"];

#[derive(Clone, Debug, Serialize, Deserialize)]
pub struct StressCase {
    /// stable names: name k is held by process `holders[k] % S_PROC`
    pub holders: Vec<u8>,
    /// phase A: per task its operations, run in parallel
    pub tasks: Vec<Vec<TaskOp>>,
    /// links and monitors (watcher, target) set up before phase B
    pub links: Vec<(u8, u8)>,
    pub monitors: Vec<(u8, u8)>,
    /// phase B: these processes are made to fail at the same time, one task each
    pub victims: Vec<u8>,
}

struct StressOut {
    problems: Vec<(String, String)>,
    parallel_kills: usize,
    notices: usize,
    raced: bool,
    multi: bool,
}

fn run_stress(c: &StressCase) -> Result<Result<StressOut, String>, BedErr> {
    let c = c.clone();
    run_case_mt(4, Duration::from_secs(60), move |_bed| async move {
        let mut node = Node::new("rust@127.0.0.1", "cookie");
        node.start(0).await.map_err(|e| format!("node start: {e}"))?;
        let node = Arc::new(node);
        let mut procs: Vec<(ExternalPid, Log)> = vec![];
        for _ in 0..S_PROC {
            let log = new_log();
            let pid = node.spawn(Recorder { log: log.clone(), gate: None }).await.map_err(|e| e.to_string())?;
            procs.push((pid, log));
        }
        let pids: Vec<ExternalPid> = procs.iter().map(|p| p.0.clone()).collect();
        let mut problems: Vec<(String, String)> = vec![];
        let mut names: BTreeMap<usize, usize> = BTreeMap::new();
        for (k, h) in c.holders.iter().enumerate().take(S_NAMES.len()) {
            let p = *h as usize % S_PROC;
            node.register(Atom::new(S_NAMES[k]), pids[p].clone()).await.map_err(|e| e.to_string())?;
            names.insert(k, p);
        }
        // ---- phase A
        let mut hs = vec![];
        for (t, ops) in c.tasks.iter().enumerate() {
            let (node, pids, ops, names) = (node.clone(), pids.clone(), ops.clone(), names.clone());
            hs.push(tokio::spawn(async move {
                let mut done: Vec<(usize, Value)> = vec![];
                let mut won: Vec<(usize, usize)> = vec![];
                let mut probs: Vec<(String, String)> = vec![];
                for (k, op) in ops.iter().enumerate() {
                    let v = payload("conc", t as i128, k as i128);
                    let term = crate::terms::lift0(&v).unwrap();
                    match op {
                        TaskOp::Send(x) => {
                            let p = *x as usize % S_PROC;
                            match node.send(&pids[p], term).await {
                                Ok(()) => done.push((p, v)),
                                Err(e) => probs.push(("send-to-live-process-fails".to_string(), format!("parallel: process {p}: {e}"))),
                            }
                        }
                        TaskOp::SendName(x) => {
                            let n = *x as usize % S_NAMES.len();
                            let r = node.send_to_name(&Atom::new(S_NAMES[n]), term).await;
                            match (r.is_ok(), names.get(&n)) {
                                (true, Some(p)) => done.push((*p, v)),
                                (false, None) => {}
                                (true, None) => probs.push(("send-to-unregistered-name-succeeds".to_string(), format!("parallel: {}", S_NAMES[n]))),
                                (false, Some(p)) => probs.push(("send-to-registered-name-fails".to_string(), format!("parallel: {} held by live process {p}: {:?}", S_NAMES[n], r.err().map(|e| e.to_string())))),
                            }
                        }
                        TaskOp::RaceRegister { name, proc_ } => {
                            let p = *proc_ as usize % S_PROC;
                            if node.register(Atom::new(if *name { "race1" } else { "race0" }), pids[p].clone()).await.is_ok() {
                                won.push((*name as usize, p));
                            }
                        }
                    }
                }
                (done, won, probs)
            }));
        }
        let mut sent: Vec<Vec<(usize, Value)>> = vec![];
        let mut winners: Vec<(usize, usize)> = vec![];
        for h in hs {
            let (done, won, probs) = h.await.map_err(|e| format!("task failed: {e}"))?;
            sent.push(done);
            winners.extend(won);
            problems.extend(probs);
        }
        let mut raced = false;
        let mut race_holder: [Option<usize>; 2] = [None, None];
        for k in 0..2 {
            let attempts = c.tasks.iter().flatten().filter(|o| matches!(o, TaskOp::RaceRegister { name, .. } if *name as usize == k)).count();
            let w: Vec<usize> = winners.iter().filter(|(n, _)| *n == k).map(|(_, p)| *p).collect();
            raced |= c.tasks.iter().filter(|t| t.iter().any(|o| matches!(o, TaskOp::RaceRegister { name, .. } if *name as usize == k))).count() >= 2;
            if attempts > 0 && w.len() != 1 {
                problems.push(("contested-name-not-taken-exactly-once".into(), format!("{attempts} parallel attempts to register the free name race{k}, {} succeeded (processes {:?})", w.len(), w)));
            }
            race_holder[k] = w.first().copied();
            if let Some(p) = race_holder[k] {
                let got = node.whereis(&Atom::new(format!("race{k}"))).await;
                if got.as_ref() != Some(&pids[p]) {
                    problems.push(("whereis-wrong".into(), format!("race{k} was registered for process {p} but resolves to {:?}", got.map(|p| p.id))));
                }
            }
        }
        // all phase-A messages handled, exactly once, per sender in order
        let total: usize = sent.iter().map(|s| s.len()).sum();
        let logs: Vec<Log> = procs.iter().map(|p| p.1.clone()).collect();
        let _ = wait_until_rt(Duration::from_secs(20), || logs.iter().map(|l| l.lock().unwrap().len()).sum::<usize>() >= total).await;
        tokio::time::sleep(Duration::from_millis(2)).await;
        for p in 0..S_PROC {
            let log = logs[p].lock().unwrap().clone();
            for (t, s) in sent.iter().enumerate() {
                let mine: Vec<Value> = s.iter().filter(|(tp, _)| *tp == p).map(|(_, v)| v.canon()).collect();
                let got: Vec<Value> = log
                    .iter()
                    .filter_map(|e| match e {
                        Event::Regular(v @ Value::Tuple(tt)) if tt.first() == Some(&Value::atom("conc")) && tt.get(1) == Some(&Value::int(t as i128)) => Some(v.clone()),
                        _ => None,
                    })
                    .collect();
                if got != mine {
                    problems.push((
                        "concurrent-sends-lost-duplicated-or-reordered".into(),
                        format!("parallel: process {p}, sender task {t}: handler saw {:?}, sender issued {:?}", got.iter().map(|v| v.render()).collect::<Vec<_>>(), mine.iter().map(|v| v.render()).collect::<Vec<_>>()),
                    ));
                }
            }
            if log.len() != sent.iter().map(|s| s.iter().filter(|(tp, _)| *tp == p).count()).sum::<usize>() {
                problems.push(("concurrent-sends-lost-duplicated-or-reordered".into(), format!("parallel: process {p} handled {} messages", log.len())));
            }
            logs[p].lock().unwrap().clear();
        }
        let multi = (0..S_PROC).any(|p| sent.iter().filter(|s| s.iter().any(|(tp, _)| *tp == p)).count() >= 2);
        // ---- phase B: links, monitors, then simultaneous failures
        let victims: BTreeSet<usize> = c.victims.iter().map(|v| *v as usize % S_PROC).collect();
        let mut link_set: BTreeSet<(usize, usize)> = BTreeSet::new();
        for (a, b) in &c.links {
            let (a, b) = (*a as usize % S_PROC, *b as usize % S_PROC);
            if a != b {
                node.link(&pids[a], &pids[b]).await.map_err(|e| e.to_string())?;
                link_set.insert((a.min(b), a.max(b)));
            }
        }
        let mut mons: Vec<(usize, usize, Value)> = vec![];
        for (w, t) in &c.monitors {
            let (w, t) = (*w as usize % S_PROC, *t as usize % S_PROC);
            if w != t {
                let r = node.monitor(&pids[w], &pids[t]).await.map_err(|e| e.to_string())?;
                mons.push((w, t, denote(&OwnedTerm::Reference(r))));
            }
        }
        let mut hs = vec![];
        for v in &victims {
            let (node, pid) = (node.clone(), pids[*v].clone());
            hs.push(tokio::spawn(async move {
                let _ = node.send(&pid, OwnedTerm::atom("poison")).await;
            }));
        }
        for h in hs {
            let _ = h.await;
        }
        let reg = node.registry();
        for v in &victims {
            let pid = pids[*v].clone();
            let t0 = std::time::Instant::now();
            while reg.get(&pid).await.is_some() {
                if t0.elapsed() > Duration::from_secs(20) {
                    problems.push(("process-does-not-terminate".into(), format!("parallel: process {v}")));
                    break;
                }
                tokio::time::sleep(Duration::from_micros(200)).await;
            }
        }
        // what each survivor must have been told
        let mut expected: Vec<Vec<Event>> = vec![vec![]; S_PROC];
        for (a, b) in &link_set {
            for (dead, other) in [(*a, *b), (*b, *a)] {
                if victims.contains(&dead) && !victims.contains(&other) {
                    expected[other].push(Event::Exit { from: pid_value(&pids[dead]), reason: Value::atom("error") });
                }
            }
        }
        for (w, t, r) in &mons {
            if victims.contains(t) && !victims.contains(w) {
                expected[*w].push(Event::MonitorExit { monitored: pid_value(&pids[*t]), reference: r.clone(), reason: Value::atom("error") });
            }
        }
        let notices: usize = expected.iter().map(|e| e.len()).sum();
        let survivors: Vec<usize> = (0..S_PROC).filter(|p| !victims.contains(p)).collect();
        let _ = wait_until_rt(Duration::from_secs(20), || survivors.iter().map(|p| logs[*p].lock().unwrap().len()).sum::<usize>() >= notices).await;
        tokio::time::sleep(Duration::from_millis(2)).await;
        for p in &survivors {
            let mut got = logs[*p].lock().unwrap().clone();
            let mut want = crate::nodebed::canon_log(&expected[*p]);
            got.sort_by_key(|e| format!("{:?}", e));
            want.sort_by_key(|e| format!("{:?}", e));
            if got != want {
                problems.push(("process-log-differs-from-model".into(), format!("parallel failures of {:?}: survivor {p} was told {:?}, expected {:?}", victims, got, want)));
            }
        }
        // names of the dead are free again, the others still resolve; identifiers of the dead do not
        for (k, holder) in names.iter().map(|(k, h)| (S_NAMES[*k].to_string(), Some(*h))).chain((0..2).map(|k| (format!("race{k}"), race_holder[k]))) {
            let got = node.whereis(&Atom::new(k.clone())).await;
            let want = holder.filter(|h| !victims.contains(h)).map(|h| pids[h].clone());
            if got != want {
                problems.push(("whereis-wrong".into(), format!("after parallel failures of {:?}: whereis({k}) = {:?}, expected process {:?}", victims, got.map(|p| p.id), holder.filter(|h| !victims.contains(h)))));
            } else if holder.is_some() && want.is_none() {
                if let Some(s) = survivors.first() {
                    if let Err(e) = node.register(Atom::new(k.clone()), pids[*s].clone()).await {
                        problems.push(("free-name-cannot-be-registered".into(), format!("after the failure of its holder, register({k}) fails: {e}")));
                    }
                }
            }
        }
        for v in &victims {
            if node.send(&pids[*v], OwnedTerm::atom("x")).await.is_ok() {
                problems.push(("send-to-dead-process-succeeds".into(), format!("parallel: process {v}")));
            }
        }
        let pc = node.process_count().await;
        if pc != S_PROC - victims.len() {
            problems.push(("process-count-wrong".into(), format!("parallel: process_count() = {pc}, expected {}", S_PROC - victims.len())));
        }
        Ok(StressOut { problems, parallel_kills: victims.len(), notices, raced, multi })
    })
}

/// wait on a runtime with a real clock
async fn wait_until_rt(cap: Duration, mut cond: impl FnMut() -> bool) -> bool {
    let t0 = std::time::Instant::now();
    while !cond() {
        if t0.elapsed() > cap {
            return false;
        }
        tokio::time::sleep(Duration::from_micros(200)).await;
    }
    true
}

pub fn stress_oracle(c: &StressCase) -> Verdict {
    // an unpinned parallel run: repeat the same input a few times, any repetition may expose a race
    let mut last = None;
    for _ in 0..3 {
        let out = match run_stress(c) {
            Ok(Ok(o)) => o,
            Ok(Err(e)) => return Verdict::Fail { signature: "harness:netbed".into(), detail: e },
            Err(BedErr::RealTimeCap) => return Verdict::Fail { signature: "harness:parallel-run-hit-real-time-cap".into(), detail: "inconclusive".into() },
            Err(BedErr::Setup(e)) => return Verdict::Fail { signature: "harness:netbed".into(), detail: e },
        };
        if let Some((s, d)) = out.problems.first() {
            return Verdict::Fail { signature: s.clone(), detail: d.clone() };
        }
        last = Some(out);
    }
    let out = last.unwrap();
    let nontrivial = out.multi || out.raced || (out.parallel_kills >= 2 && out.notices > 0);
    let info = if nontrivial { CaseInfo::nt(fp(&format!("{:?}", c))) } else { CaseInfo::trivial() };
    Verdict::Pass(info.class_if(out.multi, "parallel-senders-one-target").class_if(out.raced, "parallel-contested-name").class_if(out.parallel_kills >= 2 && out.notices > 0, "simultaneous-failures-with-notices"))
}

fn stress_strategy() -> impl Strategy<Value = StressCase> {
    (
        prop::collection::vec(any::<u8>(), 0..=4),
        prop::collection::vec(prop::collection::vec(task_op_strategy(), 0..40), 2..5),
        prop::collection::vec((any::<u8>(), any::<u8>()), 0..8),
        prop::collection::vec((any::<u8>(), any::<u8>()), 0..8),
        prop::collection::vec(any::<u8>(), 0..5),
    )
        .prop_map(|(holders, tasks, links, monitors, victims)| StressCase { holders, tasks, links, monitors, victims })
}

pub fn run(run: &mut Run) {
    run.rule = "histories over five recorder processes, a GenServerProcess and a GenEventManager on a started Node: a sequential prefix (register, unregister, link, unlink, monitor, demonitor, send, send-to-name, \
        process failure, $gen_call to the server and to an event handler), then up to three tasks sending concurrently to processes and names under a generated yield schedule, then a sequential suffix of the same \
        operations. A model tracks liveness, names, links and monitors. Oracle: every handler log equals the model (each message once, in sender order; exactly one Exit / MonitorExit with the right pid and reference \
        per surviving linked / monitoring process; none after unlink / demonitor).; a dead pid no longer accepts sends; its names are free again and can be re-registered; a taken name cannot be registered; whereis / \
        registered / process_count agree with the model; each $gen_call is answered once with the caller's reference. A second campaign (parallel-stress) runs on a 4-worker runtime: tasks send in parallel to processes and stable names and fight over two free names, then several processes fail at the same time; the same oracle questions, order-free for notices of different failures. Non-trivial = a failure of a process that had a link, monitor or name, two tasks sending to one target, or two tasks contesting one name"
        .into();
    run.assumptions = vec![
        "exit propagation is checked for failures that happen after the links / monitors were completely set up (single-task prefix / suffix); sends that race with a failure are not generated".into(),
        "a recorder that receives an Exit notice only records it (no cascading failure)".into(),
    ];
    run.prop("process-histories", strategy, run.tier.pick(20_000, 400_000), oracle);
    // the same questions with real parallelism (4 worker threads, each input run three times): per-sender order and
    // exactly-once under parallel senders, a free name taken exactly once under parallel register calls, exactly one
    // notice per link / monitor for survivors of simultaneous failures, names of the dead free afterwards
    run.prop_opts("parallel-stress", stress_strategy, run.tier.pick(600, 20_000), false, stress_oracle);
}

pub fn replays() -> Vec<ReplayEntry> {
    vec![replay_entry("process-histories", oracle), replay_entry("parallel-stress", |c: &StressCase| {
        // an unpinned schedule: give the saved input many chances
        for _ in 0..40 {
            if let v @ Verdict::Fail { .. } = stress_oracle(c) {
                return v;
            }
        }
        stress_oracle(c)
    })]
}

//! C20 — Elixir wrappers and proplist/map helpers convert back to what went in.

use crate::engine::{fp, no_panic, replay_entry, CaseInfo, ReplayEntry, Run, Verdict};
use crate::gen::{arb_choices, arb_value, dedupe_map, GenCfg};
use crate::terms::{denote, lift};
use crate::vfail;
use edp_elixir_terms::*;
use erltf::{Atom, OwnedTerm};
use proptest::prelude::*;
use refmodel::etf::VecPicker;
use refmodel::{erl_cmp, Cmp, Value};
use serde::{Deserialize, Serialize};

fn wire(t: &OwnedTerm) -> Result<OwnedTerm, String> {
    let b = erltf::encode(t).map_err(|e| format!("encode: {e:?}"))?;
    erltf::decode(&b).map_err(|e| format!("decode: {e:?}"))
}

// ------------------------------------------------------------------------------------------------
// ranges

#[derive(Clone, Debug, Serialize, Deserialize)]
pub struct RangeCase {
    pub first: i64,
    pub last: i64,
    pub step: i64,
    pub probes: Vec<i64>,
}

fn m_empty(f: i128, l: i128, s: i128) -> bool {
    s == 0 || (s > 0 && f > l) || (s < 0 && f < l)
}
fn m_len(f: i128, l: i128, s: i128) -> u128 {
    if m_empty(f, l, s) {
        0
    } else {
        (l - f).unsigned_abs() / s.unsigned_abs() + 1
    }
}
fn m_contains(f: i128, l: i128, s: i128, v: i128) -> bool {
    if m_empty(f, l, s) {
        return false;
    }
    let inb = if s > 0 { v >= f && v <= l } else { v <= f && v >= l };
    inb && (v - f) % s == 0
}

pub fn range_oracle(c: &RangeCase) -> Verdict {
    let (f, l, s) = (c.first as i128, c.last as i128, c.step as i128);
    let r = ElixirRange::new(c.first, c.last, c.step);
    let want_len = m_len(f, l, s);
    let want_len_usize = usize::try_from(want_len).unwrap_or(usize::MAX);
    macro_rules! np {
        ($what:expr, $e:expr) => {
            match no_panic(|| $e) {
                Ok(v) => v,
                Err(p) => vfail!("range-arithmetic-panics", "{} panicked for {}..{}//{}: {}", $what, c.first, c.last, c.step, p),
            }
        };
    }
    let e = np!("is_empty", r.is_empty());
    if e != m_empty(f, l, s) {
        vfail!("range-is-empty-wrong", "{}..{}//{}: is_empty() = {}", c.first, c.last, c.step, e);
    }
    let n = np!("len", r.len());
    if n != want_len_usize {
        vfail!("range-len-wrong", "{}..{}//{}: len() = {}, exact length {}", c.first, c.last, c.step, n, want_len);
    }
    let mut probes: Vec<i128> = c.probes.iter().map(|p| *p as i128).collect();
    for base in [f, l] {
        for d in [-s, s, -1, 0, 1, 2 * s] {
            probes.push(base + d);
        }
    }
    if want_len > 0 {
        probes.push(f + (want_len as i128 - 1).min(1 << 70) * s); // the last member
        probes.push(f + ((want_len / 2) as i128) * s);
    }
    for p in probes {
        let Ok(v) = i64::try_from(p) else { continue };
        let got = np!("contains", r.contains(v));
        if got != m_contains(f, l, s, p) {
            vfail!("range-contains-wrong", "{}..{}//{}: contains({}) = {}", c.first, c.last, c.step, v, got);
        }
    }
    // iteration (first 2000 items) agrees with length and membership
    let cap = 2000usize;
    let mut it = r.into_iter();
    let hint0 = np!("size_hint", it.size_hint());
    let el0 = np!("ExactSizeIterator::len", it.len());
    if hint0 != (want_len_usize, Some(want_len_usize)) || el0 != want_len_usize {
        vfail!("range-size-hint-wrong", "{}..{}//{}: size_hint {:?} / len {} but the range has {} elements", c.first, c.last, c.step, hint0, el0, want_len);
    }
    let mut k: u128 = 0;
    loop {
        let item = np!("next", it.next());
        match item {
            Some(v) => {
                if k >= want_len {
                    vfail!("range-iterates-non-member", "{}..{}//{} (length {}) yielded an extra item {}", c.first, c.last, c.step, want_len, v);
                }
                let want = f + k as i128 * s;
                if v as i128 != want {
                    vfail!("range-iteration-wrong-item", "{}..{}//{}: item #{} is {} expected {}", c.first, c.last, c.step, k, v, want);
                }
                k += 1;
                let rem = want_len - k;
                let h = np!("size_hint", it.size_hint());
                let remu = usize::try_from(rem).unwrap_or(usize::MAX);
                if h != (remu, Some(remu)) {
                    vfail!("range-size-hint-wrong", "{}..{}//{}: after {} items size_hint is {:?}, {} remain", c.first, c.last, c.step, k, h, rem);
                }
                if k as usize >= cap {
                    break;
                }
            }
            None => {
                if k != want_len {
                    vfail!("range-iteration-stops-early", "{}..{}//{}: iteration ended after {} of {} items", c.first, c.last, c.step, k, want_len);
                }
                break;
            }
        }
    }
    // term round trip, also through the wire
    let t: OwnedTerm = r.into();
    if ElixirRange::from_term(&t) != Some(r) {
        vfail!("wrapper-round-trip", "ElixirRange {:?} -> term -> {:?}", r, ElixirRange::from_term(&t));
    }
    match wire(&t) {
        Ok(w) => {
            if ElixirRange::from_term(&w) != Some(r) {
                vfail!("wrapper-wire-round-trip", "ElixirRange {:?} came back from the wire as {:?}", r, ElixirRange::from_term(&w));
            }
        }
        Err(e) => vfail!("wrapper-wire-error", "{e}"),
    }
    let near_edge = [c.first, c.last].iter().any(|x| (*x as i128 - i64::MAX as i128).abs() <= s.abs().max(2) || (*x as i128 - i64::MIN as i128).abs() <= s.abs().max(2));
    let nontrivial = s.abs() > 1 || near_edge || f.abs() > i32::MAX as i128;
    let info = if nontrivial { CaseInfo::nt(fp(&(c.first, c.last, c.step))) } else { CaseInfo::trivial() };
    Verdict::Pass(info.class("range").class_if(near_edge, "range:near-i64-edge").class_if(c.step == 0, "range:zero-step").class_if(want_len > 2000, "range:long"))
}

fn edge_i64() -> BoxedStrategy<i64> {
    prop_oneof![
        4 => prop::sample::select(vec![i64::MIN, i64::MIN + 1, i64::MIN + 2, i64::MIN + 7, -1, 0, 1, 2, 5, i64::MAX - 7, i64::MAX - 2, i64::MAX - 1, i64::MAX,
            i32::MAX as i64, i32::MAX as i64 + 1, i32::MIN as i64 - 1, 1i64 << 53, 1i64 << 62]),
        3 => -50i64..50,
        2 => any::<i64>(),
    ]
    .boxed()
}

pub fn range_strategy() -> impl Strategy<Value = RangeCase> {
    let step = prop_oneof![
        4 => prop::sample::select(vec![1i64, -1, 2, -2, 3, 5, -5, 7, 0, i64::MAX, i64::MIN, i64::MIN + 1, i64::MAX - 1, 1i64 << 62, -(1i64 << 62)]),
        2 => -20i64..20,
        1 => any::<i64>(),
    ];
    // pairs close to each other (short ranges at the ends of i64) as well as far apart
    let pair = prop_oneof![
        3 => (edge_i64(), -40i64..40).prop_map(|(a, d)| (a, a.saturating_add(d))),
        2 => (edge_i64(), edge_i64()),
        1 => (edge_i64(), any::<i64>()),
    ];
    (pair, step, prop::collection::vec(edge_i64(), 0..4)).prop_map(|((first, last), step, probes)| RangeCase { first, last, step, probes })
}

// ------------------------------------------------------------------------------------------------
// date / time wrappers

#[derive(Clone, Debug, Serialize, Deserialize)]
pub enum Mutn {
    None,
    /// replace integer field #i (by position in the wrapper's field list) with this integer
    SetInt(u8, i128),
    SetAtom(u8),
    Remove(u8),
    Retag,
    /// microsecond := something that is not a 2-tuple of integers
    BadMicro(u8),
    /// microsecond := {value, precision} with integers the wrapper's fields may not be able to hold
    SetMicro(i128, i128),
}

#[derive(Clone, Debug, Serialize, Deserialize)]
pub struct DtCase {
    pub kind: u8,
    pub year: i32,
    pub month: u8,
    pub day: u8,
    pub hour: u8,
    pub minute: u8,
    pub second: u8,
    pub us: u32,
    pub prec: u8,
    pub tz: String,
    pub abbr: String,
    pub utc_off: i32,
    pub std_off: i32,
    pub mutn: Mutn,
}

const DATE_FIELDS: &[&str] = &["year", "month", "day"];
const TIME_FIELDS: &[&str] = &["hour", "minute", "second"];
const NAIVE_FIELDS: &[&str] = &["year", "month", "day", "hour", "minute", "second"];
const DT_FIELDS: &[&str] = &["year", "month", "day", "hour", "minute", "second", "utc_offset", "std_offset"];

fn atom(s: &str) -> OwnedTerm {
    OwnedTerm::Atom(Atom::new(s))
}

fn big_or_int(v: i128) -> OwnedTerm {
    match i64::try_from(v) {
        Ok(i) => OwnedTerm::Integer(i),
        Err(_) => OwnedTerm::BigInt(crate::terms::bigint_of(&refmodel::BigI::from_i128(v))),
    }
}

/// apply the mutation to a wrapper's term; returns (term, name of the touched field, kind)
fn mutate_term(t: &OwnedTerm, fields: &[&str], m: &Mutn) -> (OwnedTerm, Option<String>) {
    let OwnedTerm::Map(map) = t else { return (t.clone(), None) };
    let mut map = map.clone();
    match m {
        Mutn::None => (t.clone(), None),
        Mutn::SetInt(i, v) => {
            let f = fields[*i as usize % fields.len()];
            map.insert(atom(f), big_or_int(*v));
            (OwnedTerm::Map(map), Some(f.to_string()))
        }
        Mutn::SetAtom(i) => {
            let f = fields[*i as usize % fields.len()];
            map.insert(atom(f), atom("oops"));
            (OwnedTerm::Map(map), Some(f.to_string()))
        }
        Mutn::Remove(i) => {
            let f = fields[*i as usize % fields.len()];
            map.remove(&atom(f));
            (OwnedTerm::Map(map), Some(f.to_string()))
        }
        Mutn::Retag => {
            map.insert(atom("__struct__"), atom("Elixir.Something.Else"));
            (OwnedTerm::Map(map), Some("__struct__".into()))
        }
        Mutn::SetMicro(v, pr) => {
            if map.contains_key(&atom("microsecond")) {
                map.insert(atom("microsecond"), OwnedTerm::Tuple(vec![big_or_int(*v), big_or_int(*pr)]));
                (OwnedTerm::Map(map), Some("microsecond".into()))
            } else {
                (t.clone(), None)
            }
        }
        Mutn::BadMicro(k) => {
            let v = match k % 4 {
                0 => atom("nil"),
                1 => OwnedTerm::Tuple(vec![OwnedTerm::Integer(1), OwnedTerm::Integer(2), OwnedTerm::Integer(3)]),
                2 => OwnedTerm::Integer(5),
                _ => OwnedTerm::Tuple(vec![OwnedTerm::Integer(1)]),
            };
            if map.contains_key(&atom("microsecond")) {
                map.insert(atom("microsecond"), v);
                (OwnedTerm::Map(map), Some("microsecond".into()))
            } else {
                (t.clone(), None)
            }
        }
    }
}

/// every integer-valued entry that both terms have must denote the same integer
fn fields_agree(parsed_back: &OwnedTerm, given: &OwnedTerm) -> Result<(), String> {
    let (Value::Map(b), Value::Map(g)) = (denote(parsed_back), denote(given)) else { return Ok(()) };
    for (k, v) in &g {
        if let Some((_, bv)) = b.iter().find(|(bk, _)| bk == k) {
            let is_num = |x: &Value| matches!(x, Value::Int(_)) || matches!(x, Value::Tuple(t) if t.iter().all(|e| matches!(e, Value::Int(_))));
            if is_num(v) && !bv.same(v) {
                return Err(format!("field {} of the term is {} but the parsed value carries {}", k.render(), v.render(), bv.render()));
            }
        }
    }
    Ok(())
}

macro_rules! dt_check {
    ($ty:ty, $x:expr, $fields:expr, $case:expr) => {{
        let x: $ty = $x;
        let t: OwnedTerm = x.clone().into();
        let (mt, touched) = mutate_term(&t, $fields, &$case.mutn);
        let parsed = match no_panic(|| <$ty>::from_term(&mt)) {
            Ok(p) => p,
            Err(p) => vfail!("wrapper-from-term-panics", "{}: {}", stringify!($ty), p),
        };
        match (&$case.mutn, touched) {
            (Mutn::None, _) | (_, None) => {
                if parsed.as_ref() != Some(&x) {
                    vfail!("wrapper-round-trip", "{} {:?} -> term -> {:?}", stringify!($ty), x, parsed);
                }
                match wire(&t) {
                    Ok(w) => {
                        let p2 = <$ty>::from_term(&w);
                        if p2.as_ref() != Some(&x) {
                            vfail!("wrapper-wire-round-trip", "{} {:?} came back from the wire as {:?}", stringify!($ty), x, p2);
                        }
                    }
                    Err(e) => vfail!("wrapper-wire-error", "{e}"),
                }
            }
            (Mutn::Retag, _) => {
                if parsed.is_some() {
                    vfail!("wrong-struct-accepted", "{} parsed a term tagged Elixir.Something.Else: {:?}", stringify!($ty), parsed);
                }
            }
            (Mutn::SetAtom(_), Some(f)) => {
                if let Some(y) = parsed {
                    vfail!("wrong-shape-accepted", "{}: field {} is an atom but the term parsed as {:?}", stringify!($ty), f, y);
                }
            }
            (Mutn::BadMicro(_), _) => {
                // a present-but-malformed microsecond that is read as {0,0}: own class, accepted
                if let Some(y) = parsed {
                    let back: OwnedTerm = y.into();
                    if let Err(e) = fields_agree(&back, &{
                        let mut m2 = mt.clone();
                        if let OwnedTerm::Map(m) = &mut m2 {
                            m.remove(&atom("microsecond"));
                        }
                        m2
                    }) {
                        vfail!("field-fabricated", "{}: {}", stringify!($ty), e);
                    }
                }
            }
            (_, Some(_)) => {
                // out-of-range / removed field: None, or a value that says what the term says
                if let Some(y) = parsed {
                    let back: OwnedTerm = y.clone().into();
                    if let Err(e) = fields_agree(&back, &mt) {
                        vfail!("field-truncated-or-fabricated", "{}: {} (parsed {:?})", stringify!($ty), e, y);
                    }
                }
            }
        }
    }};
}

/// The validating constructors accept exactly the dates of the proleptic Gregorian calendar (Calendar.ISO) and the times of
/// a 24-hour clock, and build what was asked for. The fields are the case's own, folded towards the valid ranges so that
/// day 29..31, hour 24, minute / second 60, microsecond 10^6 and precision 7 are met all the time.
fn constructors_check(c: &DtCase) -> Result<bool, (String, String)> {
    let leap = |y: i64| (y.rem_euclid(4) == 0 && y.rem_euclid(100) != 0) || y.rem_euclid(400) == 0;
    let (y, m, d) = (c.year, if c.month % 3 == 0 { c.month } else { 1 + c.month % 12 }, if c.day % 4 == 0 { c.day } else { 1 + c.day % 31 });
    let (h, mi, sec) = (if c.hour % 4 == 0 { c.hour } else { c.hour % 25 }, c.minute % 61, c.second % 61);
    let (us, prec) = (c.us, c.prec % 8);
    if ElixirDate::is_leap_year(y) != leap(y as i64) {
        return Err(("leap-year-wrong".into(), format!("is_leap_year({y}) = {}", ElixirDate::is_leap_year(y))));
    }
    let dim = match m {
        1 | 3 | 5 | 7 | 8 | 10 | 12 => 31,
        4 | 6 | 9 | 11 => 30,
        2 if leap(y as i64) => 29,
        2 => 28,
        _ => 0,
    };
    let date_ok = d >= 1 && d <= dim;
    let time_ok = h <= 23 && mi <= 59 && sec <= 59 && us <= 999_999 && prec <= 6;
    // a leap second is the one value on which calendars differ: either answer is taken for second 60
    let time_open = sec == 60 && h <= 23 && mi <= 59 && us <= 999_999 && prec <= 6;
    let bad = |what: &str, got: String| Err(("validating-constructor-wrong".to_string(), format!("{what}({y},{m},{d} {h}:{mi}:{sec}.{us}/{prec}) gave {got}; the date is {} and the time is {}", if date_ok { "valid" } else { "invalid" }, if time_ok { "valid" } else { "invalid" })));
    match ElixirDate::try_new(y, m, d) {
        Some(x) if date_ok && (x.year, x.month, x.day) == (y, m, d) => {
            // and it survives the term and the wire
            let back = erltf::encode(&OwnedTerm::from(x.clone())).ok().and_then(|b| erltf::decode(&b).ok()).and_then(|t| ElixirDate::from_term(&t));
            if back.as_ref() != Some(&x) {
                return bad("ElixirDate::try_new + wire", format!("{:?}", back));
            }
        }
        None if !date_ok => {}
        r => return bad("ElixirDate::try_new", format!("{:?}", r)),
    }
    if !time_open {
        match ElixirTime::try_new(h, mi, sec, us, prec) {
            Some(x) if time_ok && (x.hour, x.minute, x.second, x.microsecond_value, x.microsecond_precision) == (h, mi, sec, us, prec) => {}
            None if !time_ok => {}
            r => return bad("ElixirTime::try_new", format!("{:?}", r)),
        }
        let hms_ok = h <= 23 && mi <= 59 && sec <= 59;
        match ElixirTime::try_hms(h, mi, sec) {
            Some(x) if hms_ok && (x.hour, x.minute, x.second, x.microsecond_value) == (h, mi, sec, 0) => {}
            None if !hms_ok => {}
            r => return bad("ElixirTime::try_hms", format!("{:?}", r)),
        }
        match ElixirNaiveDateTime::try_new(y, m, d, h, mi, sec, us, prec) {
            Some(x) if date_ok && time_ok && (x.year, x.month, x.day, x.hour, x.minute, x.second, x.microsecond_value, x.microsecond_precision) == (y, m, d, h, mi, sec, us, prec) => {
                if (x.to_date(), x.to_time().hour, x.to_time().second) != (ElixirDate { year: y, month: m, day: d }, h, sec) {
                    return bad("ElixirNaiveDateTime::to_date/to_time", format!("{:?} / {:?}", x.to_date(), x.to_time()));
                }
            }
            None if !(date_ok && time_ok) => {}
            r => return bad("ElixirNaiveDateTime::try_new", format!("{:?}", r)),
        }
        match ElixirDateTime::try_utc(y, m, d, h, mi, sec, us, prec) {
            Some(x) if date_ok && time_ok && (x.year, x.month, x.day, x.hour, x.minute, x.second, x.microsecond_value, x.utc_offset, x.std_offset) == (y, m, d, h, mi, sec, us, 0, 0) && x.time_zone == "Etc/UTC" => {
                let back = erltf::encode(&OwnedTerm::from(x.clone())).ok().and_then(|b| erltf::decode(&b).ok()).and_then(|t| ElixirDateTime::from_term(&t));
                if back.as_ref() != Some(&x) {
                    return bad("ElixirDateTime::try_utc + wire", format!("{:?}", back));
                }
            }
            None if !(date_ok && time_ok) => {}
            r => return bad("ElixirDateTime::try_utc", format!("{:?}", r)),
        }
    }
    Ok(date_ok && m == 2 && d >= 28)
}

pub fn dt_oracle(c: &DtCase) -> Verdict {
    let feb_end = match constructors_check(c) {
        Ok(f) => f,
        Err((signature, detail)) => return Verdict::Fail { signature, detail },
    };
    match c.kind % 4 {
        0 => dt_check!(ElixirDate, ElixirDate { year: c.year, month: c.month, day: c.day }, DATE_FIELDS, c),
        1 => dt_check!(
            ElixirTime,
            ElixirTime { hour: c.hour, minute: c.minute, second: c.second, microsecond_value: c.us, microsecond_precision: c.prec },
            TIME_FIELDS,
            c
        ),
        2 => dt_check!(
            ElixirNaiveDateTime,
            ElixirNaiveDateTime {
                year: c.year,
                month: c.month,
                day: c.day,
                hour: c.hour,
                minute: c.minute,
                second: c.second,
                microsecond_value: c.us,
                microsecond_precision: c.prec
            },
            NAIVE_FIELDS,
            c
        ),
        _ => dt_check!(
            ElixirDateTime,
            ElixirDateTime {
                year: c.year,
                month: c.month,
                day: c.day,
                hour: c.hour,
                minute: c.minute,
                second: c.second,
                microsecond_value: c.us,
                microsecond_precision: c.prec,
                time_zone: c.tz.clone(),
                zone_abbr: c.abbr.clone(),
                utc_offset: c.utc_off,
                std_offset: c.std_off
            },
            DT_FIELDS,
            c
        ),
    }
    let wide = c.year.unsigned_abs() > 65535 || c.us > 65535 || c.utc_off.unsigned_abs() > 65535;
    let mutated = !matches!(c.mutn, Mutn::None);
    let info = if wide || mutated || c.month > 12 { CaseInfo::nt(fp(&format!("{:?}", c))) } else { CaseInfo::trivial() };
    Verdict::Pass(
        info.class(["date", "time", "naive-datetime", "datetime"][(c.kind % 4) as usize])
            .class_if(mutated, "wrong-shape")
            .class_if(matches!(c.mutn, Mutn::SetInt(..) | Mutn::SetMicro(..)), "field-out-of-range")
            .class_if(wide, "field-beyond-16-bits")
            .class_if(feb_end, "constructor:valid-end-of-february"),
    )
}

fn dt_strategy() -> impl Strategy<Value = DtCase> {
    let year = prop_oneof![3 => 1900i32..2100, 2 => prop::sample::select(vec![i32::MIN, -1, 0, 9999, 10000, 65536, i32::MAX, -4, -100, -196, -200, -296, -400, -500, 4, 100, 400, 1900, 2000, 2100, 2400]), 1 => any::<i32>()];
    let us = prop_oneof![3 => 0u32..1_000_000, 1 => prop::sample::select(vec![999_999u32, 1_000_000, 65536, u32::MAX]), 1 => any::<u32>()];
    let off = prop_oneof![3 => -50000i32..50000, 1 => prop::sample::select(vec![i32::MIN, i32::MAX, 0, 65536]), 1 => any::<i32>()];
    let bad_int = prop_oneof![
        prop::sample::select(vec![256i128, 255, 65536, -1, -129, 1i128 << 31, (1i128 << 31) - 1, -(1i128 << 31) - 1, 1i128 << 32, 1i128 << 40, (1i128 << 63), 1i128 << 70, 268, 300, 4294967296 + 12]),
        any::<i64>().prop_map(|v| v as i128),
    ];
    let mutn = prop_oneof![
        6 => Just(Mutn::None),
        5 => (any::<u8>(), bad_int).prop_map(|(i, v)| Mutn::SetInt(i, v)),
        1 => any::<u8>().prop_map(Mutn::SetAtom),
        1 => any::<u8>().prop_map(Mutn::Remove),
        1 => Just(Mutn::Retag),
        1 => any::<u8>().prop_map(Mutn::BadMicro),
        2 => (
            prop_oneof![prop::sample::select(vec![0i128, 999_999, 1 << 32, (1 << 32) + 7, -1, 1 << 63, 1 << 64, u32::MAX as i128]), any::<i64>().prop_map(|v| v as i128)],
            prop_oneof![prop::sample::select(vec![0i128, 6, 255, 256, 300, -1, 1 << 32]), (0i128..10)]
        )
            .prop_map(|(v, p)| Mutn::SetMicro(v, p)),
    ];
    let tz = prop_oneof![Just("Etc/UTC".to_string()), Just("Europe/Berlin".to_string()), "[A-Za-z/_]{0,12}".prop_map(|s| s), Just("Zürich/é".to_string())];
    (
        (0u8..4, year, any::<u8>(), any::<u8>(), any::<u8>(), any::<u8>(), any::<u8>()),
        (us, any::<u8>(), tz.clone(), tz, off.clone(), off, mutn),
    )
        .prop_map(|((kind, year, month, day, hour, minute, second), (us, prec, tz, abbr, utc_off, std_off, mutn))| DtCase {
            kind,
            year,
            month,
            day,
            hour,
            minute,
            second,
            us,
            prec,
            tz,
            abbr,
            utc_off,
            std_off,
            mutn,
        })
}

// ------------------------------------------------------------------------------------------------
// map sets, exceptions, builders, proplists

#[derive(Clone, Debug, Serialize, Deserialize)]
pub struct TermsCase {
    pub kind: u8,
    pub values: Vec<Value>,
    pub strings: Vec<String>,
    pub repr: Vec<u8>,
    pub arity: u8,
    pub opt: bool,
}

fn same_terms(a: &OwnedTerm, b: &OwnedTerm) -> bool {
    denote(a).same(&denote(b))
}

fn lift_all(vs: &[Value], repr: &[u8]) -> Option<Vec<OwnedTerm>> {
    let mut pk = VecPicker::new(repr);
    vs.iter().map(|v| lift(v, &mut pk)).collect()
}

macro_rules! exc_check {
    ($ty:ty, $x:expr, $eq:expr) => {{
        let x: $ty = $x;
        let t: OwnedTerm = x.clone().into();
        let eq: fn(&$ty, &$ty) -> bool = $eq;
        match no_panic(|| <$ty>::from_term(&t)) {
            Ok(Some(y)) if eq(&x, &y) => {}
            Ok(other) => vfail!("wrapper-round-trip", "{} {:?} -> term -> {:?}", stringify!($ty), x, other),
            Err(p) => vfail!("wrapper-from-term-panics", "{}: {}", stringify!($ty), p),
        }
        match wire(&t) {
            Ok(w) => match <$ty>::from_term(&w) {
                Some(y) if eq(&x, &y) => {}
                other => vfail!("wrapper-wire-round-trip", "{} {:?} came back from the wire as {:?}", stringify!($ty), x, other),
            },
            Err(e) => vfail!("wrapper-wire-error", "{e}"),
        }
        // wrong struct tag must be rejected
        if let OwnedTerm::Map(m) = &t {
            let mut m2 = m.clone();
            m2.insert(atom("__struct__"), atom("Elixir.Not.This"));
            if <$ty>::from_term(&OwnedTerm::Map(m2)).is_some() {
                vfail!("wrong-struct-accepted", "{} accepted a term tagged Elixir.Not.This", stringify!($ty));
            }
            let mut m3 = m.clone();
            m3.remove(&atom("__struct__"));
            if <$ty>::from_term(&OwnedTerm::Map(m3)).is_some() {
                vfail!("wrong-struct-accepted", "{} accepted a term without __struct__", stringify!($ty));
            }
        }
        if <$ty>::from_term(&OwnedTerm::Integer(3)).is_some() || <$ty>::from_term(&OwnedTerm::List(vec![])).is_some() {
            vfail!("wrong-shape-accepted", "{} accepted a non-map", stringify!($ty));
        }
    }};
}

pub fn terms_oracle(c: &TermsCase) -> Verdict {
    let Some(terms) = lift_all(&c.values, &c.repr) else { return Verdict::Pass(CaseInfo::trivial()) };
    let s = |i: usize| c.strings.get(i).cloned().unwrap_or_else(|| format!("s{i}"));
    let t0 = terms.first().cloned().unwrap_or(OwnedTerm::Integer(0));
    let t1 = terms.get(1).cloned().unwrap_or(OwnedTerm::atom("x"));
    let not_nil = |t: &OwnedTerm| !matches!(t, OwnedTerm::Atom(a) if a.as_str() == "nil");
    let kind = c.kind % 16;
    match kind {
        0 => {
            // MapSet over arbitrary member terms
            let set = ElixirMapSet::from_values(terms.clone());
            if c.opt {
                // the same set built member by member (one more member put in and taken out again) is the same set
                let mut built = ElixirMapSet::new();
                for m in &terms {
                    built.insert(m.clone());
                }
                let extra = OwnedTerm::atom("__verif_extra_member__");
                if !terms.contains(&extra) {
                    built.insert(extra.clone());
                    built.remove(&extra);
                }
                if built != set || built.len() != set.len() || built.is_empty() != terms.is_empty() {
                    vfail!("mapset-built-by-insert-differs", "{} members inserted one by one: len {} vs from_values len {}", terms.len(), built.len(), set.len());
                }
            }
            let t: OwnedTerm = set.clone().into();
            match ElixirMapSet::from_term(&t) {
                Some(y) if y == set => {}
                other => vfail!("wrapper-round-trip", "ElixirMapSet of {} members came back as {:?}", set.len(), other.map(|s| s.len())),
            }
            match wire(&t) {
                Ok(w) => match ElixirMapSet::from_term(&w) {
                    Some(y) => {
                        let a: Vec<Value> = set.iter().map(denote).collect();
                        let b: Vec<Value> = y.iter().map(denote).collect();
                        if a.len() != b.len() || !a.iter().all(|x| b.iter().any(|z| z.same(x))) {
                            vfail!("wrapper-wire-round-trip", "ElixirMapSet members changed over the wire: {} -> {}", a.len(), b.len());
                        }
                    }
                    None => vfail!("wrapper-wire-round-trip", "ElixirMapSet not recognised after the wire"),
                },
                Err(e) => vfail!("wrapper-wire-error", "{e}"),
            }
            // every member is found, the declared size is the member count
            for m in &terms {
                if !set.contains(m) {
                    vfail!("mapset-loses-member", "{}", denote(m).render());
                }
            }
            if let Value::Map(outer) = denote(&t) {
                if let Some((_, Value::Tuple(tu))) = outer.iter().find(|(k, _)| *k == Value::atom("map")) {
                    if tu.len() == 3 && !tu[1].same(&Value::int(set.len() as i128)) {
                        vfail!("mapset-size-field-wrong", "size field {} for {} members", tu[1].render(), set.len());
                    }
                }
            }
        }
        1 => exc_check!(ArgumentError, ArgumentError::new(s(0)), |a, b| a == b),
        2 => exc_check!(RuntimeError, RuntimeError::new(s(0)), |a, b| a == b),
        3 => exc_check!(ArithmeticError, ArithmeticError::new(s(0)), |a, b| a == b),
        4 => {
            let x = if c.opt { KeyError::with_message(t0.clone(), t1.clone(), s(0)) } else { KeyError::new(t0.clone(), t1.clone()) };
            exc_check!(KeyError, x, |a, b| same_terms(&a.key, &b.key) && same_terms(&a.term, &b.term) && a.message == b.message)
        }
        5 => exc_check!(MatchError, MatchError::new(t0.clone()), |a, b| same_terms(&a.term, &b.term)),
        6 => exc_check!(BadMapError, BadMapError::new(t0.clone()), |a, b| same_terms(&a.term, &b.term)),
        7 => exc_check!(BadFunctionError, BadFunctionError::new(t0.clone()), |a, b| same_terms(&a.term, &b.term)),
        8 => exc_check!(CaseClauseError, CaseClauseError::new(t0.clone()), |a, b| same_terms(&a.term, &b.term)),
        9 => exc_check!(WithClauseError, WithClauseError::new(t0.clone()), |a, b| same_terms(&a.term, &b.term)),
        10 => exc_check!(CondClauseError, CondClauseError::new(), |a, b| a == b),
        11 => {
            let module = s(0).replace("Elixir.", "");
            let x = if c.opt { UndefinedFunctionError::with_reason(module, s(1), c.arity, s(2)) } else { UndefinedFunctionError::new(module, s(1), c.arity) };
            exc_check!(UndefinedFunctionError, x, |a, b| a == b)
        }
        12 => {
            let module = s(0).replace("Elixir.", "");
            // a function literally called nil is indistinguishable from an absent one (the wrapper's own convention)
            let fun = if s(1) == "nil" { "nil_".to_string() } else { s(1) };
            // now and then the arguments are a bare atom from the same vocabulary (`undefined`, `false`, ... are ordinary values; only `nil` means absent)
            let t0 = if c.arity % 4 == 0 { OwnedTerm::atom(&s(2)) } else { t0.clone() };
            let x = if c.opt && not_nil(&t0) { FunctionClauseError::new(module, fun, c.arity, t0.clone()) } else { FunctionClauseError::empty() };
            exc_check!(FunctionClauseError, x, |a, b| a.module == b.module
                && a.function == b.function
                && a.arity == b.arity
                && match (&a.args, &b.args) {
                    (None, None) => true,
                    (Some(p), Some(q)) => same_terms(p, q),
                    _ => false,
                })
        }
        13 => {
            // builders: keyword list and atom-key map read back through the accessors
            let mut kw = KeywordListBuilder::new();
            let mut mb = AtomKeyMapBuilder::new();
            let keys: Vec<String> = (0..terms.len()).map(|i| s(i)).collect();
            // every way of adding an entry; what each call is documented to add is tracked beside it
            let mut terms = terms.clone();
            for (i, (k, v)) in keys.iter().zip(terms.clone().iter()).enumerate() {
                match (i + c.arity as usize) % 7 {
                    0 => {
                        kw = kw.put_term(k, v.clone());
                        mb = mb.insert_term(k, v.clone());
                    }
                    1 => {
                        kw = kw.put(k, v.clone());
                        mb = mb.insert(k, v.clone());
                    }
                    2 => {
                        kw = kw.put_if(true, k, v.clone()).put_if(false, "never_added", v.clone());
                        mb = mb.insert_if(true, k, v.clone()).insert_if(false, "never_added", v.clone());
                    }
                    3 => {
                        kw = kw.put_some(k, Some(v.clone())).put_some("never_added", None::<OwnedTerm>);
                        mb = mb.insert_some(k, Some(v.clone())).insert_some("never_added", None::<OwnedTerm>);
                    }
                    4 => {
                        kw = kw.put_atom(k, "an_atom");
                        mb = mb.insert_atom(k, "an_atom");
                        terms[i] = OwnedTerm::Atom(Atom::new("an_atom"));
                    }
                    5 => {
                        kw = kw.put_flag(k);
                        mb = mb.insert(k, true);
                        terms[i] = OwnedTerm::boolean(true);
                    }
                    _ => {
                        kw = kw.put_term(k, v.clone());
                        mb = mb.insert_term(k, v.clone());
                    }
                }
            }
            if kw.len() != keys.len() {
                vfail!("keyword-list-lookup-wrong", "builder holds {} entries after {} additions", kw.len(), keys.len());
            }
            let kwt = kw.build();
            let mt = mb.build();
            if kwt.proplist_get_atom_key("never_added").is_some() && !keys.iter().any(|k| k == "never_added") {
                vfail!("keyword-list-lookup-wrong", "an entry guarded by a false condition / None was added");
            }
            if mt.map_get_atom_key("never_added").is_some() && !keys.iter().any(|k| k == "never_added") {
                vfail!("atom-key-map-lookup-wrong", "an entry guarded by a false condition / None was added");
            }
            for (i, k) in keys.iter().enumerate() {
                let first = keys.iter().position(|x| x == k).unwrap();
                let last = keys.iter().rposition(|x| x == k).unwrap();
                match kwt.proplist_get_atom_key(k) {
                    Some(v) if same_terms(v, &terms[first]) => {}
                    other => vfail!("keyword-list-lookup-wrong", "key {:?} (#{i}): got {:?}", k, other.map(|v| denote(v).render())),
                }
                match mt.map_get_atom_key(k) {
                    Some(v) if same_terms(v, &terms[last]) => {}
                    other => vfail!("atom-key-map-lookup-wrong", "key {:?}: got {:?}", k, other.map(|v| denote(v).render())),
                }
            }
            if !kwt.is_proplist() && !terms.is_empty() {
                vfail!("keyword-list-not-a-proplist", "built keyword list is not recognised as a proplist");
            }
            // through the wire
            if let (Ok(kw2), Ok(m2)) = (wire(&kwt), wire(&mt)) {
                if !same_terms(&kw2, &kwt) || !same_terms(&m2, &mt) {
                    vfail!("wrapper-wire-round-trip", "builder output changed value over the wire");
                }
                for k in &keys {
                    if kw2.proplist_get_atom_key(k).is_none() && !keys.is_empty() && !terms.is_empty() {
                        vfail!("keyword-list-lookup-wrong", "key {:?} not found after the wire", k);
                    }
                }
            }
            let st = AtomKeyMapBuilder::new().insert_term("a", t0.clone()).build_struct(&s(0));
            if st.elixir_struct_module() != Some(&format!("Elixir.{}", s(0))) {
                vfail!("build-struct-module-wrong", "{:?}", st.elixir_struct_module());
            }
        }
        _ => {
            // proplist <-> map
            // a well-formed proplist: 2-tuples with atom/binary keys and bare atoms
            let mut plist: Vec<OwnedTerm> = vec![];
            for (i, v) in terms.iter().enumerate() {
                let k = s(i);
                plist.push(match (i + c.arity as usize) % 4 {
                    0 => OwnedTerm::Atom(Atom::new(&k)),
                    1 => OwnedTerm::Tuple(vec![OwnedTerm::Binary(k.into_bytes()), v.clone()]),
                    _ => OwnedTerm::Tuple(vec![OwnedTerm::Atom(Atom::new(&k)), v.clone()]),
                });
            }
            let p = OwnedTerm::List(plist.clone());
            let norm = match p.normalize_proplist() {
                Ok(n) => n,
                Err(e) => vfail!("normalize-proplist-error", "{e:?}"),
            };
            let m = match p.proplist_to_map() {
                Ok(m) => m,
                Err(e) => vfail!("proplist-to-map-error", "{e:?}"),
            };
            let back = match m.map_to_proplist() {
                Ok(b) => b,
                Err(e) => vfail!("map-to-proplist-error", "{e:?}"),
            };
            // a bare atom is the entry {atom, true} (that is what normalize_proplist and to_map_recursive make of it):
            // converting the proplist and converting its normal form must give the same map, duplicates or not
            match norm.proplist_to_map() {
                Ok(m2) if denote(&m2).same(&denote(&m)) => {}
                other => vfail!(
                    "proplist-to-map-differs-from-normal-form",
                    "proplist_to_map of {} gives {} but of its normal form {:?}",
                    denote(&p).render(),
                    denote(&m).render(),
                    other.map(|t| denote(&t).render())
                ),
            }
            // the recursive conversion is the same conversion when no value is itself a list or a map
            let flat = plist.iter().all(|e| match e {
                OwnedTerm::Tuple(kv) => !matches!(kv[1], OwnedTerm::List(_) | OwnedTerm::Map(_) | OwnedTerm::Nil | OwnedTerm::ImproperList { .. } | OwnedTerm::Tuple(_) | OwnedTerm::String(_)),
                _ => true,
            });
            if flat && !plist.is_empty() && p.is_proplist() {
                match p.to_map_recursive() {
                    Ok(m3) if denote(&m3).same(&denote(&m)) => {}
                    other => vfail!(
                        "to-map-recursive-differs-from-proplist-to-map",
                        "to_map_recursive of {} gives {:?}, proplist_to_map {}",
                        denote(&p).render(),
                        other.map(|t| denote(&t).render()),
                        denote(&m).render()
                    ),
                }
            }
            let pairs = |t: &OwnedTerm| -> Vec<(Value, Value)> {
                match denote(t) {
                    Value::List { elems, .. } => elems
                        .into_iter()
                        .filter_map(|e| match e {
                            Value::Tuple(mut kv) if kv.len() == 2 => {
                                let v = kv.pop().unwrap();
                                Some((kv.pop().unwrap(), v))
                            }
                            _ => None,
                        })
                        .collect(),
                    _ => vec![],
                }
            };
            let np = pairs(&norm);
            let bp = pairs(&back);
            let dup_free = (0..np.len()).all(|i| (0..i).all(|j| erl_cmp(&np[i].0, &np[j].0) != Cmp::Equal));
            if np.len() != plist.len() {
                vfail!("normalize-proplist-drops-entries", "{} of {} entries survive normalisation", np.len(), plist.len());
            }
            if dup_free {
                if np.len() != bp.len() || !np.iter().all(|x| bp.iter().any(|y| y.0.same(&x.0) && y.1.same(&x.1))) {
                    vfail!("proplist-map-round-trip-loses-entries", "normalised {} entries, after proplist->map->proplist {}", np.len(), bp.len());
                }
            } else {
                // duplicates: every key present with one of its values, nothing invented
                for (k, _) in &np {
                    if !bp.iter().any(|y| y.0.same(k)) {
                        vfail!("proplist-map-round-trip-loses-key", "key {} disappeared", k.render());
                    }
                }
                for (k, v) in &bp {
                    if !np.iter().any(|x| x.0.same(k) && x.1.same(v)) {
                        vfail!("proplist-map-round-trip-invents-entry", "entry {} => {} was not in the proplist", k.render(), v.render());
                    }
                }
            }
            // map -> proplist -> map
            match back.proplist_to_map() {
                Ok(m2) if same_terms(&m2, &m) => {}
                other => vfail!("map-proplist-round-trip", "{:?}", other.map(|t| denote(&t).render())),
            }
            // arbitrary map (keys of any type)
            let mut bm = std::collections::BTreeMap::new();
            for w in terms.chunks(2) {
                if w.len() == 2 {
                    bm.insert(w[0].clone(), w[1].clone());
                }
            }
            let anym = OwnedTerm::Map(bm);
            match anym.map_to_proplist().and_then(|pl| pl.proplist_to_map()) {
                Ok(m2) if same_terms(&m2, &anym) => {}
                other => vfail!("map-proplist-round-trip", "arbitrary-key map: {:?}", other.map(|t| denote(&t).render())),
            }
        }
    }
    let names = ["mapset", "exception", "exception", "exception", "exception", "exception", "exception", "exception", "exception", "exception", "exception", "exception", "exception", "builders", "proplist-map", "proplist-map"];
    let nontrivial = !terms.is_empty() || kind >= 1 && kind <= 12;
    let info = if nontrivial { CaseInfo::nt(fp(&format!("{:?}", c))) } else { CaseInfo::trivial() };
    Verdict::Pass(info.class(names[kind as usize]))
}

pub fn terms_strategy() -> impl Strategy<Value = TermsCase> {
    let cfg = GenCfg { depth: 3, size: 10, heavy: false, ..GenCfg::std() };
    let strs = prop_oneof![
        3 => "[a-z_]{1,8}".prop_map(|s| s),
        // a two-letter alphabet: duplicate keys are the rule
        2 => "[ab]".prop_map(|s| s),
        1 => "[A-Z][a-zA-Z.]{0,10}".prop_map(|s| s),
        1 => prop::sample::select(vec!["", "nil", "true", "message", "héllo", "日本", "Elixir.Foo", "a b", "key", "undefined", "false", "null", "none", "__struct__", "__exception__"]).prop_map(|s| s.to_string()),
    ];
    (0u8..16, prop::collection::vec(arb_value(cfg), 0..6), prop::collection::vec(strs, 0..6), arb_choices(10), any::<u8>(), any::<bool>()).prop_map(
        |(kind, values, strings, repr, arity, opt)| {
            // set members / map keys must be pairwise distinct under ==
            let values: Vec<Value> = dedupe_map(values.into_iter().map(|v| (v, Value::int(0))).collect(), false).into_iter().map(|(k, _)| k).collect();
            TermsCase { kind, values, strings, repr, arity, opt }
        },
    )
}

pub fn run(run: &mut Run) {
    run.rule = "ElixirRange over the i64^3 space biased to the extremes (MIN/MAX +-7, zero step, |step| > span) against an i128 model of length/membership/iteration/size_hint; \
        Date/Time/NaiveDateTime/DateTime over all field values the Rust types admit, plus wrong-shape terms (field := 256, 2^31, 2^40, -1, bigint, atom; key removed; struct tag \
        changed; malformed microsecond); MapSet over term-space members; the 12 exceptions; keyword-list / atom-key-map builders read back through the accessors; proplists with \
        atom/binary keys, bare atoms and duplicates <-> maps. Every wrapper also after encode+decode. Non-trivial = field beyond i32 / at a type boundary, wrong-shape input, \
        non-empty collection, |step| > 1 or an end within one step of i64::MIN/MAX"
        .into();
    run.assumptions = vec![
        "exception module names are generated without the 'Elixir.' prefix the parser strips; FunctionClauseError.args is never the atom nil (the wrapper maps nil to None by design)".into(),
        "terms embedded in a wrapper are compared by the value they denote after the wire trip (String->Binary, List([])->Nil, Integer->BigInt are representation changes)".into(),
        "a microsecond entry that is present but malformed and read as {0,0} is accepted (counted separately); an absent one defaults by design".into(),
        "range length saturates at usize::MAX for the one range with 2^64 elements".into(),
    ];
    run.prop("ranges", range_strategy, run.tier.pick(60_000, 3_000_000), range_oracle);
    run.prop("date-time", dt_strategy, run.tier.pick(60_000, 3_000_000), dt_oracle);
    run.prop("sets-exceptions-builders-proplists", terms_strategy, run.tier.pick(30_000, 1_500_000), terms_oracle);
    if run.tier == crate::engine::Tier::Thorough {
        // coverage-guided byte fuzzing of the same oracle (libFuzzer, structure-aware through fuzzde); see fuzzbridge.rs
        crate::fuzzbridge::campaign(run, "c20range", 3_000_000, 400);
    }
    if run.tier == crate::engine::Tier::Thorough {
        // coverage-guided byte fuzzing of the same oracle (libFuzzer, structure-aware through fuzzde); see fuzzbridge.rs
        crate::fuzzbridge::campaign(run, "c20terms", 3_000_000, 400);
    }
}

pub fn replays() -> Vec<ReplayEntry> {
    vec![replay_entry("fuzz:c20range", crate::fuzzbridge::eval_input), replay_entry("fuzz:c20terms", crate::fuzzbridge::eval_input), 
        replay_entry("ranges", range_oracle),
        replay_entry("date-time", dt_oracle),
        replay_entry("sets-exceptions-builders-proplists", terms_oracle),
    ]
}

//! C01 — encode/decode round trip preserves the Erlang value of every term.

use crate::engine::{fp, replay_entry, CaseInfo, ReplayEntry, Run, Verdict};
use crate::gen::{arb_choices, arb_value, classes_of, GenCfg};
use crate::terms::{denote, hex, identical, lift};
use crate::vfail;
use erltf::errors::EncodeError;
use erltf::{Atom, ExternalReference, OwnedTerm};
use proptest::prelude::*;
use refmodel::etf::{refdec, VecPicker};
use refmodel::Value;
use serde::{Deserialize, Serialize};

#[derive(Clone, Debug, Serialize, Deserialize)]
pub struct Case {
    pub value: Value,
    pub repr: Vec<u8>,
}

fn has_wide_old(v: &Value) -> bool {
    let mut f = false;
    v.walk(&mut |x| {
        if let Value::Fun { old_index, old_uniq, .. } = x {
            if *old_index > i32::MAX as u32 || *old_uniq > i32::MAX as u32 {
                f = true
            }
        }
    });
    f
}

pub fn roundtrip(case: &Case) -> Verdict {
    let v = &case.value;
    let mut pk = VecPicker::new(&case.repr);
    let Some(t) = lift(v, &mut pk) else {
        // building the term's map lost an entry: expected only for keys the library's order takes for equal (C03-F1);
        // any other pair of keys must stay two entries
        if !refmodel::order::has_numerically_equal_keys(v) {
            vfail!("constructed-map-lost-an-entry", "a map in {} cannot be built as a term: two different keys are taken for one", v.render());
        }
        return Verdict::Pass(CaseInfo::trivial().class("unrepresentable:map-keys-collapse"));
    };
    let alt_repr = pk.noncanonical > 0;
    let dv = denote(&t);
    if !dv.same(v) {
        vfail!("constructed-term-denotes-another-value", "denote(lift(v)) != v: {} vs {}", dv.render(), v.render());
    }
    let enc = match erltf::encode(&t) {
        Ok(b) => b,
        Err(e) => vfail!("encode-error-on-expressible-term", "encode failed with {e:?} for {}", v.render()),
    };
    // (1) an independent reader sees the same value and consumes everything
    match refdec(&enc) {
        Ok(rv) => {
            if !rv.same(v) {
                vfail!(
                    "independent-reader-sees-different-value",
                    "reference reader got {} expected {} bytes={}",
                    rv.render(),
                    v.render(),
                    hex(&enc)
                );
            }
        }
        Err(e) => vfail!("independent-reader-rejects", "reference reader: {e:?} for {} bytes={}", v.render(), hex(&enc)),
    }
    // (2) the library's own decoder yields the same value
    let t2 = match erltf::decode(&enc) {
        Ok(t2) => t2,
        Err(e) => {
            if has_wide_old(v) {
                vfail!("fun-old-index-or-uniq>=2^31-not-decodable", "decode(encode(t)) failed: {e:?} for {}", v.render());
            }
            vfail!("own-decoder-rejects-own-encoding", "decode(encode(t)) failed: {e:?} for {} bytes={}", v.render(), hex(&enc))
        }
    };
    let d2 = denote(&t2);
    if !d2.same(v) {
        vfail!("decoded-value-differs", "decode(encode(t)) denotes {} expected {}", d2.render(), v.render());
    }
    // (3) re-encoding reproduces the bytes
    match erltf::encode(&t2) {
        Ok(b2) => {
            if b2 != enc {
                vfail!("reencode-differs", "encode(decode(b)) != b for {}: {} vs {}", v.render(), hex(&b2), hex(&enc));
            }
        }
        Err(e) => vfail!("reencode-error", "encode(decode(b)) failed {e:?}"),
    }
    // (4) writer variant
    let mut w: Vec<u8> = vec![];
    match erltf::encode_to_writer(&t, &mut w) {
        Ok(()) => {
            if w != enc {
                vfail!("encode-to-writer-differs", "encode_to_writer wrote different bytes for {}", v.render());
            }
        }
        Err(e) => vfail!("encode-to-writer-error", "{e:?}"),
    }
    // ... also into a sink that takes only a few bytes per call (a pipe or socket under back-pressure), and a sink
    // that is full must be reported, not ignored
    struct Short {
        out: Vec<u8>,
        per_call: usize,
        room: usize,
    }
    impl std::io::Write for Short {
        fn write(&mut self, b: &[u8]) -> std::io::Result<usize> {
            let n = b.len().min(self.per_call).min(self.room);
            self.out.extend_from_slice(&b[..n]);
            self.room -= n;
            Ok(n)
        }
        fn flush(&mut self) -> std::io::Result<()> {
            Ok(())
        }
    }
    let per_call = [1usize, 7, 64, 4096][case.repr.first().copied().unwrap_or(0) as usize % 4];
    let mut sw = Short { out: vec![], per_call, room: usize::MAX };
    match erltf::encode_to_writer(&t, &mut sw) {
        Ok(()) if sw.out == enc => {}
        Ok(()) => vfail!("encode-to-writer-differs", "a sink taking {per_call} bytes per call received {} of {} bytes and encode_to_writer returned Ok", sw.out.len(), enc.len()),
        Err(e) => vfail!("encode-to-writer-error", "sink taking {per_call} bytes per call: {e:?}"),
    }
    if enc.len() > 1 {
        let mut full = Short { out: vec![], per_call: 4096, room: enc.len() - 1 };
        if erltf::encode_to_writer(&t, &mut full).is_ok() {
            vfail!("encode-to-writer-differs", "a sink with room for {} of {} bytes: encode_to_writer returned Ok", enc.len() - 1, enc.len());
        }
    }
    // decoding twice is deterministic and clone is faithful
    if !identical(&t2, &t2.clone()) {
        vfail!("clone-differs", "clone differs");
    }
    let classes = classes_of(v);
    let nontrivial = v.node_count() >= 2 || classes.iter().any(|c| c.contains(':'));
    let mut info = if nontrivial { CaseInfo::nt(fp(&enc)) } else { CaseInfo::trivial() };
    info.classes = classes;
    info = info.class_if(alt_repr, "repr:non-default");
    Verdict::Pass(info)
}

#[derive(Clone, Debug, Serialize, Deserialize)]
pub enum Oversize {
    Atom { bytes: usize, unit: String, wrap: u8 },
    Ref { ids: usize, wrap: u8 },
}

fn wrap(t: OwnedTerm, how: u8) -> OwnedTerm {
    match how % 5 {
        0 => t,
        1 => OwnedTerm::Tuple(vec![OwnedTerm::Integer(1), t]),
        2 => OwnedTerm::List(vec![t]),
        3 => {
            let mut m = std::collections::BTreeMap::new();
            m.insert(OwnedTerm::Integer(1), t);
            OwnedTerm::Map(m)
        }
        _ => OwnedTerm::ImproperList { elements: vec![OwnedTerm::Integer(0)], tail: Box::new(t) },
    }
}

pub fn oversize(case: &Oversize) -> Verdict {
    match case {
        Oversize::Atom { bytes, unit, wrap: w } => {
            let mut s = String::new();
            while s.len() + unit.len() <= *bytes {
                s.push_str(unit);
            }
            while s.len() < *bytes {
                s.push('x');
            }
            let t = wrap(OwnedTerm::Atom(Atom::new(&s)), *w);
            match erltf::encode(&t) {
                Err(EncodeError::AtomTooLarge { size }) if s.len() > 65535 && size == s.len() => {
                    Verdict::Pass(CaseInfo::nt(fp(&(s.len(), w))).class("oversize:atom-rejected"))
                }
                Ok(b) if s.len() <= 65535 => match refdec(&b) {
                    Ok(v) if v.same(&denote(&t)) => Verdict::Pass(CaseInfo::nt(fp(&(s.len(), w))).class("atom:at-limit")),
                    other => vfail!("independent-reader-sees-different-value", "atom of {} bytes: {:?}", s.len(), other.map(|v| v.render())),
                },
                other => vfail!(
                    "oversize-atom-not-rejected-properly",
                    "atom of {} bytes: got {:?}",
                    s.len(),
                    other.map(|b| b.len())
                ),
            }
        }
        Oversize::Ref { ids, wrap: w } => {
            let r = ExternalReference::new(Atom::new("a@b"), 7, (0..*ids as u32).collect());
            let t = wrap(OwnedTerm::Reference(r), *w);
            match erltf::encode(&t) {
                Err(EncodeError::ReferenceTooLarge { size }) if *ids > 65535 && size == *ids => {
                    Verdict::Pass(CaseInfo::nt(fp(&(ids, w, 1))).class("oversize:ref-rejected"))
                }
                Ok(b) if *ids <= 65535 => match refdec(&b) {
                    Ok(v) if v.same(&denote(&t)) => Verdict::Pass(CaseInfo::nt(fp(&(ids, w, 1))).class("ref:at-limit")),
                    other => vfail!("independent-reader-sees-different-value", "ref of {} ids: {:?}", ids, other.map(|v| v.render())),
                },
                other => vfail!("oversize-ref-not-rejected-properly", "ref of {} ids: got {:?}", ids, other.map(|b| b.len())),
            }
        }
    }
}

pub fn case_strategy(cfg: GenCfg) -> impl Strategy<Value = Case> {
    (arb_value(cfg), arb_choices(24)).prop_map(|(value, repr)| Case { value, repr })
}

fn oversize_strategy() -> impl Strategy<Value = Oversize> {
    prop_oneof![
        (prop::sample::select(vec![65534usize, 65535, 65536, 65537, 70000, 131072]), prop::sample::select(vec!["a", "é", "🎉"]), any::<u8>())
            .prop_map(|(bytes, unit, wrap)| Oversize::Atom { bytes, unit: unit.to_string(), wrap }),
        (prop::sample::select(vec![65534usize, 65535, 65536, 65537, 100000]), any::<u8>()).prop_map(|(ids, wrap)| Oversize::Ref { ids, wrap }),
    ]
}

/// every well-known atom as a bare term, inside containers and as an identifier's node name
fn well_known_atoms() -> Vec<Case> {
    let mut out = vec![];
    for a in crate::gen::COMMON_ATOMS {
        out.push(Case { value: Value::atom(a), repr: vec![] });
        out.push(Case { value: Value::Tuple(vec![Value::atom(a), Value::list(vec![Value::atom(a), Value::atom("ok")]), Value::Map(vec![(Value::atom(a), Value::atom(a))])]), repr: vec![] });
        out.push(Case { value: Value::Tuple(vec![Value::Pid { node: a.to_string(), id: 1, serial: 2, creation: 3 }, Value::ExportFun { module: a.to_string(), function: a.to_string(), arity: 1 }]), repr: vec![] });
    }
    out
}

pub fn run(run: &mut Run) {
    run.rule = "proptest over the boundary-biased term space (refmodel::Value lifted to every library representation); \
        non-trivial = value has >= 2 nodes or a scalar in a boundary class; distinct by hash of the encoded bytes"
        .into();
    run.assumptions = vec![
        "reference ETF reader/writer (harness/refmodel) is a faithful reading of erl_ext_dist".into(),
        "containers beyond 2^32-1 elements cannot be materialised; their size errors are not exercised".into(),
    ];
    let n = run.tier.pick(30_000, 1_500_000);
    run.prop("roundtrip", || case_strategy(GenCfg::std()), n, roundtrip);
    let n2 = run.tier.pick(10_000, 500_000);
    run.prop("roundtrip-deep", || case_strategy(GenCfg { depth: 8, size: 160, heavy: false, ..GenCfg::std() }), n2, roundtrip);
    run.prop("oversize", oversize_strategy, run.tier.pick(60, 600), oversize);
    run.enumerate("well-known-atoms", well_known_atoms().into_iter(), roundtrip);
    // decoding what the library encoded does not depend on what the same thread decoded (and rejected) before
    run.prop("decode-after-rejections", crate::props::c03::after_strategy, run.tier.pick(1_500, 60_000), crate::props::c03::after_oracle);
    if run.tier == crate::engine::Tier::Thorough {
        // coverage-guided byte fuzzing of the same oracle (libFuzzer, structure-aware through fuzzde); see fuzzbridge.rs
        crate::fuzzbridge::campaign(run, "c01", 3_000_000, 400);
    }
}

pub fn replays() -> Vec<ReplayEntry> {
    vec![replay_entry("fuzz:c01", crate::fuzzbridge::eval_input), 
        replay_entry("roundtrip", roundtrip),
        replay_entry("roundtrip-deep", roundtrip),
        replay_entry("oversize", oversize),
        replay_entry("well-known-atoms", roundtrip),
        replay_entry("decode-after-rejections", crate::props::c03::after_oracle),
    ]
}

//! C19 — inbound routing is exact and the connection's receiver outlives bad input.

use crate::engine::{fp, replay_entry, CaseInfo, ReplayEntry, Run, Verdict};
use crate::gen::{arb_value, GenCfg};
use crate::terms::denote;
use crate::netbed::{advance, connect_node, library_panics_since, panic_mark, run_case, started_node, BedErr};
use crate::nodebed::{new_log, pass_through_frame, pid_value, reg_send_frame, remote_pid, send_frame, wait_until, Event, Log, Recorder};
use edp_node::Node;
use erltf::{Atom, ExternalPid, OwnedTerm};
use proptest::prelude::*;
use refmodel::proto::frame4;
use refmodel::Value;
use serde::{Deserialize, Serialize};
use std::sync::Arc;
use std::time::Duration;

const N_LIVE: usize = 3;
const PEER: &str = "peer@127.0.0.1";

#[derive(Clone, Debug, Serialize, Deserialize, PartialEq)]
pub enum Target {
    Live(u8),
    Dead,
    Never,
}

#[derive(Clone, Debug, Serialize, Deserialize, PartialEq)]
pub enum Item {
    SendPid { to: Target, payload: Value },
    /// registered name index (0..N_LIVE) or an unknown name
    RegSend { name: Option<u8>, payload: Value },
    Exit { to: Target, from: u8, reason: Value },
    MonitorExit { to: Target, from: u8, reference: u8, reason: Value },
    /// control kinds the node ignores: LINK, UNLINK_ID, GROUP_LEADER, or an unassigned tag
    Ignored(u8),
    Tick,
    BadEtf(Vec<u8>),
    WrongFirstByte(u8),
    NotControlTuple,
    /// a long run of undecodable frames (17..=96, three kinds in rotation, a tick after every fourth): bad frames never add up
    BadRun(u8),
    /// silence for this many virtual seconds, the peer ticking every 15 s
    Quiet(u8),
    LocalSend { to: u8, payload: Value },
    /// more messages than a mailbox holds, sent to one process while it is busy
    Burst { to: u8, n: u16 },
    /// the node issues a remote call; the peer reads the request and answers it in the middle of other inbound traffic:
    /// bit 0 an undecodable frame first, bit 1 a tick first, bit 2 a reply to a pid that never had a call first,
    /// bits 3-4 == 3: no answer at all (the call must time out and nothing else may be disturbed)
    Call(u8),
    /// the local side takes registered name `name` away from its holder and, if `to` is given, registers it for that process
    /// (a worker restarted under the same name): messages the peer sends to the name afterwards go to the new holder or nowhere
    Rebind { name: u8, to: Option<u8> },
    // --- after any of these the connection must be gone ---
    OverLongLength(u32),
    CloseMidFrame(u8),
    Close,
}

#[derive(Clone, Debug, Serialize, Deserialize)]
pub struct Case {
    pub items: Vec<Item>,
    /// where the k-th marker frame (and the item's own frame) is cut into two TCP segments (0 = written whole)
    #[serde(default)]
    pub cuts: Vec<u8>,
    /// the peer sends its first message in one piece with the handshake acknowledgement
    #[serde(default)]
    pub eager: bool,
}

struct Outcome {
    logs: Vec<Vec<Event>>,
    dead_log: Vec<Event>,
    expected: Vec<Vec<Event>>,
    problems: Vec<(String, String)>,
    had_bad: bool,
    had_quiet: bool,
    fatal: bool,
}

fn marker(k: usize) -> Value {
    Value::Tuple(vec![Value::atom("marker"), Value::int(k as i128)])
}

async fn setup(node: &Arc<Node>, gate: &Arc<tokio::sync::Notify>) -> Result<(Vec<(ExternalPid, Log)>, (ExternalPid, Log), (ExternalPid, Log)), String> {
    let mut live = vec![];
    for i in 0..N_LIVE {
        let log = new_log();
        let pid = node.spawn(Recorder { log: log.clone(), gate: Some(gate.clone()) }).await.map_err(|e| e.to_string())?;
        node.register(Atom::new(format!("proc{i}")), pid.clone()).await.map_err(|e| e.to_string())?;
        live.push((pid, log));
    }
    // the process used to synchronise with the receiver task
    let slog = new_log();
    let spid = node.spawn(Recorder { log: slog.clone(), gate: None }).await.map_err(|e| e.to_string())?;
    // a process that has died
    let dlog = new_log();
    let dpid = node.spawn(Recorder { log: dlog.clone(), gate: None }).await.map_err(|e| e.to_string())?;
    node.send(&dpid, OwnedTerm::atom("poison")).await.map_err(|e| e.to_string())?;
    let reg = node.registry();
    let t0 = std::time::Instant::now();
    let mut rounds = 0usize;
    while reg.get(&dpid).await.is_some() {
        crate::netbed::drain().await;
        rounds += 1;
        if t0.elapsed() > Duration::from_secs(5) && rounds >= crate::nodebed::MIN_WAIT_ROUNDS {
            return Err("the poisoned process did not terminate".into());
        }
        std::thread::sleep(Duration::from_micros(100));
    }
    Ok((live, (spid, slog), (dpid, dlog)))
}

fn run_net(c: &Case) -> Result<Result<Outcome, String>, BedErr> {
    let c = c.clone();
    run_case(Duration::from_secs(40), move |bed| async move {
        // the processes exist before the peer appears, so that a peer which starts talking at once finds its recipients
        let node = started_node().await?;
        let gate = Arc::new(tokio::sync::Notify::new());
        let (live, (spid, slog), (dpid, dlog)) = setup(&node, &gate).await?;
        let eager = marker(777_777);
        let trailer = if c.eager { send_frame(&pid_value(&spid), &eager) } else { vec![] };
        let mut p = connect_node(&bed, &node, u64::MAX, &trailer).await?;
        let never = ExternalPid::new(Atom::new("rust@127.0.0.1"), 999_999, 7, node.creation());
        let mut expected: Vec<Vec<Event>> = vec![vec![]; N_LIVE];
        // which process holds the name proc<i> right now
        let mut holder: Vec<Option<usize>> = (0..N_LIVE).map(Some).collect();
        let mut problems: Vec<(String, String)> = vec![];
        if c.eager && !wait_until(Duration::from_secs(5), || slog.lock().unwrap().iter().any(|e| *e == Event::Regular(eager.canon()))).await {
            problems.push(("receiver-stopped-or-message-lost".into(), "the message the peer sent in one piece with its handshake acknowledgement was never delivered".into()));
        }
        let mut markers = 0usize;
        let (mut had_bad, mut had_quiet, mut fatal) = (false, false, false);
        let target_pid = |t: &Target| -> Value {
            match t {
                Target::Live(i) => pid_value(&live[*i as usize % N_LIVE].0),
                Target::Dead => pid_value(&dpid),
                Target::Never => pid_value(&never),
            }
        };
        let connected = |node: &Arc<Node>| node.connections().contains_key(PEER);
        for (idx, it) in c.items.iter().enumerate() {
            let mut bytes: Vec<u8> = vec![];
            let mut is_fatal = false;
            match it {
                Item::SendPid { to, payload } => {
                    bytes = send_frame(&target_pid(to), payload);
                    if let Target::Live(i) = to {
                        expected[*i as usize % N_LIVE].push(Event::Regular(payload.clone()));
                    }
                }
                Item::RegSend { name, payload } => {
                    let n = match name {
                        Some(i) => format!("proc{}", *i as usize % N_LIVE),
                        None => "nobody_home".to_string(),
                    };
                    bytes = reg_send_frame(&remote_pid(1), &n, payload);
                    if let Some(h) = name.and_then(|i| holder[i as usize % N_LIVE]) {
                        expected[h].push(Event::Regular(payload.clone()));
                    }
                }
                Item::Exit { to, from, reason } => {
                    let f = remote_pid(*from as u32);
                    bytes = pass_through_frame(&Value::Tuple(vec![Value::int(3), f.clone(), target_pid(to), reason.clone()]), None);
                    if let Target::Live(i) = to {
                        expected[*i as usize % N_LIVE].push(Event::Exit { from: f, reason: reason.clone() });
                    }
                }
                Item::MonitorExit { to, from, reference, reason } => {
                    let f = remote_pid(*from as u32);
                    let r = Value::Ref { node: PEER.into(), creation: 3, ids: vec![*reference as u32, 2, 3] };
                    bytes = pass_through_frame(&Value::Tuple(vec![Value::int(21), f.clone(), target_pid(to), r.clone(), reason.clone()]), None);
                    if let Target::Live(i) = to {
                        expected[*i as usize % N_LIVE].push(Event::MonitorExit { monitored: f, reference: r, reason: reason.clone() });
                    }
                }
                Item::Ignored(k) => {
                    let me = pid_value(&live[0].0);
                    let ctl = match k % 5 {
                        0 => Value::Tuple(vec![Value::int(1), remote_pid(1), me]),
                        1 => Value::Tuple(vec![Value::int(35), Value::int(77), remote_pid(1), me]),
                        2 => Value::Tuple(vec![Value::int(7), remote_pid(1), me]),
                        3 => Value::Tuple(vec![Value::int(200), me, Value::atom("x")]),
                        _ => Value::Tuple(vec![Value::int(5)]),
                    };
                    bytes = pass_through_frame(&ctl, None);
                }
                Item::Tick => bytes = vec![0, 0, 0, 0],
                Item::BadEtf(junk) => {
                    had_bad = true;
                    let mut b = vec![112u8, 131];
                    b.extend_from_slice(junk);
                    b.push(255); // no term starts with 255: the control term can never be complete
                    bytes = frame4(&b);
                }
                Item::WrongFirstByte(b0) => {
                    had_bad = true;
                    let mut f = send_frame(&pid_value(&live[0].0), &Value::atom("must_not_arrive"));
                    f[4] = if *b0 == 112 { 113 } else { *b0 };
                    bytes = f;
                }
                Item::NotControlTuple => {
                    had_bad = true;
                    bytes = pass_through_frame(&Value::atom("not_a_tuple"), Some(&Value::int(1)));
                }
                Item::BadRun(n) => {
                    had_bad = true;
                    let n = 17 + (*n as usize % 80);
                    for k in 0..n {
                        let body = match k % 3 {
                            0 => vec![112u8, 131, 104, 2, 255],
                            1 => {
                                let mut f = send_frame(&pid_value(&live[0].0), &Value::atom("must_not_arrive"));
                                f[4] = 113;
                                f[4..].to_vec()
                            }
                            _ => pass_through_frame(&Value::atom("not_a_tuple"), Some(&Value::int(1)))[4..].to_vec(),
                        };
                        bytes.extend_from_slice(&frame4(&body));
                        if k % 4 == 3 {
                            bytes.extend_from_slice(&[0, 0, 0, 0]);
                        }
                    }
                }
                Item::Quiet(secs) => {
                    had_quiet = true;
                    let total = 5 + (*secs as u64 % 116);
                    let mut t = 0;
                    p.settle().await;
                    while t < total {
                        let step = 15.min(total - t);
                        advance(Duration::from_secs(step)).await;
                        t += step;
                        if step == 15 {
                            let _ = p.write(&[0, 0, 0, 0]).await;
                            p.settle().await;
                        }
                    }
                }
                Item::Rebind { name, to } => {
                    let ni = *name as usize % N_LIVE;
                    let atom = Atom::new(format!("proc{ni}"));
                    if holder[ni].take().is_some() {
                        if let Err(e) = node.unregister(&atom).await {
                            problems.push(("local-unregister-failed".into(), format!("item {idx}: {e}")));
                        }
                    }
                    if let Some(t) = to {
                        let t = *t as usize % N_LIVE;
                        match node.register(atom, live[t].0.clone()).await {
                            Ok(()) => holder[ni] = Some(t),
                            Err(e) => problems.push(("local-register-failed".into(), format!("item {idx}: {e}"))),
                        }
                    }
                }
                Item::LocalSend { to, payload } => {
                    let i = *to as usize % N_LIVE;
                    if let Some(t) = crate::terms::lift0(payload) {
                        match node.send(&live[i].0, t).await {
                            Ok(()) => expected[i].push(Event::Regular(payload.clone())),
                            Err(e) => problems.push(("local-send-failed".into(), format!("item {idx}: {e}"))),
                        }
                    }
                }
                Item::Burst { to, n } => {
                    let i = *to as usize % N_LIVE;
                    // odd: exactly as many messages as the mailbox holds, followed by two notices that find it full;
                    // even: more messages than it holds
                    let with_notices = *n % 2 == 1;
                    let n = if with_notices { 1000 } else { 1001 + (*n as usize % 600) };
                    let target = pid_value(&live[i].0);
                    let mut all = send_frame(&target, &Value::atom("hold"));
                    expected[i].push(Event::Regular(Value::atom("hold")));
                    for k in 0..n {
                        let v = Value::Tuple(vec![Value::atom("burst"), Value::int(k as i128)]);
                        all.extend_from_slice(&send_frame(&target, &v));
                        expected[i].push(Event::Regular(v));
                    }
                    // ... and, while the mailbox is still full, an exit signal and a monitor notice for the same process:
                    // they have to wait for room like everything else
                    if with_notices {
                        let f = remote_pid(9);
                        let r = Value::Ref { node: PEER.into(), creation: 3, ids: vec![99, 2, 3] };
                        all.extend_from_slice(&pass_through_frame(&Value::Tuple(vec![Value::int(3), f.clone(), target.clone(), Value::atom("burst_exit")]), None));
                        expected[i].push(Event::Exit { from: f.clone(), reason: Value::atom("burst_exit") });
                        all.extend_from_slice(&pass_through_frame(&Value::Tuple(vec![Value::int(21), f.clone(), target.clone(), r.clone(), Value::atom("burst_down")]), None));
                        expected[i].push(Event::MonitorExit { monitored: f, reference: r, reason: Value::atom("burst_down") });
                    }
                    if !p.write(&all).await {
                        problems.push(("peer-write-failed".into(), format!("item {idx}: burst")));
                        break;
                    }
                    // the receiver fills the mailbox and then has to wait for the busy process
                    for _ in 0..30 {
                        crate::netbed::drain().await;
                        std::thread::sleep(Duration::from_micros(200));
                    }
                    gate.notify_one();
                }
                Item::Call(kind) => {
                    let silent = (*kind >> 3) & 3 == 3;
                    let want = crate::props::c17::echo(0, idx);
                    let call = node.rpc_call_raw_with_timeout(PEER, "m", "f", vec![crate::props::c17::arg(0, idx)], Duration::from_secs(4));
                    let mut peer_problem: Option<(String, String)> = None;
                    let peer_side = async {
                        let Some(f) = p.read_frame(4).await else {
                            peer_problem = Some(("request-not-sent".into(), format!("item {idx}: the call's request never reached the peer")));
                            return;
                        };
                        let reply_to = match crate::props::c17::parse_request(&f) {
                            Ok((pid, 0, i)) if i == idx => pid,
                            other => {
                                peer_problem = Some(("request-malformed".into(), format!("item {idx}: {:?}", other.map(|x| x.0.render()))));
                                return;
                            }
                        };
                        let mut out = vec![];
                        if kind & 1 != 0 {
                            out.extend_from_slice(&frame4(&[112u8, 131, 104, 2, 255]));
                        }
                        if kind & 2 != 0 {
                            out.extend_from_slice(&[0, 0, 0, 0]);
                        }
                        if kind & 4 != 0 {
                            // a pid that never had a call: another process number, or (bit 5) the call's own number and serial
                            // under another creation (an answer meant for an earlier incarnation of this node)
                            let bogus = match (&reply_to, kind & 32 != 0) {
                                (Value::Pid { node, id, serial, creation }, true) => Value::Pid { node: node.clone(), id: *id, serial: *serial, creation: creation.wrapping_add(if kind & 64 != 0 { 1 } else { u32::MAX }) },
                                _ => Value::Pid { node: "rust@127.0.0.1".into(), id: 888_000 + idx as u32, serial: 0, creation: 0x0102_0304 },
                            };
                            out.extend_from_slice(&send_frame(&bogus, &Value::atom("stray")));
                        }
                        if !silent {
                            out.extend_from_slice(&send_frame(&reply_to, &want));
                        }
                        if !out.is_empty() {
                            let _ = p.write(&out).await;
                        }
                        p.settle().await;
                        if silent {
                            for _ in 0..6 {
                                advance(Duration::from_secs(1)).await;
                            }
                        }
                    };
                    let (r, ()) = tokio::join!(call, peer_side);
                    if let Some(pp) = peer_problem {
                        problems.push(pp);
                    }
                    had_bad |= kind & 1 != 0;
                    match (r, silent) {
                        (Ok(t), false) if denote(&t).same(&want) => {}
                        (Ok(t), _) => problems.push(("reply-not-delivered-to-its-call".into(), format!("item {idx} {:?}: the call returned {}", it, denote(&t).render()))),
                        (Err(e), false) => problems.push(("reply-not-delivered-to-its-call".into(), format!("item {idx} {:?}: the peer answered the outstanding call, which returned {e}", it))),
                        (Err(_), true) => {}
                    }
                }
                Item::OverLongLength(len) => {
                    is_fatal = true;
                    let l = (64 * 1024 * 1024 + 1 + (*len % 1_000_000)) as u32;
                    bytes = l.to_be_bytes().to_vec();
                    bytes.extend_from_slice(&[1, 2, 3]);
                }
                Item::CloseMidFrame(k) => {
                    is_fatal = true;
                    let f = send_frame(&pid_value(&live[0].0), &Value::atom("half"));
                    let n = 1 + (*k as usize % (f.len() - 1));
                    bytes = f[..n].to_vec();
                }
                Item::Close => is_fatal = true,
            }
            if !bytes.is_empty() {
                if !p.write(&bytes).await {
                    problems.push(("peer-write-failed".into(), format!("item {idx} {:?}: the node closed the connection", it)));
                    break;
                }
            }
            if is_fatal {
                fatal = true;
                p.settle().await;
                if !matches!(it, Item::OverLongLength(_)) {
                    p.close_gracefully();
                    let gone = wait_until(Duration::from_secs(5), || !connected(&node)).await;
                    if !gone {
                        problems.push(("connection-not-deregistered".into(), format!("item {idx} {:?}: the peer closed the stream but the connection is still registered", it)));
                    }
                } else {
                    let gone = wait_until(Duration::from_secs(5), || !connected(&node)).await;
                    if !gone {
                        problems.push(("connection-not-deregistered".into(), format!("item {idx}: an over-long length prefix did not end the connection")));
                    }
                    drop(p);
                }
                // local delivery still works without the connection
                let m = marker(9999);
                if let Some(t) = crate::terms::lift0(&m) {
                    let _ = node.send(&spid, t).await;
                }
                let _ = wait_until(Duration::from_secs(5), || slog.lock().unwrap().iter().any(|e| *e == Event::Regular(m.canon()))).await;
                let logs = live.iter().map(|(_, l)| l.lock().unwrap().clone()).collect();
                let dead_log = dlog.lock().unwrap().clone();
                return Ok(Outcome { logs, dead_log, expected, problems, had_bad, had_quiet, fatal });
            }
            // synchronise: a marker through the same connection must come out at the other end
            markers += 1;
            let m = marker(markers);
            let mframe = send_frame(&pid_value(&spid), &m);
            let cut = if c.cuts.is_empty() { 0 } else { (c.cuts[markers % c.cuts.len()] as usize * mframe.len()) >> 8 };
            if !p.write_segmented(&mframe, &[cut]).await {
                problems.push(("peer-write-failed".into(), format!("after item {idx} {:?}: cannot write, the node closed the connection", it)));
                break;
            }
            let ok = wait_until(Duration::from_secs(5), || slog.lock().unwrap().iter().any(|e| *e == Event::Regular(m.canon()))).await;
            if !ok {
                problems.push((
                    "receiver-stopped-or-message-lost".into(),
                    format!("after item {idx} {:?}: a valid message sent next was never delivered (connection registered: {})", it, connected(&node)),
                ));
                break;
            }
            if !connected(&node) {
                problems.push(("connection-deregistered-without-cause".into(), format!("after item {idx} {:?}", it)));
                break;
            }
        }
        let logs = live.iter().map(|(_, l)| l.lock().unwrap().clone()).collect();
        let dead_log = dlog.lock().unwrap().clone();
        drop(p);
        Ok(Outcome { logs, dead_log, expected, problems, had_bad, had_quiet, fatal })
    })
}

pub fn oracle(c: &Case) -> Verdict {
    let mark = panic_mark();
    let out = match run_net(c) {
        Ok(Ok(o)) => o,
        Ok(Err(e)) => return Verdict::Fail { signature: "harness:netbed".into(), detail: e },
        Err(BedErr::RealTimeCap) => return Verdict::Fail { signature: "node-hangs".into(), detail: "the case did not finish (deadlock in the node?)".into() },
        Err(BedErr::Setup(e)) => return Verdict::Fail { signature: "harness:netbed".into(), detail: e },
    };
    let panics = library_panics_since(mark);
    if !panics.is_empty() {
        return Verdict::Fail { signature: "panic".into(), detail: format!("{:?}", panics) };
    }
    if let Some((sig, d)) = out.problems.first() {
        return Verdict::Fail { signature: sig.clone(), detail: d.clone() };
    }
    for i in 0..N_LIVE {
        let want = crate::nodebed::canon_log(&out.expected[i]);
        if out.logs[i] != want {
            let first = out.logs[i].iter().zip(want.iter()).position(|(a, b)| a != b).unwrap_or(out.logs[i].len().min(want.len()));
            return Verdict::Fail {
                signature: "recipient-log-differs".into(),
                detail: format!(
                    "process proc{i}: got {} events, expected {}; first difference at #{first}: got {:?}, expected {:?}",
                    out.logs[i].len(),
                    out.expected[i].len(),
                    out.logs[i].get(first),
                    want.get(first)
                ),
            };
        }
    }
    if out.dead_log.len() != 1 {
        return Verdict::Fail { signature: "dead-process-received-message".into(), detail: format!("{:?}", out.dead_log) };
    }
    let nontrivial = out.had_bad || out.had_quiet || out.fatal;
    let info = if nontrivial { CaseInfo::nt(fp(&format!("{:?}", c))) } else { CaseInfo::trivial() };
    let burst = c.items.iter().any(|i| matches!(i, Item::Burst { .. }));
    Verdict::Pass(info.class_if(burst, "burst-beyond-mailbox-capacity").class_if(out.had_bad, "undecodable-frame").class_if(out.had_quiet, "quiet-period-with-ticks").class_if(out.fatal, "stream-closed-or-framing-broken")
            .class_if(c.items.iter().any(|i| matches!(i, Item::Call(k) if (*k >> 3) & 3 != 3)), "outstanding-call-answered")
            .class_if(
                matches!((c.items.iter().position(|i| matches!(i, Item::Rebind { .. })), c.items.iter().rposition(|i| matches!(i, Item::RegSend { name: Some(_), .. }))), (Some(r), Some(s)) if r < s),
                "name-rebound-then-addressed",
            )
            .class_if(c.items.iter().any(|i| matches!(i, Item::BadRun(_))), "run-of-bad-frames"))
}

fn strategy() -> impl Strategy<Value = Case> {
    let term = || arb_value(GenCfg { depth: 2, size: 6, heavy: false, ..GenCfg::std() }).prop_filter("not a command atom", |v| *v != Value::atom("poison") && *v != Value::atom("hold"));
    let target = || prop_oneof![5 => (0u8..3).prop_map(Target::Live), 1 => Just(Target::Dead), 1 => Just(Target::Never)];
    let item = prop_oneof![
        5 => (target(), term()).prop_map(|(to, payload)| Item::SendPid { to, payload }),
        4 => (prop::option::weighted(0.8, 0u8..3), term()).prop_map(|(name, payload)| Item::RegSend { name, payload }),
        2 => (target(), any::<u8>(), term()).prop_map(|(to, from, reason)| Item::Exit { to, from, reason }),
        2 => (target(), any::<u8>(), any::<u8>(), term()).prop_map(|(to, from, reference, reason)| Item::MonitorExit { to, from, reference, reason }),
        2 => any::<u8>().prop_map(Item::Ignored),
        2 => Just(Item::Tick),
        2 => prop::collection::vec(any::<u8>(), 0..12).prop_map(Item::BadEtf),
        2 => any::<u8>().prop_map(Item::WrongFirstByte),
        1 => Just(Item::NotControlTuple),
        1 => any::<u8>().prop_map(Item::BadRun),
        2 => any::<u8>().prop_map(Item::Quiet),
        1 => (0u8..3, term()).prop_map(|(to, payload)| Item::LocalSend { to, payload }),
        1 => (0u8..3, any::<u16>()).prop_map(|(to, n)| Item::Burst { to, n }),
        2 => any::<u8>().prop_map(Item::Call),
        2 => (0u8..3, prop::option::weighted(0.75, 0u8..3)).prop_map(|(name, to)| Item::Rebind { name, to }),
    ];
    let fatal = prop_oneof![any::<u32>().prop_map(Item::OverLongLength), any::<u8>().prop_map(Item::CloseMidFrame), Just(Item::Close)];
    (prop::collection::vec(item, 1..14), prop::option::weighted(0.4, fatal), prop_oneof![2 => Just(vec![]), 3 => prop::collection::vec(prop_oneof![Just(0u8), any::<u8>()], 1..6)], prop::bool::weighted(0.3)).prop_map(|(mut items, f, cuts, eager)| {
        if let Some(f) = f {
            items.push(f);
        }
        Case { items, cuts, eager }
    })
}

pub fn run(run: &mut Run) {
    run.rule = "a started Node with three registered recorder processes, one dead process and a never-existing pid, connected to a scripted peer that sends generated sequences of inbound frames: SEND to live/dead/unknown \
        pids, REG_SEND to registered/unknown names, EXIT, MONITOR_P_EXIT, ignored control kinds, ticks, three kinds of undecodable frame (bad ETF behind 112, wrong first byte, non-tuple control term) singly and in runs of 17..96, remote calls issued by the node and answered by the peer behind a bad frame, a tick or a stray reply (or not at all), quiet periods of \
        5..120 virtual seconds with the peer ticking every 15 s, local sends in between, optionally ended by an over-long length prefix, a close inside a frame or a plain close. After every item a marker message \
        through the same connection must arrive and the peer must still be in connections(); after a fatal item the peer must disappear from connections(). Recorder logs must equal the model exactly. \
        Non-trivial = script has a bad frame, a quiet period or a fatal ending"
        .into();
    run.assumptions = vec![
        "OTP's default tick interval net_ticktime/4 = 15 s; virtual time moves only when the script advances it".into(),
        "process death is observed through the registry before the script starts".into(),
    ];
    run.prop("inbound-scripts", strategy, run.tier.pick(2500, 100_000), oracle);
}

pub fn replays() -> Vec<ReplayEntry> {
    vec![replay_entry("inbound-scripts", oracle)]
}

//! C16 — allocated process identifiers and references are unique under any interleaving.

use crate::engine::{fp, replay_entry, CaseInfo, ReplayEntry, Run, Tier, Verdict};
use crate::sched::{explore_all, Baton, SchedErr};
use crate::vfail;
use edp_client::PidAllocator;
use edp_node::Node;
use erltf::Atom;
use proptest::prelude::*;
use serde::{Deserialize, Serialize};
use std::collections::{HashMap, HashSet};
use std::sync::atomic::Ordering;
use std::sync::{Arc, Barrier};

const MAX_ID: u32 = 1_048_576;

#[derive(Clone, Debug, Serialize, Deserialize, PartialEq)]
pub struct Scenario {
    pub threads: usize,
    pub allocs: usize,
    pub start_id: u32,
    pub start_serial: u64,
    pub creation: u32,
    /// false: PidAllocator::allocate, true: Node::make_reference (start_id = counter position)
    pub references: bool,
}

#[derive(Clone, Debug, Serialize, Deserialize)]
pub struct ScheduleCase {
    pub scenario: Scenario,
    pub schedule: Vec<u8>,
    /// scheduler mode (see sched.rs): strict = lock retries only after a thread left the function
    #[serde(default)]
    pub strict: bool,
}

type Pid = (u32, u32, u32);

/// uniqueness + range + creation + "not a pid this epoch had already handed out"
fn check_pids(scn: &Scenario, all: &[Pid]) -> Result<(), (String, String)> {
    let mut seen: HashSet<(u32, u32)> = HashSet::new();
    for &(id, serial, creation) in all {
        if id < 1 || id > MAX_ID {
            return Err(("pid-number-out-of-range".into(), format!("id {id}")));
        }
        if creation != scn.creation {
            return Err(("pid-wrong-creation".into(), format!("creation {creation}, in force {}", scn.creation)));
        }
        if !seen.insert((id, serial)) {
            return Err(("duplicate-pid".into(), format!("<{id}.{serial}> handed out twice; all = {:?}", all)));
        }
        // counter position (start_id, start_serial) is reached by handing out <1..start_id-1 . start_serial>
        if id < scn.start_id && serial as u64 == scn.start_serial % (1u64 << 32) {
            return Err((
                "pid-of-current-epoch-reissued".into(),
                format!("<{id}.{serial}> was already issued before the counters reached ({}, {}); all = {:?}", scn.start_id, scn.start_serial, all),
            ));
        }
    }
    Ok(())
}

/// one execution under the baton scheduler
fn run_once(scn: &Scenario, strict: bool, choose: &mut dyn FnMut(usize) -> usize) -> Result<(Vec<Pid>, Vec<Vec<u32>>, u64), SchedErr> {
    let baton = Baton::new(scn.threads, strict);
    let alloc = Arc::new(PidAllocator::new(Atom::new("n@h"), scn.creation));
    alloc.next_id_test_only().store(scn.start_id, Ordering::SeqCst);
    alloc.next_serial_test_only().store(scn.start_serial, Ordering::SeqCst);
    let node = Arc::new(Node::new("n@h", "cookie"));
    if scn.references {
        node.verif_set_reference_counter(scn.start_id);
    }
    let mut handles = vec![];
    for i in 0..scn.threads {
        let (b, a, n, s) = (baton.clone(), alloc.clone(), node.clone(), scn.clone());
        handles.push(std::thread::spawn(move || {
            b.install(i);
            edp_client::verif::sync_point("thread::start");
            let mut pids = vec![];
            let mut refs = vec![];
            for _ in 0..s.allocs {
                if s.references {
                    let r = n.make_reference();
                    refs.push((r.creation, r.ids.clone()));
                } else {
                    let p = a.allocate().expect("allocate");
                    pids.push((p.id, p.serial, p.creation));
                }
            }
            edp_client::verif::set_sync_point(None);
            b.finish(i);
            (pids, refs)
        }));
    }
    let steps = baton.drive(choose);
    let mut pids = vec![];
    let mut refs = vec![];
    for h in handles {
        if let Ok((p, r)) = h.join() {
            pids.extend(p);
            for (c, ids) in r {
                let mut v = vec![c];
                v.extend(ids);
                refs.push(v);
            }
        }
    }
    steps.map(|s| (pids, refs, s))
}

fn verdict_for(scn: &Scenario, pids: &[Pid], refs: &[Vec<u32>]) -> Result<(), (String, String)> {
    if scn.references {
        let want = scn.threads * scn.allocs;
        if refs.len() != want {
            return Err(("missing-results".into(), format!("{} of {} references", refs.len(), want)));
        }
        let mut seen = HashSet::new();
        for r in refs {
            if r[0] != 1 {
                return Err(("reference-wrong-creation".into(), format!("creation {}", r[0])));
            }
            if !seen.insert(r.clone()) {
                return Err(("duplicate-reference".into(), format!("{:?} made twice; all = {:?}", r, refs)));
            }
        }
        Ok(())
    } else {
        if pids.len() != scn.threads * scn.allocs {
            return Err(("missing-results".into(), format!("{} of {} pids", pids.len(), scn.threads * scn.allocs)));
        }
        check_pids(scn, pids)
    }
}

pub fn schedule_oracle(case: &ScheduleCase) -> Verdict {
    let mut i = 0usize;
    let mut switched = false;
    let mut last = usize::MAX;
    let mut choose = |n: usize| -> usize {
        let b = case.schedule.get(i).copied().unwrap_or(0) as usize;
        i += 1;
        let c = (b * n) >> 8;
        if last != usize::MAX && c != last && n > 1 {
            switched = true;
        }
        last = c;
        c
    };
    match run_once(&case.scenario, case.strict, &mut choose) {
        Err(SchedErr::Deadlock(at)) => vfail!("deadlock", "all unfinished threads are blocked: {:?}", at),
        Err(SchedErr::Timeout) => vfail!("harness:scheduler-timeout", "scheduler timed out"),
        Ok((pids, refs, steps)) => match verdict_for(&case.scenario, &pids, &refs) {
            Err((s, d)) => Verdict::Fail { signature: s, detail: format!("{d}; scenario {:?}", case.scenario) },
            Ok(()) => {
                let crosses = !case.scenario.references && case.scenario.start_id as usize + case.scenario.threads * case.scenario.allocs > MAX_ID as usize;
                let info = if switched || crosses { CaseInfo::nt(fp(&format!("{:?}", case))) } else { CaseInfo::trivial() };
                Verdict::Pass(info.class_if(crosses, "crosses-wrap").class_if(case.scenario.references, "references").class_if(steps > 12, "long-schedule"))
            }
        },
    }
}

pub fn probe() {
    for (threads, allocs, refs) in [(2usize, 1usize, false), (2, 2, false), (2, 3, false), (3, 1, false), (2, 1, true), (2, 2, true), (3, 1, true)] {
        let scn = Scenario { threads, allocs, start_id: MAX_ID - 1, start_serial: 0, creation: 3, references: refs };
        let t0 = std::time::Instant::now();
        let (n, complete) = explore_all(200_000, |choose| run_once(&scn, true, choose).is_ok());
        println!("{}x{} refs={}: {} schedules complete={} in {:.2}s", threads, allocs, refs, n, complete, t0.elapsed().as_secs_f64());
    }
}

fn scenarios(tier: Tier) -> Vec<(Scenario, u64)> {
    let mut v = vec![];
    let starts: Vec<(u32, u64)> = vec![
        (1, 0),
        (MAX_ID - 2, 0),
        (MAX_ID - 1, 7),
        (MAX_ID, 0),
        (MAX_ID - 1, (1u64 << 32) - 1),
        (MAX_ID, (1u64 << 32) - 2),
        (MAX_ID - 1, (1u64 << 32) + 5),
    ];
    for &(start_id, start_serial) in &starts {
        v.push((Scenario { threads: 2, allocs: 1, start_id, start_serial, creation: 3, references: false }, u64::MAX));
        v.push((Scenario { threads: 2, allocs: 2, start_id, start_serial, creation: 3, references: false }, u64::MAX));
        // 25 320 schedules when exhausted: a depth-first prefix in the quick tier, everything in the thorough tier
        v.push((Scenario { threads: 3, allocs: 1, start_id, start_serial, creation: 9, references: false }, tier.pick(2500, u64::MAX)));
    }
    v.push((Scenario { threads: 2, allocs: 3, start_id: MAX_ID - 2, start_serial: 0, creation: 3, references: false }, tier.pick(2500, u64::MAX)));
    if tier == Tier::Thorough {
        v.push((Scenario { threads: 2, allocs: 3, start_id: MAX_ID, start_serial: (1u64 << 32) - 1, creation: 3, references: false }, u64::MAX));
        v.push((Scenario { threads: 3, allocs: 2, start_id: MAX_ID - 2, start_serial: 0, creation: 3, references: false }, 300_000));
        v.push((Scenario { threads: 4, allocs: 1, start_id: MAX_ID - 1, start_serial: 0, creation: 3, references: false }, 300_000));
    }
    for start in [0u32, u32::MAX - 4, u32::MAX - 1, u32::MAX] {
        v.push((Scenario { threads: 2, allocs: 1, start_id: start, start_serial: 0, creation: 1, references: true }, u64::MAX));
        v.push((Scenario { threads: 2, allocs: 2, start_id: start, start_serial: 0, creation: 1, references: true }, tier.pick(3000, u64::MAX)));
        v.push((Scenario { threads: 3, allocs: 1, start_id: start, start_serial: 0, creation: 1, references: true }, tier.pick(3000, 200_000)));
    }
    v
}

struct ScnResult {
    n: u64,
    complete: bool,
    nontrivial: u64,
    failure: Option<(Vec<u8>, String, String)>,
    wall: f64,
}

fn explore_scenario(scn: &Scenario, cap: u64) -> ScnResult {
    let t0 = std::time::Instant::now();
    let mut failure: Option<(Vec<u8>, String, String)> = None;
    let mut nontrivial = 0u64;
    let (n, complete) = explore_all(cap, |choose| {
        let mut trace: Vec<(usize, usize)> = vec![];
        let mut ch = |k: usize| {
            let c = choose(k);
            trace.push((c, k));
            c
        };
        let res = run_once(scn, true, &mut ch);
        let as_bytes = |t: &Vec<(usize, usize)>| -> Vec<u8> { t.iter().map(|(c, k)| (((*c * 256) + (*k).max(1) - 1) / (*k).max(1)).min(255) as u8).collect() };
        match res {
            Err(SchedErr::Deadlock(at)) => {
                failure = Some((as_bytes(&trace), "deadlock".into(), format!("{:?}", at)));
                false
            }
            Err(SchedErr::Timeout) => {
                failure = Some((as_bytes(&trace), "harness:scheduler-timeout".into(), String::new()));
                false
            }
            Ok((pids, refs, _)) => match verdict_for(scn, &pids, &refs) {
                Err((s, d)) => {
                    failure = Some((as_bytes(&trace), s, d));
                    false
                }
                Ok(()) => {
                    if trace.iter().any(|(c, k)| *k > 1 && *c > 0) {
                        nontrivial += 1;
                    }
                    true
                }
            },
        }
    });
    ScnResult { n, complete, nontrivial, failure, wall: t0.elapsed().as_secs_f64() }
}

// ---- sequential histories across several wraps -------------------------------------------------

#[derive(Clone, Debug, Serialize, Deserialize)]
pub struct History {
    pub start_id: u32,
    pub start_serial: u64,
    pub count: u32,
    /// (allocation index, new creation)
    pub creations: Vec<(u32, u32)>,
}

pub fn history_oracle(h: &History) -> Verdict {
    let alloc = PidAllocator::new(Atom::new("n@h"), 1u32);
    alloc.next_id_test_only().store(h.start_id, Ordering::SeqCst);
    alloc.next_serial_test_only().store(h.start_serial, Ordering::SeqCst);
    let mut creation = 1u32;
    let mut cr = h.creations.clone();
    cr.sort();
    let mut ci = 0;
    // bitset per (creation, serial)
    let mut seen: HashMap<(u32, u32), Vec<u64>> = HashMap::new();
    let mut wraps = 0u32;
    let mut prev_id = 0u32;
    let mut first_serial: Option<u32> = None;
    let mut last_serial = 0u32;
    for k in 0..h.count {
        while ci < cr.len() && cr[ci].0 <= k {
            creation = cr[ci].1;
            alloc.set_creation(creation);
            ci += 1;
        }
        let p = match alloc.allocate() {
            Ok(p) => p,
            Err(e) => vfail!("allocate-error", "{e}"),
        };
        if p.id < 1 || p.id > MAX_ID {
            vfail!("pid-number-out-of-range", "allocation #{k}: id {}", p.id);
        }
        if p.creation != creation {
            vfail!("pid-wrong-creation", "allocation #{k}: creation {} but {} is in force", p.creation, creation);
        }
        let bits = seen.entry((p.creation, p.serial)).or_insert_with(|| vec![0u64; (MAX_ID as usize + 64) / 64]);
        let (w, b) = ((p.id / 64) as usize, p.id % 64);
        if bits[w] & (1 << b) != 0 {
            vfail!("duplicate-pid", "allocation #{k} (after {wraps} wraps) re-issued <{}.{}.{}>", p.id, p.serial, p.creation);
        }
        bits[w] |= 1 << b;
        if p.id < h.start_id && wraps == 0 && p.serial as u64 == h.start_serial % (1u64 << 32) && p.creation == 1 {
            vfail!("pid-of-current-epoch-reissued", "allocation #{k}: <{}.{}> precedes the start position", p.id, p.serial);
        }
        if k > 0 && p.id < prev_id {
            wraps += 1;
            if p.id != 1 {
                vfail!("ids-do-not-restart-at-1", "allocation #{k}: after exhausting the number space the next id is {}", p.id);
            }
        }
        if first_serial.is_none() {
            first_serial = Some(p.serial);
        }
        prev_id = p.id;
        last_serial = p.serial;
    }
    // the serial advanced once per wrap (mod 2^32)
    if let Some(f) = first_serial {
        let adv = last_serial.wrapping_sub(f);
        if adv != wraps && adv != wraps + 1 && adv + 1 != wraps {
            vfail!("serial-did-not-advance-per-wrap", "{wraps} wraps but the serial went from {f} to {last_serial}");
        }
    }
    let info = if wraps >= 1 { CaseInfo::nt(fp(&format!("{:?}", h))) } else { CaseInfo::trivial() };
    Verdict::Pass(info.class_if(wraps >= 2, "history:>=2-wraps").class_if(h.start_serial >= (1u64 << 32) - 3, "history:serial-32bit-wrap"))
}

// ---- plain OS-thread stress (no hooks involved) -------------------------------------------------

#[derive(Clone, Debug, Serialize, Deserialize)]
pub struct Stress {
    pub threads: usize,
    pub per_thread: usize,
    pub back: u32,
    pub start_serial: u64,
    pub round: u32,
}

pub fn stress_oracle(s: &Stress) -> Verdict {
    let alloc = Arc::new(PidAllocator::new(Atom::new("n@h"), 5u32));
    let start_id = MAX_ID - s.back;
    alloc.next_id_test_only().store(start_id, Ordering::SeqCst);
    alloc.next_serial_test_only().store(s.start_serial, Ordering::SeqCst);
    let barrier = Arc::new(Barrier::new(s.threads));
    let mut hs = vec![];
    for _ in 0..s.threads {
        let (a, b, n) = (alloc.clone(), barrier.clone(), s.per_thread);
        hs.push(std::thread::spawn(move || {
            b.wait();
            let mut v = Vec::with_capacity(n);
            for _ in 0..n {
                let p = a.allocate().expect("allocate");
                v.push((p.id, p.serial, p.creation));
            }
            v
        }));
    }
    let mut all = vec![];
    for h in hs {
        all.extend(h.join().expect("join"));
    }
    let scn = Scenario { threads: s.threads, allocs: s.per_thread, start_id, start_serial: s.start_serial, creation: 5, references: false };
    match check_pids(&scn, &all) {
        Err((sig, d)) => Verdict::Fail { signature: sig, detail: format!("{} real threads x {} allocations from id {}: {}", s.threads, s.per_thread, start_id, crate::engine::truncate(&d, 400)) },
        Ok(()) => Verdict::Pass(CaseInfo::nt(fp(&(s.round, s.back, s.threads))).class("os-thread-stress")),
    }
}

fn schedule_strategy() -> impl Strategy<Value = ScheduleCase> {
    (2usize..=4, 1usize..=3, prop::sample::select(vec![1u32, 5, MAX_ID - 3, MAX_ID - 2, MAX_ID - 1, MAX_ID]), prop::sample::select(vec![0u64, 9, (1u64 << 32) - 1, (1u64 << 32) - 2, 1u64 << 32]), any::<bool>(), prop::collection::vec(any::<u8>(), 0..80))
        .prop_map(|(threads, allocs, start_id, start_serial, references, schedule)| ScheduleCase {
            scenario: Scenario {
                threads,
                allocs: if threads == 4 { allocs.min(2) } else { allocs },
                start_id: if references { start_id.wrapping_mul(4093).wrapping_add(u32::MAX - 6) } else { start_id },
                start_serial,
                creation: if references { 1 } else { 4 },
                references,
            },
            schedule,
            strict: false,
        })
}

// ---- references made through the node's operations, under task interleavings -----------------------------------------

#[derive(Clone, Debug, Serialize, Deserialize)]
pub enum RefOp {
    Make,
    /// monitor of a local process (succeeds)
    MonitorLocal,
    /// monitor of a process on a node whose connection is registered but cannot send (fails after the reference was made)
    MonitorRemoteFailing,
    /// monitor of a process on a node that is not connected at all (fails at once)
    MonitorUnconnected,
    UnlinkRemoteFailing,
}

#[derive(Clone, Debug, Serialize, Deserialize)]
pub struct NodeRefCase {
    pub tasks: Vec<Vec<RefOp>>,
    pub schedule: Vec<u8>,
    pub start: u32,
}

pub fn node_ref_oracle(c: &NodeRefCase) -> Verdict {
    use crate::netbed::{clear_schedule, install_schedule, run_case, BedErr};
    let c2 = c.clone();
    let res = run_case(std::time::Duration::from_secs(30), move |_bed| async move {
        let c = c2;
        let node = Arc::new(Node::new("rust@127.0.0.1", "cookie"));
        node.verif_set_reference_counter(c.start);
        // a registered connection that was never connected: every operation on it fails with an invalid-state error
        let cfg = edp_client::ConnectionConfig::new("rust@127.0.0.1", "peer@127.0.0.1", "cookie");
        node.connections().insert("peer@127.0.0.1".to_string(), Arc::new(tokio::sync::Mutex::new(edp_client::Connection::new(cfg))));
        let me = erltf::ExternalPid::new(Atom::new("rust@127.0.0.1"), 5, 0, 1);
        let other = erltf::ExternalPid::new(Atom::new("rust@127.0.0.1"), 6, 0, 1);
        let remote = erltf::ExternalPid::new(Atom::new("peer@127.0.0.1"), 7, 0, 1);
        let nowhere = erltf::ExternalPid::new(Atom::new("nosuch@127.0.0.1"), 8, 0, 1);
        let switched = install_schedule(c.schedule.clone());
        let local = tokio::task::LocalSet::new();
        let refs: Vec<Vec<Vec<u32>>> = local
            .run_until(async {
                let mut hs = vec![];
                for ops in c.tasks.iter() {
                    let (node, ops, me, other, remote, nowhere) = (node.clone(), ops.clone(), me.clone(), other.clone(), remote.clone(), nowhere.clone());
                    hs.push(tokio::task::spawn_local(async move {
                        let mut got: Vec<Vec<u32>> = vec![];
                        for op in ops {
                            match op {
                                RefOp::Make => got.push(node.make_reference().ids.clone()),
                                RefOp::MonitorLocal => {
                                    if let Ok(r) = node.monitor(&me, &other).await {
                                        got.push(r.ids.clone())
                                    }
                                }
                                RefOp::MonitorRemoteFailing => {
                                    if let Ok(r) = node.monitor(&me, &remote).await {
                                        got.push(r.ids.clone())
                                    }
                                }
                                RefOp::MonitorUnconnected => {
                                    if let Ok(r) = node.monitor(&me, &nowhere).await {
                                        got.push(r.ids.clone())
                                    }
                                }
                                RefOp::UnlinkRemoteFailing => {
                                    let _ = node.unlink(&me, &remote).await;
                                }
                            }
                        }
                        got
                    }));
                }
                let mut all = vec![];
                for h in hs {
                    all.push(h.await.unwrap_or_default());
                }
                all
            })
            .await;
        clear_schedule();
        (refs, switched.get())
    });
    let (refs, switched) = match res {
        Ok(x) => x,
        Err(BedErr::RealTimeCap) => vfail!("node-hangs", "reference-making operations did not return"),
        Err(BedErr::Setup(e)) => vfail!("harness:netbed", "{e}"),
    };
    let mut seen: HashMap<Vec<u32>, usize> = HashMap::new();
    for (t, rs) in refs.iter().enumerate() {
        for r in rs {
            if let Some(t0) = seen.insert(r.clone(), t) {
                vfail!("duplicate-reference", "reference words {:?} were handed out twice (tasks {t0} and {t}); counter started at {}; {:?}", r, c.start, c.tasks);
            }
        }
    }
    let n: usize = refs.iter().map(|r| r.len()).sum();
    let failing = c.tasks.iter().flatten().any(|o| matches!(o, RefOp::MonitorRemoteFailing));
    let info = if refs.len() >= 2 && n >= 3 && switched > 0 { CaseInfo::nt(fp(&format!("{:?}", c))) } else { CaseInfo::trivial() };
    Verdict::Pass(info.class("node-level-references").class_if(failing, "failing-remote-monitor-interleaved"))
}

fn node_ref_strategy() -> impl Strategy<Value = NodeRefCase> {
    let op = prop_oneof![4 => Just(RefOp::Make), 2 => Just(RefOp::MonitorLocal), 4 => Just(RefOp::MonitorRemoteFailing), 1 => Just(RefOp::MonitorUnconnected), 1 => Just(RefOp::UnlinkRemoteFailing)];
    (prop::collection::vec(prop::collection::vec(op, 1..6), 2..4), prop::collection::vec(any::<u8>(), 0..24), prop_oneof![Just(0u32), Just(u32::MAX - 4), any::<u32>()])
        .prop_map(|(tasks, schedule, start)| NodeRefCase { tasks, schedule, start })
}

/// A node started against the harness's EPMD: what EPMD assigned is the creation in force for everything the node makes.
#[derive(Clone, Debug, Serialize, Deserialize)]
pub struct EpmdCase {
    pub creation: u32,
    /// EPMD answers with the older ALIVE2_RESP (16-bit creation) instead of ALIVE2_X_RESP
    pub legacy: bool,
}

pub fn epmd_oracle(c: &EpmdCase) -> Verdict {
    use crate::netbed::{run_case, BedErr};
    let c2 = c.clone();
    let res = run_case(std::time::Duration::from_secs(30), move |bed| async move {
        let c = c2;
        *bed.epmd_creation.lock().unwrap() = c.creation;
        *bed.epmd_legacy.lock().unwrap() = c.legacy;
        let mut node = edp_node::Node::new("rust@127.0.0.1", "cookie");
        node.start(0).await.map_err(|e| format!("node start: {e}"))?;
        let want = if c.legacy { c.creation & 0xffff } else { c.creation };
        let first_creation = node.creation();
        // `start` is called once more while EPMD would hand out another creation: whether the call is refused or taken, one
        // creation is in force afterwards and everything the node makes carries it
        let other = c.creation ^ 0x5a5a;
        *bed.epmd_creation.lock().unwrap() = other;
        let second = node.start(0).await;
        let want = match (&second, c.legacy) {
            (Err(_), _) => want,
            (Ok(()), true) => other & 0xffff,
            (Ok(()), false) => other,
        };
        let mut got: Vec<(&'static str, u32)> = vec![("Node::creation() before the second start", if second.is_err() { first_creation } else { want }), ("Node::creation()", node.creation())];
        got.push(("make_reference()", node.make_reference().creation));
        got.push(("pid allocator", node.verif_pid_allocator().allocate().map(|p| p.creation).unwrap_or(u32::MAX - 7)));
        if let Ok(pid) = node.spawn(crate::nodebed::Recorder { log: crate::nodebed::new_log(), gate: None }).await {
            got.push(("spawned process", pid.creation));
        }
        Ok::<_, String>((want, got))
    });
    match res {
        Ok(Ok((want, got))) => {
            for (what, cr) in &got {
                if *cr != want {
                    return Verdict::Fail {
                        signature: "identifier-creation-differs-from-epmd".into(),
                        detail: format!("the creation in force is {want} ({} reply; `start` was called a second time) but {what} carries {cr}", if c.legacy { "ALIVE2_RESP" } else { "ALIVE2_X_RESP" }),
                    };
                }
            }
            Verdict::Pass(CaseInfo::nt(fp(&format!("{:?}", c))).class(if c.legacy { "epmd:alive2-resp" } else { "epmd:alive2-x-resp" }))
        }
        Ok(Err(e)) => Verdict::Fail { signature: "harness:netbed".into(), detail: e },
        Err(BedErr::Setup(e)) => Verdict::Fail { signature: "harness:netbed".into(), detail: e },
        Err(BedErr::RealTimeCap) => Verdict::Fail { signature: "node-start-hangs".into(), detail: "Node::start against the harness's EPMD did not return".into() },
    }
}

fn epmd_cases() -> Vec<EpmdCase> {
    let mut v = vec![];
    for creation in [1u32, 2, 3, 255, 256, 65_535, 65_536, 0x0102_0304, 0x8000_0000, u32::MAX] {
        v.push(EpmdCase { creation, legacy: false });
        if creation <= 65_535 {
            v.push(EpmdCase { creation, legacy: true });
        }
    }
    v
}

pub fn run(run: &mut Run) {
    run.rule = "(a) exhaustive depth-first exploration of every schedule of 2..3 threads x 1..3 allocations (pids: from 7 counter positions incl. immediately before the wrap point and the serial's \
        32-bit wrap; references: counter at 0 and at 2^32-5..2^32-1) under a baton-passing scheduler that parks each thread at every instrumented step of allocate()/make_reference(); (b) random schedules \
        for 2..4 threads; (c) sequential histories of 3 x 2^20 + 10 allocations across three wraps with creation changes; (d) plain OS-thread stress across the wrap point (no hooks). Oracle: pids pairwise \
        distinct, id in 1..=2^20, creation of a started node's pids and references = what EPMD assigned (both reply forms, (e)), none equals a pid the current epoch had already issued, creation as stored, ids restart at 1, no deadlock. Non-trivial = a schedule that switched threads between two \
        scheduling points, or a history / scenario that crosses the wrap"
        .into();
    run.assumptions = vec![
        "interleavings are explored at the instrumented steps only (sync_point hooks between the atomic operations); a change that removes the hooks from a rewritten function is only reachable by (c) and (d)".into(),
        "a counter position (id, serial) implies that <1..id-1 . serial> have been issued in the current epoch".into(),
        "reference words repeat after 2^32 make_reference calls with the same creation: outside every explored history".into(),
    ];
    // (a) every scenario's schedule tree is explored depth-first; scenarios run in parallel
    let mut total = 0u64;
    let mut exhaustive_all = true;
    let scns = scenarios(run.tier);
    let results: Vec<ScnResult> = std::thread::scope(|sc| {
        let hs: Vec<_> = scns.iter().map(|(scn, cap)| sc.spawn(move || explore_scenario(scn, *cap))).collect();
        hs.into_iter().map(|h| h.join().expect("scenario thread")).collect()
    });
    for ((scn, _cap), r) in scns.iter().zip(results) {
        let (n, complete) = (r.n, r.complete);
        total += n;
        run.stats.evaluations += n;
        for j in 0..r.nontrivial {
            run.stats.nontrivial.insert(fp(&(format!("{:?}", scn), j)));
        }
        if !complete && r.failure.is_none() {
            exhaustive_all = false;
        }
        if let Some((schedule, sig, detail)) = r.failure {
            // confirm through the replayable path, then report
            let case = ScheduleCase { scenario: scn.clone(), schedule, strict: true };
            let v = match schedule_oracle(&case) {
                Verdict::Pass(_) => Verdict::Fail { signature: sig, detail: format!("{detail} (found by DFS; the byte-coded schedule did not reproduce it exactly)") },
                other => other,
            };
            run.custom("all-schedules", &case, v);
        } else if complete {
            run.exhaustive_parts.push(format!("all-schedules:{}x{}@{}{}", scn.threads, scn.allocs, scn.start_id, if scn.references { ":refs" } else { "" }));
        }
        run.note_campaign(serde_json::json!({"name": "all-schedules", "scenario": format!("{:?}", scn), "schedules": n, "complete": complete, "wall_s": r.wall}));
        if run.stats.samples.len() < 3 {
            run.stats.samples.push(format!("{:?}: {} schedules, complete={}", scn, n, complete));
        }
    }
    run.extra.insert("schedules_explored".into(), serde_json::json!(total));
    run.extra.insert("all_listed_scenarios_exhausted".into(), serde_json::json!(exhaustive_all));
    // (e) the creation comes from EPMD: both reply forms, values across the 16-bit boundary
    run.enumerate("epmd-creation", epmd_cases().into_iter(), epmd_oracle);
    // (b)
    run.prop("random-schedules", schedule_strategy, run.tier.pick(1500, 100_000), schedule_oracle);
    // (c)
    let mut hist = vec![
        History { start_id: 1, start_serial: 0, count: 3 * MAX_ID + 10, creations: vec![(5, 77), (MAX_ID + 3, 78), (2 * MAX_ID, 1)] },
        History { start_id: MAX_ID - 2, start_serial: (1u64 << 32) - 2, count: 2 * MAX_ID + 10, creations: vec![] },
        History { start_id: MAX_ID, start_serial: (1u64 << 32) - 1, count: 2 * MAX_ID + 10, creations: vec![(1, u32::MAX)] },
    ];
    if run.tier == Tier::Thorough {
        hist.push(History { start_id: 500_000, start_serial: (1u64 << 32) + 1, count: 6 * MAX_ID, creations: vec![(MAX_ID, 2), (4 * MAX_ID, 3)] });
        // (the 64-bit serial counter itself cannot run over: that would take 2^84 allocations; histories stay below it)
        hist.push(History { start_id: 1, start_serial: (1u64 << 40) - 1, count: 3 * MAX_ID, creations: vec![] });
    }
    run.enumerate("long-histories", hist.into_iter(), history_oracle);
    // (d)
    let rounds = run.tier.pick(400u32, 20_000);
    let stress = (0..rounds).map(|r| Stress { threads: 2 + (r % 7) as usize, per_thread: 40, back: 20 + (r % 60), start_serial: if r % 5 == 0 { (1u64 << 32) - 1 } else { r as u64 }, round: r });
    run.enumerate("os-thread-stress", stress, stress_oracle);
    // (d') long sequential reference histories: 600 000 references from several counter positions, pairwise distinct
    let starts: Vec<u32> = vec![0, (1 << 18) - 7, (1 << 24) - 3, u32::MAX - 100_000];
    run.enumerate("reference-histories", starts.into_iter(), |start: &u32| {
        let node = Node::new("rust@127.0.0.1", "cookie");
        node.verif_set_reference_counter(*start);
        let mut seen: HashSet<Vec<u32>> = HashSet::with_capacity(700_000);
        for k in 0..600_000u32 {
            let r = node.make_reference();
            if r.creation != node.creation() {
                vfail!("reference-wrong-creation", "reference #{k}: creation {} while the node's is {}", r.creation, node.creation());
            }
            if !seen.insert(r.ids.clone()) {
                vfail!("duplicate-reference", "reference #{k} from counter start {start} has the words {:?} of an earlier one", r.ids);
            }
        }
        Verdict::Pass(CaseInfo::nt(fp(start)).class("sequential-reference-history"))
    });
    // (e) references made by the node's own operations (monitor, also when the request cannot be sent) interleaved with
    // make_reference at the node's yield points
    run.prop("node-references", node_ref_strategy, run.tier.pick(6_000, 300_000), node_ref_oracle);
}

pub fn replays() -> Vec<ReplayEntry> {
    vec![
        replay_entry("all-schedules", schedule_oracle),
        replay_entry("random-schedules", schedule_oracle),
        replay_entry("long-histories", history_oracle),
        replay_entry("os-thread-stress", stress_oracle),
        replay_entry("node-references", node_ref_oracle),
        replay_entry("epmd-creation", epmd_oracle),
    ]
}

//! C12 — term comparison agrees with Erlang's standard term order (independent exact oracle).

use crate::engine::{fp, replay_entry, CaseInfo, ReplayEntry, Run, Verdict};
use crate::gen::{arb_choices, arb_value, tweak, GenCfg};
use crate::terms::lift;
use crate::universe::{corner_values, repr_variants, Item};
use crate::vfail;
use erltf::BorrowedTerm;
use proptest::prelude::*;
use refmodel::etf::VecPicker;
use refmodel::order::rank;
use refmodel::{erl_cmp, Cmp};
use serde::{Deserialize, Serialize};

#[derive(Clone, Debug, Serialize, Deserialize)]
pub struct Pair {
    pub a: Item,
    pub b: Item,
}

pub fn pair_oracle(p: &Pair) -> Verdict {
    let (Some(ta), Some(tb)) = (lift(&p.a.value, &mut VecPicker::new(&p.a.repr)), lift(&p.b.value, &mut VecPicker::new(&p.b.repr))) else {
        return Verdict::Pass(CaseInfo::trivial().class("unrepresentable"));
    };
    let want = erl_cmp(&p.a.value, &p.b.value);
    let got = ta.cmp(&tb);
    if !want.admits(got) {
        vfail!(
            "order-disagrees-with-erlang",
            "Erlang order says {:?}, OwnedTerm::cmp says {:?}; a={} b={} (terms {:?} / {:?})",
            want,
            got,
            p.a.value.render(),
            p.b.value.render(),
            crate::engine::truncate(&format!("{:?}", ta), 200),
            crate::engine::truncate(&format!("{:?}", tb), 200)
        );
    }
    let gb = BorrowedTerm::from(&ta).cmp(&BorrowedTerm::from(&tb));
    if !want.admits(gb) {
        vfail!(
            "borrowed-order-disagrees-with-erlang",
            "Erlang order says {:?}, BorrowedTerm::cmp says {:?}; a={} b={}",
            want,
            gb,
            p.a.value.render(),
            p.b.value.render()
        );
    }
    // symmetric call too
    let want_r = want.reverse();
    let got_r = tb.cmp(&ta);
    if !want_r.admits(got_r) {
        vfail!("order-disagrees-with-erlang", "reverse direction: Erlang {:?}, got {:?}; a={} b={}", want_r, got_r, p.b.value.render(), p.a.value.render());
    }
    let same_rank = rank(&p.a.value) == rank(&p.b.value);
    let nontrivial = same_rank && (want != Cmp::Equal || p.a.repr != p.b.repr);
    let info = if nontrivial { CaseInfo::nt(fp(&(format!("{:?}", p.a), format!("{:?}", p.b)))) } else { CaseInfo::trivial() };
    Verdict::Pass(
        info.class_if(want == Cmp::Equal, "erl:equal")
            .class_if(want == Cmp::Unspecified, "erl:distinct-identifiers")
            .class_if(want == Cmp::Either, "erl:statement-silent")
            .class_if(same_rank, "same-rank"),
    )
}

pub fn random_pair() -> impl Strategy<Value = Pair> {
    let v = || arb_value(GenCfg { heavy: false, depth: 4, size: 20, ..GenCfg::std() });
    prop_oneof![
        // independent values
        2 => (v(), arb_choices(8), v(), arb_choices(8)).prop_map(|(a, ra, b, rb)| Pair { a: Item { value: a, repr: ra }, b: Item { value: b, repr: rb } }),
        // neighbours
        5 => (v(), arb_choices(8), arb_choices(8), arb_choices(8)).prop_map(|(a, ra, tw, rb)| {
            let b = tweak(&a, &mut VecPicker::new(&tw));
            Pair { a: Item { value: a, repr: ra }, b: Item { value: b, repr: rb } }
        }),
        // same value, different representation
        1 => (v(), arb_choices(8), arb_choices(8)).prop_map(|(a, ra, rb)| Pair { a: Item { value: a.clone(), repr: ra }, b: Item { value: a, repr: rb } }),
    ]
}

pub fn run(run: &mut Run) {
    run.rule = "all pairs of a corner universe of Erlang values (every type rank; numeric neighbours of 2^31, 2^53, 2^63, 2^64, 10^20; floats adjacent to integers; \
        equal-length bigints; prefixes/extensions of binaries and bit-strings; improper lists; maps; compounds), each in every library representation, compared with an \
        independent exact implementation of Erlang's term order; plus random neighbour pairs. Non-trivial = same type rank and (different value or different representation)"
        .into();
    run.assumptions = vec![
        "refmodel::order is a faithful reading of the OTP reference manual's term order".into(),
        "relative order of two distinct pids/ports/references/funs is not prescribed (only rank and equality are checked)".into(),
        "maps whose keys are numerically equal but of different numeric type, and funs differing only in arity: any answer accepted (statement silent)".into(),
    ];
    let items: Vec<Item> = corner_values().iter().flat_map(repr_variants).collect();
    let n = items.len();
    let it = (0..n * n).map(|k| Pair { a: items[k / n].clone(), b: items[k % n].clone() });
    run.enumerate("corner-pairs", it, pair_oracle);
    run.prop("random-pairs", random_pair, run.tier.pick(40_000, 3_000_000), pair_oracle);
    if run.tier == crate::engine::Tier::Thorough {
        // coverage-guided byte fuzzing of the same oracle (libFuzzer, structure-aware through fuzzde); see fuzzbridge.rs
        crate::fuzzbridge::campaign(run, "c12", 3_000_000, 400);
    }
}

pub fn replays() -> Vec<ReplayEntry> {
    vec![replay_entry("fuzz:c12", crate::fuzzbridge::eval_input), replay_entry("corner-pairs", pair_oracle), replay_entry("random-pairs", pair_oracle)]
}

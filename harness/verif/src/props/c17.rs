//! C17 — each remote call gets its own reply; nothing is left behind afterwards.

use crate::engine::{fp, replay_entry, CaseInfo, ReplayEntry, Run, Verdict};
use crate::netbed::{advance, clear_schedule, connect_node_named, drain, install_schedule, library_panics_since, node_with_peer, panic_mark, parse_pass_through, run_case, BedErr};
use crate::nodebed::{send_frame, wait_until};
use crate::terms::denote;
use erltf::OwnedTerm;
use proptest::prelude::*;
use refmodel::Value;
use serde::{Deserialize, Serialize};
use std::cell::RefCell;
use std::rc::Rc;
use std::time::Duration;

#[derive(Clone, Debug, Serialize, Deserialize, PartialEq)]
pub enum Reply {
    /// reply as soon as the request has been read
    Now,
    /// reply after this many virtual seconds
    After(u8),
    Never,
    Twice,
    /// reply now, and again after the next wave has been issued
    NowAndLate,
}

#[derive(Clone, Debug, Serialize, Deserialize)]
pub struct Call {
    pub timeout_s: u8,
    pub reply: Reply,
    /// call a node that is not connected
    pub unknown_node: bool,
    /// the call's argument holds an atom of 70 000 bytes, which no encoding can carry: the request cannot be written although the
    /// peer is connected and healthy; the call must return an error and leave nothing behind
    #[serde(default)]
    pub unsendable: bool,
}

#[derive(Clone, Debug, Serialize, Deserialize)]
pub struct Case {
    /// waves of concurrent calls; a wave starts when the previous one has fully returned
    pub waves: Vec<Vec<Call>>,
    /// order in which immediate replies of a wave are sent
    pub perm: Vec<u8>,
    pub schedule: Vec<u8>,
    /// stray replies to pids that never had a call
    pub stray: u8,
    /// 0: none, 1: peer closes while calls are outstanding in the last wave, 2: peer closes before the last wave,
    /// 3: peer resets the socket right before the last wave is issued (write failure on a registered connection)
    pub fault: u8,
    /// before every wave after the first, put the node's pid allocator where it would be exactly one round of ids
    /// (2^20 allocations) later: the new calls get the identifiers of the first wave's calls with the next serial
    #[serde(default)]
    pub reuse_ids: bool,
    /// a second peer is connected and closes its stream while the calls of the last wave (all to the first peer) are
    /// outstanding
    #[serde(default)]
    pub second_peer_closes: bool,
    /// a wave with a single call to the peer: the caller task is held (yielding) right after its request has been
    /// written, until the peer's immediate reply has been written, acknowledged and the receiver task has had its turn
    #[serde(default)]
    pub reply_overtakes: bool,
    /// 0: off; otherwise the calls of a wave get process numbers exactly 2^(13 + (k-1) % 7) apart (the allocator is moved
    /// forward between two calls), so that their identifiers agree in their low bits
    #[serde(default)]
    pub id_stride: u8,
}

#[derive(Debug)]
struct CallOutcome {
    wave: usize,
    idx: usize,
    result: Result<Value, String>,
    expect_reply_in_time: bool,
}

pub fn echo(wave: usize, idx: usize) -> Value {
    Value::Tuple(vec![Value::atom("rex"), Value::Tuple(vec![Value::atom("echo"), Value::int(wave as i128), Value::int(idx as i128)])])
}

pub fn arg(wave: usize, idx: usize) -> OwnedTerm {
    OwnedTerm::Tuple(vec![OwnedTerm::Integer(wave as i64), OwnedTerm::Integer(idx as i64)])
}

/// (reply pid, wave, idx) from a REG_SEND to rex
pub fn parse_request(frame: &[u8]) -> Result<(Value, usize, usize), String> {
    let (ctrl, payload) = parse_pass_through(frame)?;
    let Value::Tuple(c) = &ctrl else { return Err(format!("control {}", ctrl.render())) };
    if c.len() != 4 || c[0] != Value::int(6) || c[3] != Value::atom("rex") {
        return Err(format!("not a REG_SEND to rex: {}", ctrl.render()));
    }
    let Some(Value::Tuple(p)) = payload else { return Err("no payload".into()) };
    if p.len() != 2 {
        return Err("payload shape".into());
    }
    let from = p[0].clone();
    if from != c[1] {
        return Err(format!("reply address in the request ({}) differs from the control's sender ({})", from.render(), c[1].render()));
    }
    let Value::Tuple(call) = &p[1] else { return Err("call shape".into()) };
    let Some(Value::List { elems, .. }) = call.get(3) else { return Err("args".into()) };
    let Some(Value::Tuple(a)) = elems.first() else { return Err("arg".into()) };
    let w = match &a[0] {
        Value::Int(b) => b.to_i64().unwrap_or(-1),
        _ => -1,
    };
    let i = match &a[1] {
        Value::Int(b) => b.to_i64().unwrap_or(-1),
        _ => -1,
    };
    Ok((from, w as usize, i as usize))
}

struct NetOut {
    outcomes: Vec<CallOutcome>,
    pending_after: usize,
    problems: Vec<(String, String)>,
    switched: usize,
    permuted: bool,
}

fn run_net(c: &Case) -> Result<Result<NetOut, String>, BedErr> {
    let c = c.clone();
    run_case(Duration::from_secs(60), move |bed| async move {
        let (node, p) = node_with_peer(&bed, u64::MAX).await?;
        let mut p = Some(p);
        let mut second = if c.second_peer_closes { Some(connect_node_named(&bed, &node, "other", u64::MAX, &[]).await?) } else { None };
        let local = tokio::task::LocalSet::new();
        let switched = install_schedule(c.schedule.clone());
        let hold = crate::netbed::install_hold();
        let outcomes: Rc<RefCell<Vec<CallOutcome>>> = Rc::new(RefCell::new(vec![]));
        let mut problems: Vec<(String, String)> = vec![];
        let mut late: Vec<(Value, usize, usize)> = vec![];
        let mut permuted = false;
        let n_waves = c.waves.len();
        local
            .run_until(async {
                let id0 = node.verif_pid_allocator().next_id_test_only().load(std::sync::atomic::Ordering::SeqCst);
                for (w, wave) in c.waves.iter().enumerate() {
                    if c.reuse_ids && w > 0 {
                        let a = node.verif_pid_allocator();
                        a.next_id_test_only().store(id0, std::sync::atomic::Ordering::SeqCst);
                        a.next_serial_test_only().fetch_add(1, std::sync::atomic::Ordering::SeqCst);
                    }
                    if c.fault == 2 && w + 1 == n_waves {
                        if let Some(pc) = p.take() {
                            pc.close_gracefully();
                            let n2 = node.clone();
                            let _ = wait_until(Duration::from_secs(5), || !n2.connections().contains_key("peer@127.0.0.1")).await;
                        }
                    }
                    if c.fault == 3 && w + 1 == n_waves {
                        // reset the socket and issue the calls at once, before the receiver task has noticed:
                        // the connection is still registered but its write fails
                        if let Some(pc) = p.take() {
                            drop(pc);
                        }
                    }
                    // issue the wave
                    hold.set(c.reply_overtakes && p.is_some() && wave.iter().filter(|c| !c.unknown_node && !c.unsendable).count() == 1);
                    let mut handles = vec![];
                    for (i, call) in wave.iter().enumerate() {
                        let outer_node = node.clone();
                        let node = node.clone();
                        let outcomes = outcomes.clone();
                        let call = call.clone();
                        let in_time = matches!(call.reply, Reply::Now | Reply::Twice | Reply::NowAndLate) || matches!(call.reply, Reply::After(d) if (d as u64 % 8) < (1 + call.timeout_s as u64 % 8));
                        handles.push(tokio::task::spawn_local(async move {
                            let target = if call.unknown_node { "nosuch@127.0.0.1" } else { "peer@127.0.0.1" };
                            let t = Duration::from_secs(1 + call.timeout_s as u64 % 8);
                            let args = if call.unsendable { vec![arg(w, i), OwnedTerm::Atom(erltf::types::Atom::new(&"x".repeat(70_000)))] } else { vec![arg(w, i)] };
                            let r = node.rpc_call_raw_with_timeout(target, "m", "f", args, t).await;
                            outcomes.borrow_mut().push(CallOutcome {
                                wave: w,
                                idx: i,
                                result: r.map(|t| denote(&t)).map_err(|e| e.to_string()),
                                expect_reply_in_time: in_time && !call.unknown_node && !call.unsendable,
                            });
                        }));
                        if c.id_stride > 0 {
                            // the call takes its identifier the first time it runs; then the allocator jumps ahead
                            tokio::task::yield_now().await;
                            tokio::task::yield_now().await;
                            let stride = 1u32 << (13 + (c.id_stride - 1) % 7);
                            outer_node.verif_pid_allocator().next_id_test_only().fetch_add(stride - 1, std::sync::atomic::Ordering::SeqCst);
                        }
                    }
                    // late replies of earlier waves arrive now, while this wave is outstanding
                    let expected_requests = if p.is_some() { wave.iter().filter(|c| !c.unknown_node && !c.unsendable).count() } else { 0 };
                    let mut reqs: Vec<(Value, usize, usize)> = vec![];
                    if let Some(pc) = p.as_mut() {
                        while reqs.len() < expected_requests {
                            let Some(f) = pc.read_frame(4).await else {
                                problems.push(("request-not-sent".into(), format!("wave {w}: only {} of {} requests reached the peer", reqs.len(), expected_requests)));
                                break;
                            };
                            match parse_request(&f) {
                                Ok(r) => reqs.push(r),
                                Err(e) => problems.push(("request-malformed".into(), e)),
                            }
                        }
                        // the requests of this wave are outstanding at the first peer: now the *other* peer goes away
                        if w + 1 == n_waves {
                            if let Some(other) = second.take() {
                                other.close_gracefully();
                                let n2 = node.clone();
                                if !wait_until(Duration::from_secs(5), || !n2.connections().contains_key("other@127.0.0.1")).await {
                                    problems.push(("connection-not-deregistered".into(), "the second peer closed its stream but stays registered".into()));
                                }
                            }
                        }
                        for (pid, lw, li) in late.drain(..) {
                            let _ = pc.write(&send_frame(&pid, &echo(lw, li))).await;
                        }
                        for k in 0..c.stray {
                            // every other stray carries the process number and serial of an outstanding call under another creation
                            let bogus = match reqs.get(k as usize % reqs.len().max(1)) {
                                Some((Value::Pid { node, id, serial, creation }, _, _)) if k % 2 == 1 => Value::Pid { node: node.clone(), id: *id, serial: *serial, creation: creation.wrapping_add(1) },
                                _ => Value::Pid { node: "rust@127.0.0.1".into(), id: 777_000 + k as u32, serial: 0, creation: 0x0102_0304 },
                            };
                            let _ = pc.write(&send_frame(&bogus, &Value::atom("stray"))).await;
                        }
                        pc.settle().await;
                        // distinct reply addresses within a wave
                        for a in 0..reqs.len() {
                            for b in (a + 1)..reqs.len() {
                                if reqs[a].0 == reqs[b].0 {
                                    problems.push(("reply-address-shared-by-concurrent-calls".into(), format!("wave {w}: {}", reqs[a].0.render())));
                                }
                            }
                        }
                        // immediate replies, in a generated order
                        let mut order: Vec<usize> = (0..reqs.len()).collect();
                        for (k, b) in c.perm.iter().enumerate() {
                            if order.len() > 1 {
                                let a = k % order.len();
                                let d = *b as usize % order.len();
                                if a != d {
                                    order.swap(a, d);
                                    permuted = true;
                                }
                            }
                        }
                        let mut delayed: Vec<(u64, usize)> = vec![];
                        for &ri in &order {
                            let (pid, rw, ri2) = reqs[ri].clone();
                            let call = &c.waves[rw][ri2];
                            match call.reply {
                                Reply::Now => {
                                    let _ = pc.write(&send_frame(&pid, &echo(rw, ri2))).await;
                                }
                                Reply::Twice => {
                                    let _ = pc.write(&send_frame(&pid, &echo(rw, ri2))).await;
                                    let _ = pc.write(&send_frame(&pid, &echo(rw, ri2))).await;
                                }
                                Reply::NowAndLate => {
                                    let _ = pc.write(&send_frame(&pid, &echo(rw, ri2))).await;
                                    late.push((pid.clone(), rw, ri2));
                                }
                                Reply::After(d) => delayed.push((d as u64 % 8, ri)),
                                Reply::Never => late.push((pid.clone(), rw, ri2)),
                            }
                        }
                        pc.settle().await;
                        drain().await;
                        hold.set(false);
                        if c.fault == 1 && w + 1 == n_waves {
                            if let Some(pc) = p.take() {
                                pc.close_gracefully();
                            }
                        } else {
                            // let virtual time pass second by second, sending the delayed replies when due
                            for sec in 0..=9u64 {
                                for (d, ri) in &delayed {
                                    if *d == sec {
                                        let (pid, rw, ri2) = reqs[*ri].clone();
                                        let _ = pc.write(&send_frame(&pid, &echo(rw, ri2))).await;
                                    }
                                }
                                pc.settle().await;
                                if handles.iter().all(|h| h.is_finished()) {
                                    break;
                                }
                                advance(Duration::from_secs(1)).await;
                            }
                        }
                    }
                    hold.set(false);
                    // without a peer (or after it closed) only time can end the calls
                    for _ in 0..12 {
                        if handles.iter().all(|h| h.is_finished()) {
                            break;
                        }
                        advance(Duration::from_secs(1)).await;
                        drain().await;
                    }
                    for h in handles {
                        if !h.is_finished() {
                            problems.push(("call-never-returns".into(), format!("wave {w}: a call is still pending 12 virtual seconds after its timeout")));
                            h.abort();
                        } else {
                            let _ = h.await;
                        }
                    }
                }
            })
            .await;
        clear_schedule();
        drain().await;
        let pending_after = node.verif_pending_rpc_count();
        drop(p);
        let outcomes = std::mem::take(&mut *outcomes.borrow_mut());
        Ok(NetOut { outcomes, pending_after, problems, switched: switched.get(), permuted })
    })
}

pub fn oracle(c: &Case) -> Verdict {
    let mark = panic_mark();
    let out = match run_net(c) {
        Ok(Ok(o)) => o,
        Ok(Err(e)) => return Verdict::Fail { signature: "harness:netbed".into(), detail: e },
        Err(BedErr::RealTimeCap) => return Verdict::Fail { signature: "node-hangs".into(), detail: "the case did not finish (a call or the receiver is stuck)".into() },
        Err(BedErr::Setup(e)) => return Verdict::Fail { signature: "harness:netbed".into(), detail: e },
    };
    clear_schedule();
    let panics = library_panics_since(mark);
    if !panics.is_empty() {
        return Verdict::Fail { signature: "panic".into(), detail: format!("{:?}", panics) };
    }
    if let Some((s, d)) = out.problems.first() {
        return Verdict::Fail { signature: s.clone(), detail: d.clone() };
    }
    let total: usize = c.waves.iter().map(|w| w.len()).sum();
    if out.outcomes.len() != total {
        return Verdict::Fail { signature: "call-never-returns".into(), detail: format!("{} of {} calls returned", out.outcomes.len(), total) };
    }
    let mut fault_path = false;
    for o in &out.outcomes {
        let call = &c.waves[o.wave][o.idx];
        match &o.result {
            Ok(v) => {
                if !v.same(&echo(o.wave, o.idx)) {
                    return Verdict::Fail {
                        signature: "reply-delivered-to-wrong-caller".into(),
                        detail: format!("call (wave {}, #{}) returned {} instead of its own reply {}", o.wave, o.idx, v.render(), echo(o.wave, o.idx).render()),
                    };
                }
                if call.unknown_node {
                    return Verdict::Fail { signature: "call-to-unknown-node-succeeded".into(), detail: format!("{:?}", o) };
                }
                if call.unsendable {
                    return Verdict::Fail { signature: "call-with-unencodable-argument-succeeded".into(), detail: format!("{:?}", o) };
                }
            }
            Err(e) => {
                fault_path = true;
                let allowed = e.contains("RPC timeout") || e.contains("RPC cancelled") || e.contains("not connected") || e.contains("Client error") || call.unsendable;
                if !allowed {
                    return Verdict::Fail { signature: "unexpected-call-error".into(), detail: format!("call (wave {}, #{}): {e}", o.wave, o.idx) };
                }
                let last_wave_fault = c.fault != 0 && o.wave + 1 == c.waves.len();
                if c.second_peer_closes && c.fault == 0 && !call.unknown_node && e.contains("RPC cancelled") {
                    return Verdict::Fail {
                        signature: "call-cancelled-although-its-peer-is-connected".into(),
                        detail: format!("call (wave {}, #{}) to the first peer was cancelled when another peer closed its connection", o.wave, o.idx),
                    };
                }
                if o.expect_reply_in_time && !last_wave_fault && e.contains("RPC timeout") {
                    return Verdict::Fail {
                        signature: "reply-sent-in-time-but-call-timed-out".into(),
                        detail: format!("call (wave {}, #{}) with {:?}: the peer's reply was on the wire and consumed before the timeout, yet the call reports {e}", o.wave, o.idx, call),
                    };
                }
            }
        }
    }
    if out.pending_after != 0 {
        return Verdict::Fail {
            signature: "bookkeeping-left-behind".into(),
            detail: format!("{} outstanding-call entries remain after every call has returned", out.pending_after),
        };
    }
    let nontrivial = (total >= 2 && out.permuted) || fault_path;
    let info = if nontrivial { CaseInfo::nt(fp(&format!("{:?}", c))) } else { CaseInfo::trivial() };
    Verdict::Pass(
        info.class_if(fault_path, "timeout-or-fault-path")
            .class_if(out.permuted, "replies-permuted")
            .class_if(c.waves.len() >= 2, "late-replies-into-next-wave")
            .class_if(c.waves.len() >= 2 && c.reuse_ids, "caller-ids-reused-after-a-round")
            .class_if(c.fault != 0, "peer-closes")
            .class_if(c.second_peer_closes, "another-peer-closes-meanwhile")
            .class_if(c.reply_overtakes && c.waves.iter().any(|w| w.iter().filter(|c| !c.unknown_node && !c.unsendable).count() == 1), "caller-held-until-the-reply-is-routed")
            .class_if(c.id_stride > 0, "identifiers-2^k-apart")
            .class_if(c.waves.iter().flatten().any(|c| c.unsendable), "call-whose-request-cannot-be-encoded")
            .class_if(out.switched > 0, "schedule-yields"),
    )
}

fn strategy() -> impl Strategy<Value = Case> {
    let reply = prop_oneof![4 => Just(Reply::Now), 3 => (0u8..8).prop_map(Reply::After), 2 => Just(Reply::Never), 1 => Just(Reply::Twice), 2 => Just(Reply::NowAndLate)];
    let call = (any::<u8>(), reply, prop::bool::weighted(0.08), prop::bool::weighted(0.06)).prop_map(|(timeout_s, reply, unknown_node, unsendable)| Call { timeout_s, reply, unknown_node, unsendable: unsendable && !unknown_node });
    let wave = prop_oneof![1 => prop::collection::vec(call.clone(), 1..2), 3 => prop::collection::vec(call, 1..7)];
    (prop::collection::vec(wave, 1..4), prop::collection::vec(any::<u8>(), 0..6), prop::collection::vec(any::<u8>(), 0..30), 0u8..3, prop_oneof![6 => Just(0u8), 1 => Just(1u8), 1 => Just(2u8), 2 => Just(3u8)], prop::bool::weighted(0.35), prop::bool::weighted(0.25), prop::bool::weighted(0.4), prop_oneof![3 => Just(0u8), 1 => 1u8..8])
        .prop_map(|(waves, perm, schedule, stray, fault, reuse_ids, second_peer_closes, reply_overtakes, id_stride)| Case { waves, perm, schedule, stray, fault, reuse_ids, second_peer_closes, reply_overtakes, id_stride })
}

// ---- a large request to a peer that is not reading: the call's own timeout must not tear the frame -----------------------

#[derive(Clone, Debug, Serialize, Deserialize)]
pub struct StallCase {
    /// size of the binary argument of the first call, in KiB (large enough to fill the socket buffers)
    pub kib: u32,
    pub timeout_s: u8,
    /// virtual seconds that pass while the peer does not read
    pub stall_s: u8,
    /// further small calls issued after the stall
    pub later: u8,
    /// both sides offer the distribution-header (atom cache) framing
    #[serde(default)]
    pub header: bool,
    /// instead of resuming to read, the peer goes away while the request is stuck in the full socket:
    /// 1 = closes its socket, 2 = resets it, 3 = closes only its sending direction (FIN) and still does not read
    #[serde(default)]
    pub goes_away: u8,
}

pub fn stall_oracle(c: &StallCase) -> Verdict {
    let mark = panic_mark();
    let c2 = c.clone();
    let res = run_case(Duration::from_secs(90), move |bed| async move {
        let c = c2;
        // (the node offers its default flags; whether header framing is negotiated is the peer's choice here)
        let hdr = edp_client::flags::DistributionFlags::DIST_HDR_ATOM_CACHE.as_u64();
        let (node, p) = node_with_peer(&bed, if c.header { u64::MAX } else { u64::MAX & !hdr }).await?;
        let mut p = Some(p);
        let local = tokio::task::LocalSet::new();
        let returned = Rc::new(RefCell::new(0usize));
        let big = vec![0xABu8; c.kib as usize * 1024];
        let n_calls = 1 + c.later as usize % 3;
        local
            .run_until(async {
                let mut hs = vec![];
                let (n1, r1, t) = (node.clone(), returned.clone(), Duration::from_secs(1 + c.timeout_s as u64 % 5));
                hs.push(tokio::task::spawn_local(async move {
                    let _ = n1.rpc_call_raw_with_timeout("peer@127.0.0.1", "m", "f", vec![OwnedTerm::Integer(0), OwnedTerm::Binary(big)], t).await;
                    *r1.borrow_mut() += 1;
                }));
                // the peer is not reading: let the sender run into the full socket, then let virtual time pass its timeout
                for _ in 0..20 {
                    drain().await;
                    std::thread::sleep(Duration::from_micros(300));
                }
                advance(Duration::from_secs(c.stall_s as u64 % 12)).await;
                for k in 1..n_calls {
                    let (n2, r2) = (node.clone(), returned.clone());
                    hs.push(tokio::task::spawn_local(async move {
                        let _ = n2.rpc_call_raw_with_timeout("peer@127.0.0.1", "m", "f", vec![OwnedTerm::Integer(k as i64)], Duration::from_secs(2)).await;
                        *r2.borrow_mut() += 1;
                    }));
                    for _ in 0..5 {
                        drain().await;
                    }
                }
                if c.goes_away % 4 != 0 {
                    // the peer disappears instead: every call must still return (connection error or timeout)
                    let pc = p.take().unwrap();
                    let mut keep = None;
                    match c.goes_away % 4 {
                        1 => pc.close_gracefully(),
                        2 => drop(pc),
                        _ => {
                            {
                                use std::os::fd::AsRawFd;
                                unsafe { libc::shutdown(pc.s.as_raw_fd(), libc::SHUT_WR) };
                            }
                            keep = Some(pc);
                        }
                    }
                    if c.goes_away % 4 == 3 {
                        // a peer that keeps its socket open and never reads again leaves the request stuck for as long
                        // as TCP allows (the call's timeout bounds the wait for the reply, not the write): what is owed
                        // is that the node notices the end of the peer's stream and carries on
                        let n2 = node.clone();
                        let gone = wait_until(Duration::from_secs(20), || !n2.connections().contains_key("peer@127.0.0.1")).await;
                        for h in hs {
                            h.abort();
                        }
                        drop(keep);
                        if !gone {
                            return Err("call-never-returns: the peer ended its stream while a request was stuck in the full socket, and stays registered".to_string());
                        }
                        return Ok::<_, String>((vec![], 0, 0));
                    }
                    let t0 = std::time::Instant::now();
                    let mut rounds = 0;
                    while *returned.borrow() < n_calls && t0.elapsed() < Duration::from_secs(20) {
                        drain().await;
                        rounds += 1;
                        if rounds % 50 == 0 {
                            advance(Duration::from_secs(1)).await;
                        }
                        std::thread::sleep(Duration::from_micros(200));
                    }
                    let done = *returned.borrow();
                    for h in hs {
                        h.abort();
                    }
                    drop(keep);
                    if done < n_calls {
                        return Err(format!("call-never-returns: the peer went away while a {} KiB request was stuck in the full socket; {done} of {n_calls} calls returned within 20 s and {} virtual seconds", c.kib, rounds / 50));
                    }
                    return Ok::<_, String>((vec![], 0, done));
                }
                let mut p = p.take().unwrap();
                // now the peer reads everything that was and will be written; nobody is answered, every call times out
                let mut frames: Vec<Vec<u8>> = vec![];
                let t0 = std::time::Instant::now();
                let mut quiet = 0;
                while *returned.borrow() < n_calls && t0.elapsed() < Duration::from_secs(60) {
                    p.poll_in();
                    let before = frames.len();
                    while let Some(f) = p.deframer.next(4) {
                        if !f.is_empty() {
                            frames.push(f);
                        }
                    }
                    drain().await;
                    if frames.len() == before {
                        quiet += 1;
                        if quiet % 50 == 0 {
                            advance(Duration::from_secs(1)).await;
                        }
                        std::thread::sleep(Duration::from_micros(200));
                    }
                }
                for _ in 0..20 {
                    drain().await;
                    p.poll_in();
                    std::thread::sleep(Duration::from_micros(300));
                }
                while let Some(f) = p.deframer.next(4) {
                    if !f.is_empty() {
                        frames.push(f);
                    }
                }
                for h in hs {
                    h.abort();
                }
                Ok::<_, String>((frames, p.deframer.buf.len(), *returned.borrow()))
            })
            .await
    });
    let (frames, leftover, returned) = match res {
        Ok(Ok(x)) => x,
        Ok(Err(e)) if e.starts_with("call-never-returns") => return Verdict::Fail { signature: "call-never-returns".into(), detail: e },
        Ok(Err(e)) => return Verdict::Fail { signature: "harness:netbed".into(), detail: e },
        Err(BedErr::RealTimeCap) if c.goes_away % 4 != 0 => {
            return Verdict::Fail { signature: "node-hangs-when-peer-goes-away-during-a-blocked-write".into(), detail: format!("the runtime thread is blocked for good: the peer went away ({}) while a {} KiB request was stuck in the full socket", ["", "closed its socket", "reset the connection", "closed its sending direction"][c.goes_away as usize % 4], c.kib) }
        }
        Err(BedErr::RealTimeCap) => return Verdict::Fail { signature: "node-hangs".into(), detail: "calls to a stalled peer did not return after it resumed reading".into() },
        Err(BedErr::Setup(e)) => return Verdict::Fail { signature: "harness:netbed".into(), detail: e },
    };
    let panics = library_panics_since(mark);
    if !panics.is_empty() {
        return Verdict::Fail { signature: "panic".into(), detail: format!("{:?}", panics) };
    }
    // whatever reached the peer is a sequence of whole, well-formed requests, each call's at most once, in issue order
    let mut seen: Vec<i64> = vec![];
    let mut peer_cache = refmodel::dist::PeerCache::default();
    for (i, f) in frames.iter().enumerate() {
        let parsed = if f.first() == Some(&131) {
            // distribution-header framing: read with the independent header reader (one cache for the connection)
            refmodel::dist::read_dist_message(f, &mut peer_cache).ok().map(|m| (m.control, m.payload))
        } else {
            parse_pass_through(f).ok()
        };
        let first_arg = parsed.and_then(|(ctrl, payload)| {
            let Value::Tuple(c) = &ctrl else { return None };
            if c.len() != 4 || c[0] != Value::int(6) || c[3] != Value::atom("rex") {
                return None;
            }
            let Some(Value::Tuple(pl)) = payload else { return None };
            let Value::Tuple(call) = pl.get(1)? else { return None };
            let Value::List { elems, .. } = call.get(3)? else { return None };
            match elems.first()? {
                Value::Int(b) => b.to_i64(),
                _ => None,
            }
        });
        match first_arg {
            Some(k) => seen.push(k),
            None => {
                return Verdict::Fail {
                    signature: "torn-or-interleaved-frame".into(),
                    detail: format!("frame {i} of {} ({} bytes, starts {}) is not a well-formed remote call request; {} KiB request, timeout {} s, stall {} s", frames.len(), f.len(), crate::terms::hex(&f[..f.len().min(24)]), c.kib, 1 + c.timeout_s % 5, c.stall_s % 12),
                }
            }
        }
    }
    if leftover > 0 {
        return Verdict::Fail { signature: "torn-or-interleaved-frame".into(), detail: format!("{leftover} bytes that do not form a complete frame were left on the wire after every call had returned") };
    }
    let mut sorted = seen.clone();
    sorted.sort();
    sorted.dedup();
    if sorted != seen {
        return Verdict::Fail { signature: "requests-duplicated-or-reordered".into(), detail: format!("requests seen by the peer: {:?}", seen) };
    }
    let _ = returned;
    Verdict::Pass(CaseInfo::nt(fp(&format!("{:?}", c))).class_if(c.kib >= 4096, "request-larger-than-the-socket-buffers"))
}

fn stall_strategy() -> impl Strategy<Value = StallCase> {
    (prop_oneof![Just(1u32), Just(300), Just(4096), Just(9000), 5000u32..16000], any::<u8>(), any::<u8>(), any::<u8>(), any::<bool>(), prop_oneof![3 => Just(0u8), 1 => Just(1u8), 1 => Just(2u8), 1 => Just(3u8)]).prop_map(|(kib, timeout_s, stall_s, later, header, goes_away)| StallCase { kib, timeout_s, stall_s, later, header, goes_away })
}

pub fn run(run: &mut Run) {
    run.rule = "a started Node connected to a scripted peer; 1..3 waves of 1..6 concurrent rpc_call_raw_with_timeout calls, each with its own virtual timeout (1..8 s) and a unique argument; per request the peer \
        replies at once, after d virtual seconds (before or after the caller's timeout), never, twice, or at once and again during the next wave; replies of a wave are sent in a generated order; stray replies go to \
        pids that never had a call; calls to an unknown node; the peer closes before or during the last wave; task interleaving at the registration / wait / lookup steps follows a generated schedule. Oracle: a call \
        returns its own reply (it echoes the unique argument) or a timeout/cancellation/connection error, never another call's reply; a reply consumed before the timeout must not be reported as a timeout; when all \
        calls have returned the outstanding-call table is empty. Non-trivial = >= 2 calls with permuted replies, or a timeout/fault path"
        .into();
    run.assumptions = vec![
        "virtual time: the caller's timeout and the peer's delays are both measured on the harness-owned clock; a reply counts as 'in time' only if it was written and consumed a full virtual second before the timeout".into(),
    ];
    run.prop("rpc-scripts", strategy, run.tier.pick(3000, 120_000), oracle);
    // a request larger than the socket buffers to a peer that reads only after the call's timeout has passed in virtual time
    run.prop("stalled-peer", stall_strategy, run.tier.pick(36, 600), stall_oracle);
}

pub fn replays() -> Vec<ReplayEntry> {
    vec![replay_entry("rpc-scripts", oracle), replay_entry("stalled-peer", stall_oracle)]
}

//! C15 — serde round trip returns the original Rust value, also across the wire.

use crate::engine::{fp, replay_entry, CaseInfo, ReplayEntry, Run, Verdict};
use erltf::{Atom, OwnedTerm};
use erltf_serde::{from_bytes, from_term, to_bytes, to_term, ElixirStruct};
use proptest::prelude::*;
use serde::de::DeserializeOwned;
use serde::{Deserialize, Serialize};
use std::collections::{BTreeMap, HashMap};
use std::fmt::Debug;

#[derive(Clone, Debug, PartialEq, Serialize, Deserialize)]
pub struct Named {
    pub id: u64,
    pub delta: i64,
    pub name: String,
    pub ratio: f64,
    pub flag: bool,
    pub tag: Option<i32>,
    pub items: Vec<i16>,
}

#[derive(Clone, Debug, PartialEq, Serialize, Deserialize)]
pub struct Newtype(pub i64);

#[derive(Clone, Debug, PartialEq, Serialize, Deserialize)]
pub struct TupleStruct(pub u32, pub String, pub char);

#[derive(Clone, Debug, PartialEq, Serialize, Deserialize)]
pub struct UnitStruct;

#[derive(Clone, Debug, PartialEq, Serialize, Deserialize)]
pub enum Shape {
    Dot,
    Circle(f64),
    Rect(i64, u32),
    Label { text: String, size: u16, pos: Option<i8> },
    Wrapped(Newtype),
    Many(Vec<u64>),
}

#[derive(Clone, Debug, PartialEq, Serialize, Deserialize)]
pub struct Deep {
    pub shapes: Vec<Shape>,
    pub by_name: BTreeMap<String, Shape>,
    pub by_id: BTreeMap<i64, Vec<Option<String>>>,
    pub pair: (Newtype, (u8, char), UnitStruct),
    pub inner: Option<Box<Named>>,
}

#[derive(Clone, Debug, PartialEq, ElixirStruct)]
#[elixir_module = "Verif.User"]
pub struct ElixirUser {
    pub name: String,
    pub age: u64,
    pub score: i64,
    pub email: Option<String>,
    pub tags: Vec<String>,
    pub ratio: f64,
}

#[derive(Clone, Debug, PartialEq, ElixirStruct)]
#[elixir_module = "Verif.Wrap"]
pub struct ElixirWrap {
    pub user: ElixirUser,
    pub shape: Shape,
    pub counts: Vec<u32>,
    /// a field whose name needs the raw-identifier syntax
    pub r#type: u16,
}

// Serialize/Deserialize for the case enum itself (replay files); the Elixir types get plain
// mirror structs for that purpose.
#[derive(Clone, Debug, PartialEq, Serialize, Deserialize)]
pub struct EU {
    pub name: String,
    pub age: u64,
    pub score: i64,
    pub email: Option<String>,
    pub tags: Vec<String>,
    pub ratio: f64,
}

impl EU {
    fn real(&self) -> ElixirUser {
        ElixirUser { name: self.name.clone(), age: self.age, score: self.score, email: self.email.clone(), tags: self.tags.clone(), ratio: self.ratio }
    }
}

#[derive(Clone, Debug, PartialEq, Serialize, Deserialize)]
pub enum Case {
    I8(i8),
    I16(i16),
    I32(i32),
    I64(i64),
    U8(u8),
    U16(u16),
    U32(u32),
    U64(u64),
    F32(f32),
    F64(f64),
    Bool(bool),
    Char(char),
    Str(String),
    OptI64(Option<i64>),
    OptStr(Option<String>),
    OptVec(Option<Vec<u32>>),
    Unit(()),
    Tup1((i64,)),
    Tup2((u64, String)),
    Tup4((i8, char, f64, bool)),
    VecU8(Vec<u8>),
    VecI64(Vec<i64>),
    VecStr(Vec<String>),
    VecVec(Vec<Vec<u16>>),
    VecOpt(Vec<Option<u64>>),
    HmStr(Vec<(String, i64)>),
    HmI64(Vec<(i64, String)>),
    HmU32(Vec<(u32, Vec<i64>)>),
    BmBool(Vec<(bool, u64)>),
    BmChar(Vec<(char, i32)>),
    Named(Named),
    Newtype(Newtype),
    TupleStruct(TupleStruct),
    UnitStruct(UnitStruct),
    Shape(Shape),
    Deep(Deep),
    Elixir(EU),
    ElixirWrap(EU, Shape, Vec<u32>),
    /// 128-bit integers as (high, low) halves: the term format of this library may refuse them, but must not alter them
    I128(i64, u64),
    U128(u64, u64),
    /// options whose payload is itself written as a bare atom (`nil`, a unit struct's name, `true`/`false`): only `undefined` is `None`
    OptAtomLike(Vec<Option<()>>, Option<UnitStruct>, Option<bool>, Option<()>),
}

/// `same`: equality that also distinguishes float bit patterns (via the Debug rendering,
/// which is exact for floats) for types whose Debug output is deterministic.
fn trip<T: Serialize + DeserializeOwned + PartialEq + Debug>(v: &T, debug_exact: bool) -> Result<(), (String, String)> {
    let same = |a: &T, b: &T| a == b && (!debug_exact || format!("{:?}", a) == format!("{:?}", b));
    let term = to_term(v).map_err(|e| ("to-term-error".to_string(), format!("{e} for {:?}", v)))?;
    match from_term::<T>(&term) {
        Ok(b) if same(v, &b) => {}
        Ok(b) => return Err(("term-round-trip-altered-value".into(), format!("{:?} came back as {:?}", v, b))),
        Err(e) => return Err(("term-round-trip-error".into(), format!("{e} for {:?} (term {:?})", v, term))),
    }
    let bytes = to_bytes(v).map_err(|e| ("to-bytes-error".to_string(), format!("{e} for {:?}", v)))?;
    match from_bytes::<T>(&bytes) {
        Ok(b) if same(v, &b) => {}
        Ok(b) => return Err(("wire-round-trip-altered-value".into(), format!("{:?} came back as {:?}", v, b))),
        Err(e) => return Err(("wire-round-trip-error".into(), format!("{e} for {:?}", v))),
    }
    // the bytes are a valid term for an independent reader too
    if let Err(e) = refmodel::etf::refdec(&bytes) {
        return Err(("independent-reader-rejects".into(), format!("{e:?} for {:?}", v)));
    }
    Ok(())
}

/// round trip, or a refusal by both serialisers ("reported as an error, never silently altered")
fn trip_or_refuse<T: Serialize + DeserializeOwned + PartialEq + Debug>(v: &T) -> Result<(), (String, String)> {
    match (to_term(v), to_bytes(v)) {
        (Err(_), Err(_)) => Ok(()),
        _ => trip(v, true),
    }
}

/// infinities: the statement lets the layer refuse what the term format cannot carry (Erlang has no infinite floats),
/// so any error is accepted; a value that does come back must be the one that went in
fn trip_or_error<T: Serialize + DeserializeOwned + PartialEq + Debug>(v: &T) -> Result<(), (String, String)> {
    match trip(v, true) {
        Err((sig, _)) if sig.ends_with("-error") || sig == "independent-reader-rejects" => Ok(()),
        r => r,
    }
}

/// sequences longer than the 16-bit length fields of the format's compact forms
fn long_sequences() -> Vec<Case> {
    let mut out = vec![];
    for n in [65_534usize, 65_535, 65_536, 65_537, 70_000, 131_072, 200_000] {
        out.push(Case::VecU8((0..n).map(|i| (i * 7 % 256) as u8).collect()));
        out.push(Case::VecI64((0..n).map(|i| (i % 256) as i64).collect()));
        out.push(Case::VecVec(vec![vec![3], (0..n).map(|i| (i % 200) as u16).collect(), vec![]]));
        out.push(Case::OptVec(Some((0..n).map(|i| (i % 256) as u32).collect())));
        out.push(Case::Str("a".repeat(n)));
        out.push(Case::Tup2((n as u64, "\u{e9}".repeat(n / 2))));
    }
    out
}

pub fn oracle(c: &Case) -> Verdict {
    let r = match c {
        Case::F32(v) if v.is_infinite() => trip_or_error(v),
        Case::F64(v) if v.is_infinite() => trip_or_error(v),
        Case::I128(h, l) => trip_or_refuse(&(((*h as i128) << 64) | *l as i128)),
        Case::U128(h, l) => trip_or_refuse(&(((*h as u128) << 64) | *l as u128)),
        Case::I8(v) => trip(v, true),
        Case::I16(v) => trip(v, true),
        Case::I32(v) => trip(v, true),
        Case::I64(v) => trip(v, true),
        Case::U8(v) => trip(v, true),
        Case::U16(v) => trip(v, true),
        Case::U32(v) => trip(v, true),
        Case::U64(v) => trip(v, true),
        Case::F32(v) => trip(v, true),
        Case::F64(v) => trip(v, true),
        Case::Bool(v) => trip(v, true),
        Case::Char(v) => trip(v, true),
        Case::Str(v) => trip(v, true),
        Case::OptI64(v) => trip(v, true),
        Case::OptStr(v) => trip(v, true),
        Case::OptVec(v) => trip(v, true),
        Case::Unit(v) => trip(v, true),
        Case::OptAtomLike(a, b, c, d) => trip(&(a.clone(), b.clone(), *c, *d), true).and_then(|()| trip(d, true)).and_then(|()| trip(a, true)),
        Case::Tup1(v) => trip(v, true),
        Case::Tup2(v) => trip(v, true),
        Case::Tup4(v) => trip(v, true),
        Case::VecU8(v) => trip(v, true),
        Case::VecI64(v) => trip(v, true),
        Case::VecStr(v) => trip(v, true),
        Case::VecVec(v) => trip(v, true),
        Case::VecOpt(v) => trip(v, true),
        Case::HmStr(v) => trip(&v.iter().cloned().collect::<HashMap<String, i64>>(), false),
        Case::HmI64(v) => trip(&v.iter().cloned().collect::<HashMap<i64, String>>(), false),
        Case::HmU32(v) => trip(&v.iter().cloned().collect::<HashMap<u32, Vec<i64>>>(), false),
        Case::BmBool(v) => trip(&v.iter().cloned().collect::<BTreeMap<bool, u64>>(), true),
        Case::BmChar(v) => trip(&v.iter().cloned().collect::<BTreeMap<char, i32>>(), true),
        Case::Named(v) => trip(v, true),
        Case::Newtype(v) => trip(v, true),
        Case::TupleStruct(v) => trip(v, true),
        Case::UnitStruct(v) => trip(v, true),
        Case::Shape(v) => trip(v, true),
        Case::Deep(v) => trip(v, true),
        Case::Elixir(v) => trip(&v.real(), true).and_then(|()| {
            // a derived struct mapping refuses another struct's term and a term with a field missing
            let term = to_term(&v.real()).map_err(|e| ("to-term-error".to_string(), e.to_string()))?;
            let OwnedTerm::Map(m) = &term else { return Err(("derived-struct-not-a-map".into(), format!("{:?}", term))) };
            let tag = OwnedTerm::Atom(Atom::new("__struct__"));
            if m.get(&tag) != Some(&OwnedTerm::Atom(Atom::new("Elixir.Verif.User"))) {
                return Err(("derived-struct-tag-wrong".into(), format!("{:?}", m.get(&tag))));
            }
            let mut other = m.clone();
            other.insert(tag.clone(), OwnedTerm::Atom(Atom::new("Elixir.Verif.SomeoneElse")));
            if let Ok(u) = from_term::<ElixirUser>(&OwnedTerm::Map(other)) {
                return Err(("foreign-struct-accepted".into(), format!("a term tagged Elixir.Verif.SomeoneElse was read as {:?}", u)));
            }
            let mut short = m.clone();
            short.remove(&OwnedTerm::Atom(Atom::new("score")));
            if let Ok(u) = from_term::<ElixirUser>(&OwnedTerm::Map(short)) {
                return Err(("field-fabricated".into(), format!("a term without the field score was read as {:?}", u)));
            }
            Ok(())
        }),
        Case::ElixirWrap(u, s, n) => trip(&ElixirWrap { user: u.real(), shape: s.clone(), counts: n.clone(), r#type: n.len() as u16 + 1 }, true),
    };
    match r {
        Err((signature, detail)) => Verdict::Fail { signature, detail },
        Ok(()) => {
            let text = format!("{:?}", c);
            let beyond_i32 = match c {
                Case::I64(v) => *v > i32::MAX as i64 || *v < i32::MIN as i64,
                Case::U32(v) => *v > i32::MAX as u32,
                Case::U64(v) => *v > i32::MAX as u64,
                _ => false,
            };
            let nontrivial = beyond_i32
                || !text.is_ascii()
                || matches!(
                    c,
                    Case::Named(_) | Case::Deep(_) | Case::Shape(_) | Case::Elixir(_) | Case::ElixirWrap(..) | Case::TupleStruct(_) | Case::Tup2(_) | Case::Tup4(_)
                )
                || matches!(c, Case::OptAtomLike(a, b, c2, d) if a.iter().any(|x| x.is_some()) || b.is_some() || c2.is_some() || d.is_some())
                || matches!(c, Case::VecU8(v) if !v.is_empty())
                || matches!(c, Case::VecI64(v) if !v.is_empty())
                || matches!(c, Case::VecStr(v) if !v.is_empty())
                || matches!(c, Case::HmStr(v) if !v.is_empty())
                || matches!(c, Case::HmI64(v) if !v.is_empty())
                || matches!(c, Case::HmU32(v) if !v.is_empty());
            let info = if nontrivial { CaseInfo::nt(fp(&text)) } else { CaseInfo::trivial() };
            let kind: &'static str = match c {
                Case::I8(_) | Case::I16(_) | Case::I32(_) | Case::U8(_) | Case::U16(_) => "int:narrow",
                Case::I64(_) | Case::U32(_) | Case::U64(_) => "int:wide",
                Case::I128(..) | Case::U128(..) => "int:128-bit (round trip or refusal)",
                Case::F32(_) | Case::F64(_) => "float",
                Case::Bool(_) | Case::Unit(_) | Case::UnitStruct(_) => "unit-like",
                Case::Char(_) | Case::Str(_) => "text",
                Case::OptI64(_) | Case::OptStr(_) | Case::OptVec(_) => "option",
                Case::OptAtomLike(..) => "option-of-atom-like-payload",
                Case::Tup1(_) | Case::Tup2(_) | Case::Tup4(_) | Case::TupleStruct(_) | Case::Newtype(_) => "tuple-like",
                Case::VecU8(_) | Case::VecI64(_) | Case::VecStr(_) | Case::VecVec(_) | Case::VecOpt(_) => "seq",
                Case::HmStr(_) | Case::HmI64(_) | Case::HmU32(_) | Case::BmBool(_) | Case::BmChar(_) => "map",
                Case::Named(_) | Case::Deep(_) => "struct",
                Case::Shape(_) => "enum",
                Case::Elixir(_) | Case::ElixirWrap(..) => "elixir-struct",
            };
            Verdict::Pass(info.class(kind).class_if(beyond_i32, "beyond-i32"))
        }
    }
}

macro_rules! edge_int {
    ($t:ty, $($e:expr),*) => {
        prop_oneof![
            3 => prop::sample::select(vec![<$t>::MIN, <$t>::MAX, 0 as $t, 1 as $t, $($e as $t),*]),
            3 => any::<$t>(),
        ]
    };
}

fn s_i64() -> BoxedStrategy<i64> {
    edge_int!(
        i64,
        -1i64,
        127i64,
        128i64,
        255i64,
        256i64,
        32767i64,
        32768i64,
        2147483647i64,
        2147483648i64,
        -2147483648i64,
        -2147483649i64,
        4294967295i64,
        4294967296i64,
        9007199254740993i64,
        i64::MAX - 1,
        i64::MIN + 1
    )
    .boxed()
}
fn s_u64() -> BoxedStrategy<u64> {
    edge_int!(u64, 255u64, 256u64, 2147483647u64, 2147483648u64, 4294967295u64, 4294967296u64, (1u64 << 53) + 1, (1u64 << 63) - 1, 1u64 << 63, u64::MAX - 1).boxed()
}
fn s_u32() -> BoxedStrategy<u32> {
    edge_int!(u32, 255u32, 256u32, 65535u32, 65536u32, 2147483647u32, 2147483648u32, u32::MAX - 1).boxed()
}
fn s_f64() -> BoxedStrategy<f64> {
    crate::gen::arb_f64()
}
fn s_f32() -> BoxedStrategy<f32> {
    prop_oneof![
        prop::sample::select(vec![0.0f32, -0.0, 1.0, -1.5, f32::MIN_POSITIVE, f32::MAX, f32::MIN, 1e-45, 16777217.0, 0.1, f32::INFINITY, f32::NEG_INFINITY]),
        any::<u32>().prop_map(|b| {
            let f = f32::from_bits(b);
            if f.is_finite() {
                f
            } else {
                f32::from_bits(b & !(1 << 30))
            }
        }),
    ]
    .boxed()
}
fn s_char() -> BoxedStrategy<char> {
    prop_oneof![
        prop::sample::select(vec!['a', 'Z', '0', ' ', '\0', '\n', '\u{7f}', '\u{80}', 'é', 'ÿ', '\u{100}', 'λ', '中', '\u{ffff}', '\u{10000}', '🎉', '\u{10ffff}']),
        any::<char>(),
    ]
    .boxed()
}
fn s_string() -> BoxedStrategy<String> {
    prop_oneof![
        3 => prop::sample::select(vec!["", "a", "undefined", "nil", "true", "false", "ok", "héllo", "日本語", "🎉🎉", "with\0nul", "Elixir.Foo"]).prop_map(|s| s.to_string()),
        3 => "[ -~]{0,24}".prop_map(|s| s),
        2 => prop::collection::vec(s_char(), 0..8).prop_map(|v| v.into_iter().collect::<String>()),
        1 => Just("x".repeat(70000)),
    ]
    .boxed()
}

fn s_named() -> BoxedStrategy<Named> {
    (s_u64(), s_i64(), s_string(), s_f64(), any::<bool>(), prop::option::of(edge_int!(i32, 65536, -65536)), prop::collection::vec(any::<i16>(), 0..5))
        .prop_map(|(id, delta, name, ratio, flag, tag, items)| Named { id, delta, name, ratio, flag, tag, items })
        .boxed()
}

fn s_shape() -> BoxedStrategy<Shape> {
    prop_oneof![
        Just(Shape::Dot),
        s_f64().prop_map(Shape::Circle),
        (s_i64(), s_u32()).prop_map(|(a, b)| Shape::Rect(a, b)),
        (s_string(), any::<u16>(), prop::option::of(any::<i8>())).prop_map(|(text, size, pos)| Shape::Label { text, size, pos }),
        s_i64().prop_map(|v| Shape::Wrapped(Newtype(v))),
        prop::collection::vec(s_u64(), 0..4).prop_map(Shape::Many),
    ]
    .boxed()
}

fn s_eu() -> BoxedStrategy<EU> {
    (s_string(), s_u64(), s_i64(), prop::option::of(s_string()), prop::collection::vec(s_string(), 0..3), s_f64())
        .prop_map(|(name, age, score, email, tags, ratio)| EU { name, age, score, email, tags, ratio })
        .boxed()
}

fn dedup_keys<K: PartialEq + Clone, V: Clone>(v: Vec<(K, V)>) -> Vec<(K, V)> {
    let mut out: Vec<(K, V)> = vec![];
    for (k, x) in v {
        if !out.iter().any(|(k2, _)| *k2 == k) {
            out.push((k, x));
        }
    }
    out
}

fn strategy() -> impl Strategy<Value = Case> {
    let deep = (
        prop::collection::vec(s_shape(), 0..4),
        prop::collection::btree_map(s_string(), s_shape(), 0..3),
        prop::collection::btree_map(s_i64(), prop::collection::vec(prop::option::of(s_string()), 0..3), 0..3),
        (s_i64(), any::<u8>(), s_char()),
        prop::option::of(s_named()),
    )
        .prop_map(|(shapes, by_name, by_id, (a, b, c), inner)| Deep { shapes, by_name, by_id, pair: (Newtype(a), (b, c), UnitStruct), inner: inner.map(Box::new) });
    prop_oneof![
        prop_oneof![
            any::<i8>().prop_map(Case::I8),
            any::<i16>().prop_map(Case::I16),
            edge_int!(i32, 65535, 65536, -65536).prop_map(Case::I32),
            s_i64().prop_map(Case::I64),
            any::<u8>().prop_map(Case::U8),
            any::<u16>().prop_map(Case::U16),
            s_u32().prop_map(Case::U32),
            s_u64().prop_map(Case::U64),
            (prop_oneof![Just(0i64), Just(-1), Just(1), Just(i64::MAX), Just(i64::MIN), any::<i64>()], s_u64()).prop_map(|(h, l)| Case::I128(h, l)),
            (prop_oneof![Just(0u64), Just(1), Just(u64::MAX), any::<u64>()], s_u64()).prop_map(|(h, l)| Case::U128(h, l)),
            s_f32().prop_map(Case::F32),
            prop_oneof![12 => s_f64(), 1 => Just(f64::INFINITY), 1 => Just(f64::NEG_INFINITY)].prop_map(Case::F64),
        ],
        prop_oneof![
            any::<bool>().prop_map(Case::Bool),
            s_char().prop_map(Case::Char),
            s_string().prop_map(Case::Str),
            prop::option::of(s_i64()).prop_map(Case::OptI64),
            prop::option::of(s_string()).prop_map(Case::OptStr),
            prop::option::of(prop::collection::vec(s_u32(), 0..3)).prop_map(Case::OptVec),
            Just(Case::Unit(())),
            (prop::collection::vec(prop::option::of(Just(())), 0..4), prop::option::of(Just(UnitStruct)), prop::option::of(any::<bool>()), prop::option::of(Just(())))
                .prop_map(|(a, b, c, d)| Case::OptAtomLike(a, b, c, d)),
            s_i64().prop_map(|v| Case::Tup1((v,))),
            (s_u64(), s_string()).prop_map(Case::Tup2),
            (any::<i8>(), s_char(), s_f64(), any::<bool>()).prop_map(Case::Tup4),
        ],
        prop_oneof![
            prop::collection::vec(any::<u8>(), 0..20).prop_map(Case::VecU8),
            prop::collection::vec(s_i64(), 0..6).prop_map(Case::VecI64),
            prop::collection::vec(s_string(), 0..4).prop_map(Case::VecStr),
            prop::collection::vec(prop::collection::vec(any::<u16>(), 0..3), 0..4).prop_map(Case::VecVec),
            prop::collection::vec(prop::option::of(s_u64()), 0..5).prop_map(Case::VecOpt),
            prop::collection::vec((s_string(), s_i64()), 0..5).prop_map(|v| Case::HmStr(dedup_keys(v))),
            prop::collection::vec((s_i64(), s_string()), 0..5).prop_map(|v| Case::HmI64(dedup_keys(v))),
            prop::collection::vec((s_u32(), prop::collection::vec(s_i64(), 0..3)), 0..4).prop_map(|v| Case::HmU32(dedup_keys(v))),
            prop::collection::vec((any::<bool>(), s_u64()), 0..3).prop_map(|v| Case::BmBool(dedup_keys(v))),
            prop::collection::vec((s_char(), any::<i32>()), 0..4).prop_map(|v| Case::BmChar(dedup_keys(v))),
        ],
        prop_oneof![
            s_named().prop_map(Case::Named),
            s_i64().prop_map(|v| Case::Newtype(Newtype(v))),
            (s_u32(), s_string(), s_char()).prop_map(|(a, b, c)| Case::TupleStruct(TupleStruct(a, b, c))),
            Just(Case::UnitStruct(UnitStruct)),
            s_shape().prop_map(Case::Shape),
            deep.prop_map(Case::Deep),
            s_eu().prop_map(Case::Elixir),
            (s_eu(), s_shape(), prop::collection::vec(s_u32(), 0..4)).prop_map(|(u, s, n)| Case::ElixirWrap(u, s, n)),
        ],
    ]
}

pub fn run(run: &mut Run) {
    run.rule = "values of 38 representative Rust types (every integer width over its full range with boundaries 2^7..2^63, f32/f64 without NaN (infinities: round trip or an error, never another value), bool, char incl. non-BMP, strings incl. \
        'undefined'/'nil' as text, Option<T>, (), tuples, Vec<T>, HashMap/BTreeMap with String/i64/u32/bool/char keys, newtype/tuple/unit/named structs, enums with all four \
        variant shapes, derive(ElixirStruct) types, nestings; sequences and strings of 65534..200000 elements): to_term/from_term and to_bytes/from_bytes must return the original (floats by bits). Non-trivial = beyond i32, non-ASCII, \
        non-empty collection or structured type; distinct by value"
        .into();
    run.assumptions = vec![
        "excluded as the statement says: Option<Option<T>>, Option<()>, NaN; also enum variants / unit structs literally named undefined or nil inside an Option".into(),
        "map keys are deduplicated by the generator (a Rust map cannot hold duplicates)".into(),
    ];
    run.enumerate("long-sequences", long_sequences().into_iter(), oracle);
    run.prop("round-trip", strategy, run.tier.pick(80_000, 3_000_000), oracle);
    // the round trip does not depend on what the same thread was made to decode (and reject) before
    run.prop("round-trip-after-rejections", after_strategy, run.tier.pick(1_500, 60_000), after_oracle);
}

#[derive(Clone, Debug, Serialize, Deserialize)]
pub struct AfterCase {
    pub before: Vec<(crate::props::c03::Junk, u8)>,
    pub value: Case,
}

pub fn after_oracle(c: &AfterCase) -> Verdict {
    let mut rejected = 0usize;
    for (j, rep) in &c.before {
        let b = crate::props::c03::junk_bytes(j);
        for _ in 0..(*rep).max(1) {
            rejected += erltf::decode(&b).is_err() as usize;
            let _ = erltf::decode_borrowed(&b);
        }
    }
    match oracle(&c.value) {
        Verdict::Pass(i) => Verdict::Pass(if rejected > 0 { i.class("after-rejections") } else { CaseInfo::trivial() }),
        Verdict::Fail { signature, detail } => {
            // the same value on a fresh thread tells a history dependence from a plain round-trip defect
            let v = c.value.clone();
            let fresh = std::thread::Builder::new().stack_size(32 << 20).spawn(move || matches!(oracle(&v), Verdict::Pass(_))).expect("spawn").join().unwrap_or(false);
            if fresh {
                Verdict::Fail { signature: "round-trip-depends-on-earlier-decodes".into(), detail: format!("after {rejected} rejected inputs on the same thread: {signature}: {detail}") }
            } else {
                Verdict::Fail { signature, detail }
            }
        }
        other => other,
    }
}

fn after_strategy() -> impl Strategy<Value = AfterCase> {
    (crate::props::c03::after_strategy(), strategy()).prop_map(|(a, value)| AfterCase { before: a.before, value })
}

pub fn replays() -> Vec<ReplayEntry> {
    vec![replay_entry("round-trip", oracle), replay_entry("long-sequences", oracle), replay_entry("round-trip-after-rejections", after_oracle)]
}

//! C04 — handshake: connected only after cookie proof; flags are the intersection; exact layouts.

use crate::engine::{fp, no_panic, replay_entry, CaseInfo, ReplayEntry, Run, Verdict};
use crate::netbed::{advance, library_panics_since, panic_mark, run_case, BedErr};
use crate::vfail;
use edp_client::flags::DistributionFlags;
use edp_client::state_machine::HandshakeStateMachine;
use edp_client::{Connection, ConnectionConfig, ConnectionState};
use proptest::prelude::*;
use refmodel::md5::handshake_digest;
use refmodel::proto;
use serde::{Deserialize, Serialize};
use std::time::Duration;

// ------------------------------------------------------------------------------------------------
// (a) API histories

#[derive(Clone, Debug, Serialize, Deserialize, PartialEq)]
pub enum AckArg {
    /// digest for the challenge learnt from the latest reply
    Current,
    /// digest for the k-th most recent earlier challenge
    Previous(u8),
    Never(u32),
    WrongCookie,
    Truncated(u8),
    WrongTag,
    Raw(Vec<u8>),
    /// the right digest with one bit flipped (bit index 0..127), or with its first / second half replaced
    NearMiss(u8),
}

#[derive(Clone, Debug, Serialize, Deserialize, PartialEq)]
pub enum Op {
    Begin,
    SendName,
    Status(String),
    StatusRaw(Vec<u8>),
    Complement,
    Challenge { flags: u64, challenge: u32, creation: u32, name: String, cut: Option<u8>, wrong_tag: bool, name_len_lie: Option<u16> },
    Reply,
    Ack(AckArg),
    Disconnect,
}

#[derive(Clone, Debug, Serialize, Deserialize)]
pub struct ApiCase {
    pub cookie: String,
    pub local: String,
    pub flags: u64,
    pub creation: u32,
    pub ops: Vec<Op>,
}

pub fn api_oracle(c: &ApiCase) -> Verdict {
    let mut sm = HandshakeStateMachine::new(c.local.clone(), "peer@127.0.0.1".into(), c.cookie.clone(), DistributionFlags::new(c.flags), c.creation);
    let cookie = c.cookie.as_bytes();
    // model
    let mut issued: Option<u32> = None; // our challenge as revealed by the latest 'r' of this handshake
    let mut earlier: Vec<u32> = vec![];
    let mut peer_challenge: Option<u32> = None;
    let mut theirs: Option<u64> = None;
    let mut reached_ack = false;
    let mut out_of_order = false;
    let mut connected_count = 0;
    for (i, op) in c.ops.iter().enumerate() {
        let before = sm.state();
        macro_rules! np {
            ($e:expr) => {
                match no_panic(|| $e) {
                    Ok(v) => v,
                    Err(p) => vfail!("handshake-api-panics", "step {i} {:?}: {p}", op),
                }
            };
        }
        let mut proved = false;
        match op {
            Op::Begin => {
                let _ = np!(sm.begin_connect());
            }
            Op::SendName => {
                let r = np!(sm.prepare_send_name());
                match r {
                    Ok(bytes) => {
                        // 2-byte length, then 'n' Version(2)=5 Flags(4) Name
                        let mut d = proto::Deframer::default();
                        d.push(&bytes);
                        let Some(p) = d.next(2) else { vfail!("send-name-layout", "step {i}: not a complete 2-byte-length frame: {:?}", bytes) };
                        if !d.buf.is_empty() {
                            vfail!("send-name-layout", "step {i}: bytes after the frame");
                        }
                        match proto::parse_send_name(&p) {
                            Ok(proto::SendName::Old { version, flags, name }) => {
                                if version != 5 || flags != c.flags as u32 || name != c.local.as_bytes() {
                                    vfail!("send-name-layout", "step {i}: version {version} flags {flags:#x} name {:?}; expected 5, {:#x}, {:?}", String::from_utf8_lossy(&name), c.flags as u32, c.local);
                                }
                            }
                            Ok(proto::SendName::New { flags, creation, name }) => {
                                if flags != c.flags || creation != c.creation || name != c.local.as_bytes() {
                                    vfail!("send-name-layout", "step {i}: new-style name with wrong fields");
                                }
                            }
                            Err(e) => vfail!("send-name-layout", "step {i}: {e}"),
                        }
                    }
                    Err(_) => {
                        if c.local.len() <= 255 {
                            vfail!("send-name-refused", "step {i}: a {}-byte node name was refused", c.local.len());
                        }
                    }
                }
            }
            Op::Status(s) => {
                let r = np!(sm.handle_status(&proto::status(s)));
                let ok = s == "ok" || s == "ok_simultaneous";
                if r.is_ok() != ok {
                    vfail!("status-handling", "step {i}: status {:?} gave {:?}", s, r.is_ok());
                }
            }
            Op::StatusRaw(b) => {
                let r = np!(sm.handle_status(b));
                let ok = b == b"sok" || b == b"sok_simultaneous";
                if r.is_ok() && !ok {
                    vfail!("status-handling", "step {i}: malformed status {:?} accepted", b);
                }
            }
            Op::Complement => {
                let r = np!(sm.prepare_complement());
                if let Ok(bytes) = r {
                    let mut d = proto::Deframer::default();
                    d.push(&bytes);
                    let Some(p) = d.next(2) else { vfail!("complement-layout", "step {i}: not a frame") };
                    match proto::parse_complement(&p) {
                        Ok((hi, cr)) if hi == (c.flags >> 32) as u32 && cr == c.creation && d.buf.is_empty() => {}
                        other => vfail!("complement-layout", "step {i}: {:?}, expected high flags {:#x} creation {}", other, c.flags >> 32, c.creation),
                    }
                }
            }
            Op::Challenge { flags, challenge, creation, name, cut, wrong_tag, name_len_lie } => {
                let mut m = proto::challenge_new(*flags, *challenge, *creation, name.as_bytes());
                let mut well_formed = true;
                if *wrong_tag {
                    m[0] = b'n';
                    well_formed = false;
                }
                if let Some(l) = name_len_lie {
                    m[17..19].copy_from_slice(&l.to_be_bytes());
                    if *l as usize > name.len() {
                        well_formed = false;
                    }
                }
                if let Some(k) = cut {
                    let n = (*k as usize * m.len()) >> 8;
                    if n < 19 {
                        well_formed = false;
                    }
                    let declared = if let Some(l) = name_len_lie { *l as usize } else { name.len() };
                    if n < 19 + declared {
                        well_formed = false;
                    }
                    m.truncate(n);
                }
                if let Some(l) = name_len_lie {
                    // a shortened name may end inside a multi-byte character
                    if (*l as usize) <= name.len() && std::str::from_utf8(&name.as_bytes()[..*l as usize]).is_err() {
                        well_formed = false;
                    }
                }
                let r = np!(sm.handle_challenge(&m));
                match r {
                    Ok(()) => {
                        if !well_formed && *wrong_tag {
                            vfail!("malformed-challenge-accepted", "step {i}: challenge with tag 'n' accepted");
                        }
                        if let Some(x) = issued.take() {
                            earlier.push(x);
                        }
                        peer_challenge = Some(*challenge);
                        theirs = Some(*flags);
                        let nf = sm.negotiated_flags().map(|f| f.as_u64());
                        if nf != Some(c.flags & flags) {
                            vfail!("negotiated-flags-not-intersection", "step {i}: ours {:#x} theirs {:#x} negotiated {:?}", c.flags, flags, nf);
                        }
                    }
                    Err(_) => {
                        if well_formed {
                            vfail!("well-formed-challenge-rejected", "step {i}: {:?}", op);
                        }
                    }
                }
            }
            Op::Reply => {
                let r = np!(sm.prepare_challenge_reply());
                match r {
                    Ok(bytes) => {
                        let mut d = proto::Deframer::default();
                        d.push(&bytes);
                        let Some(p) = d.next(2) else { vfail!("reply-layout", "step {i}: not a frame") };
                        let Ok((ours, digest)) = proto::parse_reply(&p) else { vfail!("reply-layout", "step {i}: {:?}", p) };
                        if !d.buf.is_empty() {
                            vfail!("reply-layout", "step {i}: bytes after the frame");
                        }
                        let Some(pc) = peer_challenge else { vfail!("reply-without-challenge", "step {i}: a reply was produced although no challenge was accepted in this handshake") };
                        if digest != handshake_digest(cookie, pc) {
                            vfail!("reply-digest-wrong", "step {i}: reply digest is not MD5(cookie ++ {pc})");
                        }
                        if let Some(x) = issued {
                            if x != ours {
                                earlier.push(x);
                            }
                        }
                        issued = Some(ours);
                    }
                    Err(_) => {
                        if peer_challenge.is_some() {
                            vfail!("reply-refused", "step {i}: a challenge was accepted but no reply could be prepared");
                        }
                    }
                }
            }
            Op::Ack(a) => {
                reached_ack = true;
                let (msg, correct): (Vec<u8>, bool) = match a {
                    AckArg::Current => match issued {
                        Some(x) => (proto::ack(&handshake_digest(cookie, x)), true),
                        None => (proto::ack(&[0; 16]), false),
                    },
                    AckArg::Previous(k) => match earlier.iter().rev().nth(*k as usize) {
                        Some(x) => (proto::ack(&handshake_digest(cookie, *x)), Some(*x) == issued),
                        None => (proto::ack(&[1; 16]), false),
                    },
                    AckArg::Never(x) => (proto::ack(&handshake_digest(cookie, *x)), Some(*x) == issued),
                    AckArg::WrongCookie => (proto::ack(&handshake_digest(format!("{}x", c.cookie).as_bytes(), issued.unwrap_or(7))), false),
                    AckArg::Truncated(n) => {
                        let mut m = proto::ack(&handshake_digest(cookie, issued.unwrap_or(7)));
                        m.truncate((*n as usize) % 17);
                        (m, false)
                    }
                    AckArg::WrongTag => {
                        let mut m = proto::ack(&handshake_digest(cookie, issued.unwrap_or(7)));
                        m[0] = b'r';
                        (m, false)
                    }
                    AckArg::Raw(b) => (b.clone(), false),
                    AckArg::NearMiss(k) => {
                        let mut d = handshake_digest(cookie, issued.unwrap_or(7));
                        match *k {
                            0..=127 => d[(*k / 8) as usize] ^= 1 << (*k % 8),
                            128..=191 => d[..8].copy_from_slice(&[0x5A; 8]),
                            _ => d[8..].copy_from_slice(&[0xA5; 8]),
                        }
                        (proto::ack(&d), false)
                    }
                };
                let r = np!(sm.handle_challenge_ack(&msg));
                if correct {
                    proved = true;
                    if r.is_err() || sm.state() != ConnectionState::Connected {
                        vfail!("correct-ack-rejected", "step {i}: ack with MD5(cookie ++ our challenge) gave {:?}, state {}", r.err().map(|e| e.to_string()), sm.state());
                    }
                } else if r.is_ok() {
                    vfail!("connected-without-proof", "step {i}: {:?} was accepted although it does not carry MD5(cookie ++ the challenge issued in this handshake)", a);
                }
            }
            Op::Disconnect => {
                np!(sm.disconnect());
                if let Some(x) = issued.take() {
                    earlier.push(x);
                }
                peer_challenge = None;
                theirs = None;
                if sm.state() != ConnectionState::Disconnected || sm.negotiated_flags().is_some() {
                    vfail!("disconnect-incomplete", "step {i}: state {} flags {:?}", sm.state(), sm.negotiated_flags());
                }
            }
        }
        let after = sm.state();
        if after == ConnectionState::Connected && before != ConnectionState::Connected {
            connected_count += 1;
            if !proved {
                vfail!("connected-without-proof", "step {i} {:?}: state became Connected without a correct acknowledgement for this handshake's challenge", op);
            }
        }
        if let (Some(t), Some(nf)) = (theirs, sm.negotiated_flags()) {
            if nf.as_u64() != (c.flags & t) {
                vfail!("negotiated-flags-not-intersection", "step {i}: {:#x}", nf.as_u64());
            }
        }
        if i > 0 && matches!(op, Op::Ack(_) | Op::Reply) && peer_challenge.is_none() {
            out_of_order = true;
        }
    }
    let nontrivial = reached_ack || out_of_order;
    let info = if nontrivial { CaseInfo::nt(fp(&format!("{:?}", c))) } else { CaseInfo::trivial() };
    Verdict::Pass(
        info.class("api-history")
            .class_if(connected_count > 0, "api:reached-connected")
            .class_if(connected_count > 1, "api:reconnected")
            .class_if(out_of_order, "api:out-of-order-call")
            .class_if(c.ops.iter().any(|o| matches!(o, Op::Disconnect)), "api:disconnect"),
    )
}

fn arb_cookie() -> BoxedStrategy<String> {
    prop_oneof![
        3 => "[A-Za-z0-9]{1,20}".prop_map(|s| s),
        1 => Just(String::new()),
        1 => Just("c".repeat(300)),
        1 => Just("кука-🍪".to_string()),
        1 => "[ -~]{0,40}".prop_map(|s| s),
    ]
    .boxed()
}

fn arb_node_name() -> BoxedStrategy<String> {
    prop_oneof![
        4 => "[a-z]{1,8}@[a-z0-9.]{1,10}".prop_map(|s| s),
        1 => Just(format!("{}@h", "n".repeat(253))),
        1 => Just("é@ü".to_string()),
        1 => Just("a@b".to_string()),
    ]
    .boxed()
}

fn arb_flags() -> BoxedStrategy<u64> {
    prop_oneof![
        3 => Just(DistributionFlags::default().as_u64()),
        1 => Just(DistributionFlags::default().as_u64() | DistributionFlags::DIST_HDR_ATOM_CACHE.as_u64()),
        3 => any::<u64>(),
        1 => Just(u64::MAX),
        1 => Just(0),
        1 => any::<u32>().prop_map(|x| (x as u64) << 32),
    ]
    .boxed()
}

fn api_strategy() -> impl Strategy<Value = ApiCase> {
    let ch = (arb_flags(), prop_oneof![any::<u32>(), Just(0u32), Just(u32::MAX)], any::<u32>(), arb_node_name(), prop::option::weighted(0.15, any::<u8>()), prop::bool::weighted(0.05), prop::option::weighted(0.08, prop_oneof![Just(0u16), Just(300), Just(65535), 0u16..20]))
        .prop_map(|(flags, challenge, creation, name, cut, wrong_tag, name_len_lie)| Op::Challenge { flags, challenge, creation, name, cut, wrong_tag, name_len_lie });
    let ack = prop_oneof![
        6 => Just(AckArg::Current),
        3 => (0u8..4).prop_map(AckArg::Previous),
        2 => any::<u32>().prop_map(AckArg::Never),
        1 => Just(AckArg::WrongCookie),
        1 => any::<u8>().prop_map(AckArg::Truncated),
        1 => Just(AckArg::WrongTag),
        1 => prop::collection::vec(any::<u8>(), 0..24).prop_map(AckArg::Raw),
        2 => any::<u8>().prop_map(AckArg::NearMiss),
    ];
    let op = prop_oneof![
        2 => Just(Op::Begin),
        2 => Just(Op::SendName),
        2 => prop::sample::select(vec!["ok", "ok_simultaneous", "nok", "not_allowed", "alive", "", "OK", "okay"]).prop_map(|s| Op::Status(s.to_string())),
        1 => prop::collection::vec(any::<u8>(), 0..10).prop_map(Op::StatusRaw),
        2 => Just(Op::Complement),
        5 => ch,
        5 => Just(Op::Reply),
        6 => ack.prop_map(Op::Ack),
        2 => Just(Op::Disconnect),
    ];
    // a conforming handshake skeleton with random extra ops spliced in, or a fully random history
    let skeleton = (any::<u64>(), any::<u32>(), any::<u32>()).prop_map(|(f, ch, cr)| {
        vec![
            Op::Begin,
            Op::SendName,
            Op::Status("ok".into()),
            Op::Complement,
            Op::Challenge { flags: f, challenge: ch, creation: cr, name: "peer@h".into(), cut: None, wrong_tag: false, name_len_lie: None },
            Op::Reply,
            Op::Ack(AckArg::Current),
        ]
    });
    let ops = prop_oneof![
        2 => prop::collection::vec(op.clone(), 0..30),
        3 => (skeleton, prop::collection::vec((any::<u8>(), op), 0..10), prop::bool::weighted(0.4)).prop_map(|(mut sk, extra, twice)| {
            if twice {
                let mut again = sk.clone();
                again.insert(0, Op::Disconnect);
                sk.extend(again);
            }
            for (pos, o) in extra {
                let at = (pos as usize * (sk.len() + 1)) >> 8;
                sk.insert(at, o);
            }
            sk
        }),
    ];
    (arb_cookie(), arb_node_name(), arb_flags(), any::<u32>(), ops).prop_map(|(cookie, local, flags, creation, ops)| ApiCase { cookie, local, flags, creation, ops })
}

// ------------------------------------------------------------------------------------------------
// (b) wire level: Connection::connect against a scripted responder

#[derive(Clone, Debug, Serialize, Deserialize, PartialEq)]
pub enum Deviation {
    None,
    /// what to send instead of status "ok"
    Status(String),
    StatusRaw(Vec<u8>),
    ChallengeWrongTag,
    ChallengeTruncated(u8),
    ChallengeNameLenLie(u16),
    AckBeforeChallenge,
    AckWrongDigest,
    AckForOwnChallenge,
    AckTruncated(u8),
    AckWrongTag,
    /// declare a frame of this length and send only `sent` bytes, then go silent
    OversizedFrame { step: u8, declared: u16, sent: u8 },
    CloseAt(u8),
    SilentAt(u8),
    ResetAt(u8),
}

#[derive(Clone, Debug, Serialize, Deserialize)]
pub struct WireCase {
    pub cookie: String,
    pub local: String,
    pub our_flags: u64,
    pub their_flags: u64,
    pub challenge: u32,
    pub their_creation: u32,
    pub our_creation: u32,
    pub timeout_ms: u32,
    pub deviation: Deviation,
    pub segment: u8,
}

struct WireOutcome {
    result: Result<(), String>,
    state: ConnectionState,
    negotiated: Option<u64>,
    frames: Vec<Vec<u8>>,
    virtual_ms: u128,
    peer_note: String,
}

fn wire_run(c: &WireCase) -> Result<WireOutcome, BedErr> {
    let c = c.clone();
    run_case(Duration::from_secs(20), move |bed| async move {
        let listener = bed.listen("peer").await.expect("listen");
        let cfg = ConnectionConfig::new(c.local.clone(), "peer@127.0.0.1", c.cookie.clone())
            .with_flags(DistributionFlags::new(c.our_flags))
            .with_creation(c.our_creation)
            .with_epmd_host("127.0.0.1")
            .with_timeout(Duration::from_millis(c.timeout_ms as u64));
        let mut conn = Connection::new(cfg);
        let t0 = tokio::time::Instant::now();
        let cookie = c.cookie.clone().into_bytes();
        let dev = c.deviation.clone();
        let timeout = Duration::from_millis(c.timeout_ms as u64);
        let done = std::cell::Cell::new(false);
        let done = &done;
        let peer = async {
            let mut frames: Vec<Vec<u8>> = vec![];
            let mut note = String::new();
            let Ok(mut p) = listener.accept().await else { return (frames, "accept failed".to_string()) };
            // step 0: before reading the name; 1: instead of status; 2: instead of challenge; 3: instead of ack
            let silent = |p: &mut crate::netbed::PeerConn| {
                let _ = p;
            };
            let _ = silent;
            macro_rules! go_silent {
                () => {{
                    // let the library consume everything, then let virtual time pass beyond its timeout
                    p.settle().await;
                    for _ in 0..8 {
                        if done.get() {
                            break;
                        }
                        advance(timeout + Duration::from_millis(1)).await;
                        p.poll_in();
                        if p.eof {
                            break;
                        }
                    }
                    note = "went silent".into();
                    while let Some(f) = p.deframer.next(2) {
                        frames.push(f);
                    }
                    return (frames, note);
                }};
            }
            macro_rules! close {
                ($reset:expr) => {{
                    p.poll_in();
                    while let Some(f) = p.deframer.next(2) {
                        frames.push(f);
                    }
                    if $reset {
                        drop(p);
                    } else {
                        p.close_gracefully();
                    }
                    return (frames, "closed".to_string());
                }};
            }
            let at = |step: u8| -> Option<&'static str> {
                match &dev {
                    Deviation::CloseAt(s) if *s % 4 == step => Some("close"),
                    Deviation::ResetAt(s) if *s % 4 == step => Some("reset"),
                    Deviation::SilentAt(s) if *s % 4 == step => Some("silent"),
                    Deviation::OversizedFrame { step: s, .. } if *s % 3 + 1 == step => Some("oversized"),
                    _ => None,
                }
            };
            macro_rules! maybe_fault {
                ($step:expr) => {
                    match at($step) {
                        Some("close") => close!(false),
                        Some("reset") => close!(true),
                        Some("silent") => go_silent!(),
                        Some("oversized") => {
                            if let Deviation::OversizedFrame { declared, sent, .. } = &dev {
                                let mut m = declared.to_be_bytes().to_vec();
                                m.extend(std::iter::repeat(b's').take((*sent as usize).min(*declared as usize)));
                                let _ = p.write(&m).await;
                            }
                            go_silent!()
                        }
                        _ => {}
                    }
                };
            }
            maybe_fault!(0);
            let Some(n) = p.read_frame_until(2, done).await else { return (frames, "eof before name".to_string()) };
            frames.push(n);
            // status
            maybe_fault!(1);
            match &dev {
                Deviation::Status(s) => {
                    let _ = p.write(&proto::frame2(&proto::status(s))).await;
                }
                Deviation::StatusRaw(b) => {
                    let _ = p.write(&proto::frame2(b)).await;
                }
                _ => {
                    let _ = p.write(&proto::frame2(&proto::status("ok"))).await;
                }
            }
            // challenge
            maybe_fault!(2);
            let mut ch = proto::challenge_new(c.their_flags, c.challenge, c.their_creation, b"peer@127.0.0.1");
            match &dev {
                Deviation::ChallengeWrongTag => ch[0] = b'x',
                Deviation::ChallengeTruncated(k) => {
                    let n = (*k as usize * ch.len()) >> 8;
                    ch.truncate(n);
                }
                Deviation::ChallengeNameLenLie(l) => ch[17..19].copy_from_slice(&l.to_be_bytes()),
                Deviation::AckBeforeChallenge => {
                    let _ = p.write(&proto::frame2(&proto::ack(&handshake_digest(&cookie, c.challenge)))).await;
                }
                _ => {}
            }
            let framed = proto::frame2(&ch);
            let cut = (c.segment as usize * framed.len()) >> 8;
            let _ = p.write_segmented(&framed, &[cut]).await;
            // complement and reply
            let mut their_challenge = None;
            for _ in 0..2 {
                p.settle().await;
                let Some(f) = p.read_frame_until(2, done).await else { break };
                let is_reply = f.first() == Some(&b'r');
                if is_reply {
                    their_challenge = proto::parse_reply(&f).ok().map(|x| x.0);
                }
                frames.push(f);
                if is_reply {
                    break;
                }
            }
            let Some(tc) = their_challenge else { return (frames, "no reply received".to_string()) };
            maybe_fault!(3);
            let ack = match &dev {
                Deviation::AckWrongDigest => proto::ack(&handshake_digest(&cookie, tc.wrapping_add(1))),
                Deviation::AckForOwnChallenge => proto::ack(&handshake_digest(&cookie, c.challenge)),
                Deviation::AckTruncated(k) => {
                    let mut a = proto::ack(&handshake_digest(&cookie, tc));
                    a.truncate(*k as usize % 17);
                    a
                }
                Deviation::AckWrongTag => {
                    let mut a = proto::ack(&handshake_digest(&cookie, tc));
                    a[0] = b's';
                    a
                }
                _ => proto::ack(&handshake_digest(&cookie, tc)),
            };
            let _ = p.write(&proto::frame2(&ack)).await;
            p.settle().await;
            note = "script completed".into();
            // keep the socket open until the initiator has decided
            for _ in 0..3 {
                advance(Duration::from_millis(1)).await;
            }
            p.poll_in();
            while let Some(f) = p.deframer.next(2) {
                frames.push(f);
            }
            drop(p);
            (frames, note)
        };
        let timed = async {
            let r = conn.connect().await;
            done.set(true);
            (r, t0.elapsed().as_millis())
        };
        let ((res, virtual_ms), (frames, peer_note)) = tokio::join!(timed, peer);
        WireOutcome {
            result: res.map_err(|e| e.to_string()),
            state: conn.state(),
            negotiated: conn.negotiated_flags().map(|f| f.as_u64()),
            frames,
            virtual_ms,
            peer_note,
        }
    })
}

/// Some(true): the peer conforms and proves the cookie; Some(false): it must not end Connected; None: either
fn conforming(c: &WireCase) -> Option<bool> {
    match &c.deviation {
        Deviation::None => Some(true),
        Deviation::Status(s) => Some(s == "ok" || s == "ok_simultaneous"),
        Deviation::StatusRaw(b) => Some(b == b"sok" || b == b"sok_simultaneous"),
        // a name length shorter than the name leaves trailing bytes in the challenge: the peer still proves the cookie
        Deviation::ChallengeNameLenLie(l) => {
            if *l as usize <= b"peer@127.0.0.1".len() {
                None
            } else {
                Some(false)
            }
        }
        _ => Some(false),
    }
}

pub fn wire_oracle(c: &WireCase) -> Verdict {
    let mark = panic_mark();
    let out = match wire_run(c) {
        Ok(o) => o,
        Err(BedErr::RealTimeCap) => vfail!("connect-hangs", "connect() neither returned nor timed out although virtual time moved past its timeouts (deviation {:?})", c.deviation),
        Err(BedErr::Setup(e)) => vfail!("harness:netbed", "{e}"),
    };
    let panics = library_panics_since(mark);
    if !panics.is_empty() {
        vfail!("panic", "library panicked during the handshake: {:?}", panics);
    }
    let should_connect = conforming(c);
    let should_connect = match should_connect {
        Some(b) => b,
        None => out.result.is_ok(),
    };
    match (&out.result, should_connect) {
        (Ok(()), true) => {
            if out.state != ConnectionState::Connected {
                vfail!("connect-ok-but-not-connected", "state {}", out.state);
            }
            if out.negotiated != Some(c.our_flags & c.their_flags) {
                vfail!("negotiated-flags-not-intersection", "ours {:#x} theirs {:#x} negotiated {:?}", c.our_flags, c.their_flags, out.negotiated);
            }
        }
        (Ok(()), false) => vfail!("connected-without-proof", "connect() succeeded although the peer deviated: {:?} (peer: {})", c.deviation, out.peer_note),
        (Err(e), true) => vfail!("conforming-handshake-failed", "{e} (peer: {}; frames {:?})", out.peer_note, out.frames.iter().map(|f| f.len()).collect::<Vec<_>>()),
        (Err(_), false) => {
            if out.state == ConnectionState::Connected {
                vfail!("connected-without-proof", "connect() failed but the state is Connected ({:?})", c.deviation);
            }
            // error within the configured timeout: at most one timeout per awaited step (3 reads + connect)
            let budget = 5 * c.timeout_ms as u128 + 50;
            if out.virtual_ms > budget {
                vfail!("error-later-than-timeout", "connect() needed {} virtual ms with a {} ms timeout ({:?})", out.virtual_ms, c.timeout_ms, c.deviation);
            }
        }
    }
    // layouts and order of what the initiator wrote: n, c, r
    let mut kinds = String::new();
    for f in &out.frames {
        match f.first() {
            Some(b'n') => match proto::parse_send_name(f) {
                Ok(proto::SendName::Old { version, flags, name }) if version == 5 && flags == c.our_flags as u32 && name == c.local.as_bytes() => kinds.push('n'),
                other => vfail!("send-name-layout", "{:?}", other),
            },
            Some(b'N') => match proto::parse_send_name(f) {
                Ok(proto::SendName::New { flags, creation, name }) if flags == c.our_flags && creation == c.our_creation && name == c.local.as_bytes() => kinds.push('N'),
                other => vfail!("send-name-layout", "{:?}", other),
            },
            Some(b'c') => match proto::parse_complement(f) {
                Ok((hi, cr)) if hi == (c.our_flags >> 32) as u32 && cr == c.our_creation => kinds.push('c'),
                other => vfail!("complement-layout", "{:?}", other),
            },
            Some(b'r') => match proto::parse_reply(f) {
                Ok((_, d)) if d == handshake_digest(c.cookie.as_bytes(), c.challenge) => kinds.push('r'),
                other => vfail!("reply-digest-wrong", "reply {:?} is not MD5(cookie ++ {})", other.map(|x| x.0), c.challenge),
            },
            other => vfail!("unexpected-handshake-message", "initiator wrote a message with tag {:?}", other),
        }
    }
    if !["", "n", "nc", "ncr", "nr", "N", "Nr"].contains(&kinds.as_str()) {
        vfail!("handshake-message-order", "initiator wrote {:?}", kinds);
    }
    if out.result.is_ok() && !kinds.ends_with('r') {
        vfail!("connected-without-reply", "initiator wrote {:?}", kinds);
    }
    let deviated = c.deviation != Deviation::None;
    Verdict::Pass(
        CaseInfo::nt(fp(&format!("{:?}", c)))
            .class("wire")
            .class_if(deviated, "wire:deviation")
            .class_if(matches!(c.deviation, Deviation::SilentAt(_) | Deviation::OversizedFrame { .. }), "wire:silence")
            .class_if(out.result.is_ok(), "wire:connected"),
    )
}

fn wire_strategy() -> impl Strategy<Value = WireCase> {
    let dev = prop_oneof![
        4 => Just(Deviation::None),
        2 => prop::sample::select(vec!["nok", "not_allowed", "alive", "ok_simultaneous", "", "OK", "garbage"]).prop_map(|s| Deviation::Status(s.to_string())),
        1 => prop::collection::vec(any::<u8>(), 0..12).prop_map(Deviation::StatusRaw),
        1 => Just(Deviation::ChallengeWrongTag),
        1 => any::<u8>().prop_map(Deviation::ChallengeTruncated),
        1 => prop_oneof![Just(0u16), Just(13), Just(14), Just(15), Just(300), Just(65535)].prop_map(Deviation::ChallengeNameLenLie),
        1 => Just(Deviation::AckBeforeChallenge),
        2 => Just(Deviation::AckWrongDigest),
        2 => Just(Deviation::AckForOwnChallenge),
        1 => any::<u8>().prop_map(Deviation::AckTruncated),
        1 => Just(Deviation::AckWrongTag),
        1 => (any::<u8>(), prop_oneof![Just(100u16), Just(65535), 20u16..400], 0u8..30).prop_map(|(step, declared, sent)| Deviation::OversizedFrame { step, declared, sent }),
        2 => any::<u8>().prop_map(Deviation::CloseAt),
        2 => any::<u8>().prop_map(Deviation::SilentAt),
        1 => any::<u8>().prop_map(Deviation::ResetAt),
    ];
    (arb_cookie(), arb_node_name(), arb_flags(), arb_flags(), prop_oneof![any::<u32>(), Just(0u32), Just(u32::MAX)], any::<u32>(), any::<u32>(), prop_oneof![Just(1000u32), Just(50), 100u32..20_000], dev, any::<u8>())
        .prop_map(|(cookie, local, our_flags, their_flags, challenge, their_creation, our_creation, timeout_ms, deviation, segment)| WireCase {
            cookie,
            local,
            our_flags,
            their_flags,
            challenge,
            their_creation,
            our_creation,
            timeout_ms,
            deviation,
            segment,
        })
}

fn all_deviations() -> Vec<WireCase> {
    let base = WireCase {
        cookie: "secret".into(),
        local: "rust@127.0.0.1".into(),
        our_flags: DistributionFlags::default().as_u64(),
        their_flags: DistributionFlags::default().as_u64() | 0x2000,
        challenge: 0,
        their_creation: 7,
        our_creation: 3,
        timeout_ms: 2000,
        deviation: Deviation::None,
        segment: 128,
    };
    let mut devs = vec![Deviation::None, Deviation::ChallengeWrongTag, Deviation::AckBeforeChallenge, Deviation::AckWrongDigest, Deviation::AckForOwnChallenge, Deviation::AckWrongTag];
    for s in ["nok", "not_allowed", "alive", "ok_simultaneous", "bogus"] {
        devs.push(Deviation::Status(s.into()));
    }
    for k in [0u8, 40, 128, 250] {
        devs.push(Deviation::ChallengeTruncated(k));
        devs.push(Deviation::AckTruncated(k));
    }
    for step in 0..4u8 {
        devs.push(Deviation::CloseAt(step));
        devs.push(Deviation::SilentAt(step));
        devs.push(Deviation::ResetAt(step));
    }
    for step in 0..3u8 {
        devs.push(Deviation::OversizedFrame { step, declared: 65535, sent: 5 });
    }
    let mut out = vec![];
    for d in devs {
        for ch in [0u32, 1, 4294967295, 123456789] {
            let mut c = base.clone();
            c.deviation = d.clone();
            c.challenge = ch;
            out.push(c);
        }
    }
    out
}

pub fn run(run: &mut Run) {
    run.rule = "(a) generated histories (up to 30 calls, any order, valid and invalid arguments, several handshakes per object incl. reuse after disconnect) on HandshakeStateMachine with a peer \
        model that learns this side's challenge only from the 'r' message it emitted; acks carry the digest for the current, a previous, or a never-issued challenge, a wrong cookie, or are malformed. \
        (b) Connection::connect() over loopback against a scripted responder with every deviation at every step (refusal statuses, wrong digest, digest for the wrong challenge, malformed/truncated/oversized \
        frames, out-of-order ack, close, reset, silence) under a harness-owned virtual clock. Oracle: Connected <=> correct ack for the challenge issued in this handshake; flags = intersection; emitted n/c/r \
        parse under the protocol layouts with the right values (own MD5); errors arrive within the configured timeout (virtual time); no panic. Non-trivial = history reaches an ack or has an out-of-order call; every wire case"
        .into();
    run.assumptions = vec![
        "'same handshake' = since the latest disconnect() and the latest accepted challenge".into(),
        "the initiator sends its complement before reading the challenge (order n, c, r); a responder cannot tell the difference".into(),
        "virtual-time bound for errors: 5 x configured timeout (one per awaited step)".into(),
    ];
    run.prop("api-histories", api_strategy, run.tier.pick(40_000, 2_000_000), api_oracle);
    run.enumerate("every-deviation", all_deviations().into_iter(), wire_oracle);
    run.prop("wire-random", wire_strategy, run.tier.pick(600, 30_000), wire_oracle);
}

pub fn replays() -> Vec<ReplayEntry> {
    vec![replay_entry("api-histories", api_oracle), replay_entry("every-deviation", wire_oracle), replay_entry("wire-random", wire_oracle)]
}

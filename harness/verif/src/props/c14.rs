//! C14 — distribution headers and the atom cache resolve every atom correctly.

use crate::engine::{fp, replay_entry, CaseInfo, ReplayEntry, Run, Verdict};
use crate::gen::{arb_choices, arb_value, GenCfg};
use crate::terms::{denote, hex, lift};
use crate::vfail;
use erltf::errors::EncodeError;
use erltf::{AtomCache, OwnedTerm};
use proptest::prelude::*;
use refmodel::dist::{atoms_of, read_dist_message, sender_encode, PeerCache, SenderCache};
use refmodel::etf::{Canonical, VecPicker};
use refmodel::Value;
use serde::{Deserialize, Serialize};

// ---- (a) library writes, reference reads -------------------------------------------------------

#[derive(Clone, Debug, Serialize, Deserialize)]
pub struct WriteCase {
    /// number of distinct synthetic atoms to include
    pub k: usize,
    /// byte lengths of some of the atoms (index -> length); others are short
    pub lens: Vec<(u16, u32)>,
    pub shape: u8,
    pub extra: Value,
    pub with_payload: bool,
    pub repr: Vec<u8>,
    /// no fixed atoms around the synthetic ones: control = {3, 0, A0}, payload = {A1, ..} (a message all of whose atoms
    /// can be long)
    #[serde(default)]
    pub bare: bool,
}

fn synth_atom(i: usize, len: Option<u32>) -> String {
    let base = format!("a{i}_");
    match len {
        None => base,
        Some(0) => String::new(),
        Some(l) => {
            let l = l as usize;
            if l <= base.len() {
                // keep atoms distinct: encode i in the chars
                let c = char::from_u32(0x100 + i as u32).unwrap_or('x');
                let mut s = String::new();
                s.push(c);
                while s.len() < l {
                    s.push('y');
                }
                s.truncate(l.max(c.len_utf8()));
                s
            } else {
                // fill with 1-, 2- or 3-byte characters: byte length and character count differ for two thirds of the atoms
                let fill = ['z', 'é', '中'][i % 3];
                let mut s = base;
                while s.len() + fill.len_utf8() <= l {
                    s.push(fill);
                }
                while s.len() < l {
                    s.push('z');
                }
                s
            }
        }
    }
}

fn build_terms(case: &WriteCase) -> (Value, Option<Value>) {
    let mut atoms: Vec<Value> = vec![];
    let mut seen: Vec<String> = vec![];
    for i in 0..case.k {
        let len = case.lens.iter().find(|(ix, _)| (*ix as usize) % case.k.max(1) == i).map(|(_, l)| *l);
        let mut a = synth_atom(i, len);
        if seen.contains(&a) {
            a = format!("{a}_{i}");
        }
        seen.push(a.clone());
        atoms.push(Value::Atom(a));
    }
    if case.bare && !atoms.is_empty() {
        let control = Value::Tuple(vec![Value::int(3), Value::int(0), atoms[0].clone()]);
        let payload = if case.with_payload && atoms.len() >= 2 { Some(Value::Tuple(atoms[1..].to_vec())) } else { None };
        return (control, payload);
    }
    // spread the atoms over different positions: tuple fields, list elements, map keys/values,
    // node names of identifiers, module names of funs
    let mut items: Vec<Value> = vec![];
    for (i, a) in atoms.iter().enumerate() {
        let name = match a {
            Value::Atom(s) => s.clone(),
            _ => unreachable!(),
        };
        items.push(match (i + case.shape as usize) % 7 {
            0 => a.clone(),
            1 => Value::Tuple(vec![a.clone(), Value::int(i as i128)]),
            2 => Value::Map(vec![(a.clone(), Value::int(1))]),
            3 if !name.is_empty() && name.len() <= 255 => Value::Pid { node: name, id: i as u32, serial: 0, creation: 1 },
            4 if !name.is_empty() && name.len() <= 255 => Value::Ref { node: name, creation: 2, ids: vec![1, 2] },
            5 => Value::ExportFun { module: name, function: "f".into(), arity: 1 },
            _ => Value::list(vec![a.clone(), a.clone()]),
        });
    }
    let control = Value::Tuple(vec![Value::int(6), Value::Pid { node: "n@h".into(), id: 1, serial: 2, creation: 3 }, Value::atom(""), Value::atom("name")]);
    // keep the fixed control atoms out of the count when k == 0
    let control = if case.k == 0 { Value::Tuple(vec![Value::int(5)]) } else { control };
    let body = match case.shape % 3 {
        0 => Value::list(items),
        1 => Value::Tuple(items),
        _ => Value::cons_list(items, Value::int(0)),
    };
    if case.with_payload {
        (control, Some(Value::Tuple(vec![body, if case.k == 0 { strip_atoms(&case.extra) } else { case.extra.clone() }])))
    } else {
        (Value::Tuple(vec![control, body]), None)
    }
}

fn strip_atoms(v: &Value) -> Value {
    let mut a = vec![];
    atoms_of(v, &mut a);
    if a.is_empty() {
        v.clone()
    } else {
        Value::int(0)
    }
}

pub fn write_oracle(case: &WriteCase) -> Verdict {
    let (cv, pv) = build_terms(case);
    let mut pk = VecPicker::new(&case.repr);
    let (Some(ct), pt) = (lift(&cv, &mut pk), pv.as_ref().map(|p| lift(p, &mut pk))) else {
        return Verdict::Pass(CaseInfo::trivial());
    };
    let pt: Option<OwnedTerm> = match pt {
        Some(Some(t)) => Some(t),
        Some(None) => return Verdict::Pass(CaseInfo::trivial()),
        None => None,
    };
    let mut distinct = vec![];
    atoms_of(&cv, &mut distinct);
    if let Some(p) = &pv {
        atoms_of(p, &mut distinct);
    }
    let n_atoms = distinct.len();
    let oversize = distinct.iter().any(|a| a.len() > 65535);
    let res = match &pt {
        Some(p) => erltf::encode_with_dist_header_multi(&[&ct, p]),
        None => erltf::encode_with_dist_header(&ct),
    };
    let bytes = match res {
        Ok(b) => {
            if n_atoms > 255 {
                vfail!("too-many-atoms-not-reported", "{} distinct atoms were encoded with a header that can hold 255", n_atoms);
            }
            b
        }
        Err(EncodeError::TooManyAtoms { count }) if n_atoms > 255 && count == n_atoms => {
            return Verdict::Pass(CaseInfo::nt(fp(&(n_atoms, case.shape))).class("atoms>255:rejected"));
        }
        Err(EncodeError::AtomTooLarge { .. }) if oversize => {
            return Verdict::Pass(CaseInfo::nt(fp(&(n_atoms, case.shape, 1))).class("atom>65535:rejected"));
        }
        Err(e) => vfail!("encode-error", "{} distinct atoms: {e:?}", n_atoms),
    };
    // independent reader
    let mut pc = PeerCache::default();
    let m = match read_dist_message(&bytes, &mut pc) {
        Ok(m) => m,
        Err(e) => vfail!(
            "independent-reader-rejects-header",
            "{} atoms ({} long): reference reader fails with {:?}; first bytes {}",
            n_atoms,
            distinct.iter().filter(|a| a.len() > 255).count(),
            e,
            hex(&bytes[..bytes.len().min(80)])
        ),
    };
    if !m.control.same(&cv) {
        vfail!("independent-reader-sees-different-control", "got {} expected {}", m.control.render(), cv.render());
    }
    match (&m.payload, &pv) {
        (None, None) => {}
        (Some(a), Some(b)) if a.same(b) => {}
        (a, b) => vfail!("independent-reader-sees-different-payload", "got {:?} expected {:?}", a.as_ref().map(|v| v.render()), b.as_ref().map(|v| v.render())),
    }
    // every distinct atom is in the header exactly once
    let mut hdr_atoms: Vec<&String> = m.refs.iter().map(|r| &r.atom).collect();
    hdr_atoms.sort();
    let before = hdr_atoms.len();
    hdr_atoms.dedup();
    if hdr_atoms.len() != before {
        vfail!("atom-twice-in-header", "{} references for {} distinct atoms", before, hdr_atoms.len());
    }
    // the library's own reader
    let mut cache = AtomCache::new();
    match erltf::decode_with_atom_cache(&bytes, &mut cache) {
        Ok((c2, p2)) => {
            if !denote(&c2).same(&cv) {
                vfail!("own-reader-sees-different-control", "got {} expected {}", denote(&c2).render(), cv.render());
            }
            match (p2.as_ref().map(denote), &pv) {
                (None, None) => {}
                (Some(a), Some(b)) if a.same(b) => {}
                (a, b) => vfail!("own-reader-sees-different-payload", "got {:?} expected {:?}", a.map(|v| v.render()), b.as_ref().map(|v| v.render())),
            }
        }
        Err(e) => vfail!("own-reader-rejects-own-header", "{} atoms: {e:?}", n_atoms),
    }
    let long = distinct.iter().any(|a| a.len() > 255);
    let info = if n_atoms >= 1 { CaseInfo::nt(fp(&bytes)) } else { CaseInfo::trivial() };
    Verdict::Pass(
        info.class_if(n_atoms == 0, "atoms:0")
            .class_if(n_atoms % 2 == 1, "atoms:odd")
            .class_if(n_atoms % 2 == 0 && n_atoms > 0, "atoms:even")
            .class_if(long, "long-atoms")
            .class_if(long && n_atoms % 2 == 1, "long-atoms+odd")
            .class_if(n_atoms >= 250, "atoms>=250")
            .class_if(pv.is_some(), "with-payload"),
    )
}

// ---- (b) conforming sender writes, library reads ---------------------------------------------------

#[derive(Clone, Debug, Serialize, Deserialize)]
pub struct SeqCase {
    pub msgs: Vec<(Value, Option<Value>)>,
    /// per message, per atom occurrence: slot choice bytes
    pub slots: Vec<u16>,
    /// 0 = slot is a hash of the atom over all 2048 slots (OTP-like), 1 = few slots (forces overwrites),
    /// 2 = segment 0 with position == index where possible
    pub policy: u8,
    pub inline_some: bool,
    /// messages (by index) that are sent a first time with their last byte missing: the header is complete and conforming,
    /// the term behind it is not; the sender does not know and goes on referring to the entries it has just announced
    #[serde(default)]
    pub cut_first: Vec<u8>,
}

fn atom_hash(a: &str) -> u16 {
    let mut h: u32 = 2166136261;
    for b in a.bytes() {
        h = (h ^ b as u32).wrapping_mul(16777619);
    }
    (h % 2048) as u16
}

pub fn seq_oracle(case: &SeqCase) -> Verdict {
    let mut sc = SenderCache::default();
    let mut shadow = PeerCache::default();
    let mut cache = AtomCache::new();
    let mut si = 0usize;
    let mut reused = 0usize;
    let mut overwrote = 0usize;
    let mut pos_ne_slot = 0usize;
    let mut segs = std::collections::BTreeSet::new();
    let mut bad_frames = 0usize;
    for (mi, (cv, pv)) in case.msgs.iter().enumerate() {
        let policy = case.policy;
        let slots = &case.slots;
        let inline_some = case.inline_some;
        // slot choices of one transmission, starting at choice index `from`
        let choose = |from: usize| {
            let mut at = from;
            let mut k = 0u16;
            move |a: &str| -> Option<u16> {
                let r = slots.get(at).copied().unwrap_or(0);
                at += 1;
                if inline_some && r % 7 == 0 {
                    return None;
                }
                Some(match policy {
                    0 => atom_hash(a),
                    1 => (atom_hash(a) % 3) * 256 + (r % 4),
                    2 => {
                        let s = k;
                        k += 1;
                        s
                    }
                    _ => r % 2048,
                })
            }
        };
        if case.cut_first.iter().any(|k| *k as usize == mi) {
            // the same message, with the same slot choices, once without its last byte
            let (full, _) = sender_encode(cv, pv.as_ref(), &mut sc, &mut choose(si), &mut Canonical);
            let cut = &full[..full.len() - 1];
            // (without its last byte the message may still be a complete one, e.g. when the payload was a one-byte term:
            // the independent reader says whether it is)
            let still_valid = read_dist_message(cut, &mut shadow).is_ok();
            if let Ok((c2, _)) = erltf::decode_with_atom_cache(cut, &mut cache) {
                if !still_valid {
                    vfail!("truncated-message-accepted", "message {mi} without its last byte decoded as {}", denote(&c2).render());
                }
            }
            bad_frames += 1;
        }
        let mut atoms_in_msg = vec![];
        atoms_of(cv, &mut atoms_in_msg);
        if let Some(p) = pv {
            atoms_of(p, &mut atoms_in_msg);
        }
        let mut slot_of = choose(si);
        si += atoms_in_msg.len().min(255);
        let before = sc.clone();
        let (bytes, refs) = sender_encode(cv, pv.as_ref(), &mut sc, &mut slot_of, &mut Canonical);
        for (i, r) in refs.iter().enumerate() {
            if !r.new {
                reused += 1;
            } else if before.slots[r.slot as usize].is_some() {
                overwrote += 1;
            }
            if r.slot != i as u16 {
                pos_ne_slot += 1;
            }
            segs.insert(r.slot / 256);
        }
        // harness self-check: the reference reader understands the reference sender
        match read_dist_message(&bytes, &mut shadow) {
            Ok(m) if m.control.same(cv) => {}
            other => vfail!("harness:sender-reader", "message {mi}: {:?}", other.map(|m| m.control.render())),
        }
        match erltf::decode_with_atom_cache(&bytes, &mut cache) {
            Ok((c2, p2)) => {
                if !denote(&c2).same(cv) {
                    vfail!(
                        "cached-atom-resolved-wrongly",
                        "message {mi}: control decoded as {} but the sender meant {} (header refs {:?})",
                        denote(&c2).render(),
                        cv.render(),
                        refs
                    );
                }
                match (p2.as_ref().map(denote), pv) {
                    (None, None) => {}
                    (Some(a), Some(b)) if a.same(b) => {}
                    (a, b) => vfail!(
                        "cached-atom-resolved-wrongly",
                        "message {mi}: payload decoded as {:?} but the sender meant {:?} (header refs {:?})",
                        a.map(|v| v.render()),
                        b.as_ref().map(|v| v.render()),
                        refs
                    ),
                }
            }
            Err(e) => vfail!("conforming-header-rejected", "message {mi}: {e:?}; header refs {:?}; bytes {}", refs, hex(&bytes[..bytes.len().min(120)])),
        }
        // bytes after control + payload are an error, not ignored (checked on a scratch copy of the cache)
        if pv.is_some() && mi % 3 == 0 {
            let mut with = bytes.clone();
            with.extend_from_slice(&[0x6a, 0x01]);
            let mut scratch = cache.clone();
            match erltf::decode_with_atom_cache(&with, &mut scratch) {
                Err(erltf::DecodeError::TrailingData(2)) => {}
                other => vfail!("trailing-data-not-reported", "message {mi} + 2 junk bytes: {:?}", other.map(|(c, _)| denote(&c).render())),
            }
        }
    }
    let nontrivial = reused > 0 || overwrote > 0;
    let info = if nontrivial { CaseInfo::nt(fp(&format!("{:?}", case))) } else { CaseInfo::trivial() };
    Verdict::Pass(
        info.class_if(reused > 0, "reuse-across-messages")
            .class_if(overwrote > 0, "slot-overwritten")
            .class_if(pos_ne_slot > 0, "position!=slot")
            .class_if(segs.len() > 1, "several-segments")
            .class_if(segs.iter().any(|s| *s == 7), "segment-7")
            .class_if(bad_frames > 0, "undecodable-term-behind-a-conforming-header"),
    )
}

fn write_strategy() -> impl Strategy<Value = WriteCase> {
    let k = prop_oneof![4 => 0usize..12, 2 => 12usize..100, 2 => 240usize..=255, 1 => 256usize..300];
    let lens = prop::collection::vec((any::<u16>(), prop_oneof![Just(0u32), Just(1), Just(254), Just(255), Just(256), Just(257), Just(1000), Just(65535), Just(65536), Just(70000), 2u32..40]), 0..4);
    (k, lens, any::<u8>(), arb_value(GenCfg { depth: 2, size: 6, heavy: false, ..GenCfg::std() }), any::<bool>(), arb_choices(6))
        .prop_map(|(k, lens, shape, extra, with_payload, repr)| WriteCase { k, lens, shape, extra, with_payload, repr, bare: shape % 11 == 0 })
}

/// every count 0..=255 (both parities) x {no long atom, one long atom} x payload yes/no
fn all_counts() -> Vec<WriteCase> {
    let mut out = vec![];
    for k in 0..=258usize {
        for long in [None, Some(256u32), Some(300), Some(255)] {
            for with_payload in [false, true] {
                out.push(WriteCase {
                    k,
                    lens: long.map(|l| vec![((k / 2) as u16, l)]).unwrap_or_default(),
                    shape: (k % 5) as u8,
                    extra: Value::int(7),
                    with_payload,
                    repr: vec![],
                    bare: false,
                });
            }
        }
    }
    // messages whose atoms are all long (and all short, for comparison), without any fixed atom around them
    for k in 1..=4usize {
        for len in [300u32, 256, 255, 3] {
            for with_payload in [false, true] {
                out.push(WriteCase { k, lens: (0..k as u16).map(|i| (i, len)).collect(), shape: 0, extra: Value::int(7), with_payload, repr: vec![], bare: true });
            }
        }
    }
    out
}

pub fn seq_strategy() -> impl Strategy<Value = SeqCase> {
    let pool: Vec<&'static str> = vec!["ok", "error", "a", "b", "c", "n@h", "rex", "x@y", "undefined", "é", "true", "m", "f", "long_atom_name_1", "long_atom_name_2", ""];
    let atom = prop::sample::select(pool).prop_map(|s| Value::atom(s));
    let long_atom = (prop::sample::select(vec![256usize, 300]), prop::sample::select(vec!["L", "é", "中"])).prop_map(|(n, u)| Value::Atom(u.repeat(n / u.len() + 1)));
    let leaf = prop_oneof![
        8 => atom.clone(),
        1 => long_atom,
        2 => (0i64..100).prop_map(|i| Value::int(i as i128)),
        1 => prop::sample::select(vec!["n@h", "x@y", "a"]).prop_map(|n| Value::Pid { node: n.to_string(), id: 1, serial: 2, creation: 3 }),
        // every other place an atom can sit: port / reference node names, module and function names of funs
        1 => (prop::sample::select(vec!["n@h", "x@y", "b"]), any::<bool>()).prop_map(|(n, port)| if port { Value::Port { node: n.to_string(), id: 9, creation: 1 } } else { Value::Ref { node: n.to_string(), creation: 2, ids: vec![1, 2] } }),
        1 => (prop::sample::select(vec!["m", "f", "rex", "ok"]), prop::sample::select(vec!["f", "m", "error", "c"])).prop_map(|(m, f)| Value::ExportFun { module: m.to_string(), function: f.to_string(), arity: 2 }),
        1 => (prop::sample::select(vec!["m", "f", "a", "true"]), prop::sample::select(vec!["n@h", "x@y"]), prop::sample::select(vec!["b", "c", "undefined"])).prop_map(|(m, n, fv)| Value::Fun {
            arity: 1,
            uniq: [3; 16],
            index: 1,
            module: m.to_string(),
            old_index: 2,
            old_uniq: 3,
            pid: Box::new(Value::Pid { node: n.to_string(), id: 4, serial: 5, creation: 6 }),
            free: vec![Value::atom(fv)],
        }),
    ];
    let narrow = prop::collection::vec(leaf, 1..6).prop_map(Value::Tuple);
    // wide messages: 40..250 consecutive names of a numbered vocabulary, so that successive headers overlap in part and carry
    // new and known entries (and every segment) at every header position, also beyond position 64 / 128
    let wide = (0usize..300, prop_oneof![40usize..100, 100usize..=250]).prop_map(|(s, n)| Value::Tuple((s..s + n).map(|i| Value::atom(&format!("w{i}"))).collect()));
    let term = prop_oneof![5 => narrow, 1 => wide];
    let msg = (term.clone(), prop::option::weighted(0.6, term));
    (prop::collection::vec(msg, 2..20), prop::collection::vec(any::<u16>(), 0..160), 0u8..4, any::<bool>(), prop_oneof![2 => Just(vec![]), 1 => prop::collection::vec(0u8..20, 1..4)])
        .prop_map(|(msgs, slots, policy, inline_some, cut_first)| SeqCase { msgs, slots, policy, inline_some, cut_first })
}

pub fn run(run: &mut Run) {
    run.rule = "(a) control/payload pairs with exactly k distinct atoms for every k in 0..=258 (both parities) x {no long atom, one atom of 255/256/300 bytes} x payload yes/no, plus random \
        k, lengths (0,1,254..257,1000,65535) and shapes (atoms inside tuples, lists, map keys, pids, refs, funs): encoded by the library, read by an independent header reader and by the \
        library's own reader. (b) sequences of 2..20 messages from a sender model with a persistent 2048-slot cache (new entries, re-use across messages, overwrites, all segments, \
        position != slot, inline atoms, long atoms; one message in six names 40..250 atoms of a numbered vocabulary so that headers of up to 255 references mix new and known entries at every position) decoded with one AtomCache. Non-trivial = (a) k >= 1, (b) a re-used or overwritten slot; distinct by bytes / script"
        .into();
    run.assumptions = vec![
        "refmodel::dist is a faithful reading of the distribution header layout (flags half-bytes, LongAtoms position, slot = segment*256+index, ATOM_CACHE_REF = header position)".into(),
        "the library's encoder picks header order from a HashSet (random per process): the oracle is order-independent".into(),
    ];
    run.enumerate("every-atom-count", all_counts().into_iter(), write_oracle);
    run.prop("write-random", write_strategy, run.tier.pick(3_000, 150_000), write_oracle);
    run.prop("sender-sequences", seq_strategy, run.tier.pick(20_000, 1_000_000), seq_oracle);
    if run.tier == crate::engine::Tier::Thorough {
        // coverage-guided byte fuzzing of the same oracle (libFuzzer, structure-aware through fuzzde); see fuzzbridge.rs
        crate::fuzzbridge::campaign(run, "c14seq", 3_000_000, 400);
    }
    if run.tier == crate::engine::Tier::Thorough {
        // coverage-guided byte fuzzing of the same oracle (libFuzzer, structure-aware through fuzzde); see fuzzbridge.rs
        crate::fuzzbridge::campaign(run, "disthdr", 3_000_000, 400);
    }
}

pub fn replays() -> Vec<ReplayEntry> {
    vec![replay_entry("fuzz:c14seq", crate::fuzzbridge::eval_input), replay_entry("fuzz:disthdr", crate::fuzzbridge::eval_input), replay_entry("every-atom-count", write_oracle), replay_entry("write-random", write_oracle), replay_entry("sender-sequences", seq_oracle)]
}

#![allow(dead_code)]
//! Everything of the verification harness except the command line: engines, generators, the 20 checks.
//! A library so that the cargo-fuzz targets under ../fuzz run the very same oracles.

pub mod alloc_track;
pub mod engine;
pub mod fuzzbridge;
pub mod fuzzde;
pub mod gen;
pub mod isolate;
pub mod mutate;
pub mod netbed;
pub mod nodebed;
pub mod props;
pub mod sched;
pub mod terms;
pub mod universe;

//! Byte-string mutators shared by C02 and C13.

use proptest::prelude::*;
use serde::{Deserialize, Serialize};

#[derive(Clone, Debug, Serialize, Deserialize, PartialEq)]
pub enum Mutation {
    None,
    /// keep `frac/65536` of the bytes
    Truncate(u16),
    Flip { pos: u16, bit: u8 },
    /// overwrite `width` bytes at a position with a big-endian boundary value
    Overwrite { pos: u16, width: u8, value: u32 },
    /// insert bytes
    Insert { pos: u16, bytes: Vec<u8> },
    /// delete a range
    Delete { pos: u16, len: u8 },
    /// replace the suffix from `pos` by the suffix of `other` from `pos2`
    Splice { pos: u16, pos2: u16 },
}

fn at(pos: u16, len: usize) -> usize {
    if len == 0 {
        0
    } else {
        (pos as usize * len) >> 16
    }
}

pub fn apply(bytes: &[u8], other: &[u8], m: &Mutation) -> Vec<u8> {
    let mut b = bytes.to_vec();
    match m {
        Mutation::None => {}
        Mutation::Truncate(f) => {
            let n = at(*f, b.len());
            b.truncate(n);
        }
        Mutation::Flip { pos, bit } => {
            if !b.is_empty() {
                let i = at(*pos, b.len());
                b[i] ^= 1 << (bit % 8);
            }
        }
        Mutation::Overwrite { pos, width, value } => {
            let w = (*width as usize).clamp(1, 4);
            if b.len() >= w {
                let i = at(*pos, b.len() - w + 1);
                let be = value.to_be_bytes();
                b[i..i + w].copy_from_slice(&be[4 - w..]);
            }
        }
        Mutation::Insert { pos, bytes: ins } => {
            let i = at(*pos, b.len() + 1);
            let tail = b.split_off(i);
            b.extend_from_slice(ins);
            b.extend_from_slice(&tail);
        }
        Mutation::Delete { pos, len } => {
            if !b.is_empty() {
                let i = at(*pos, b.len());
                let j = (i + *len as usize).min(b.len());
                b.drain(i..j);
            }
        }
        Mutation::Splice { pos, pos2 } => {
            let i = at(*pos, b.len() + 1);
            let j = at(*pos2, other.len() + 1);
            b.truncate(i);
            b.extend_from_slice(&other[j..]);
        }
    }
    b
}

pub fn boundary_u32() -> impl Strategy<Value = u32> {
    prop_oneof![
        6 => prop::sample::select(vec![0u32, 1, 2, 255, 256, 65535, 65536, 1_000_000, 10_000_000, 10_000_001, 100_000_000, 100_000_001,
            0x7fff_ffff, 0x8000_0000, 0xffff_fffe, 0xffff_ffff]),
        2 => any::<u32>(),
        2 => 0u32..64,
    ]
}

pub fn arb_mutation(allow_none: bool) -> BoxedStrategy<Mutation> {
    let mut alts: Vec<(u32, BoxedStrategy<Mutation>)> = vec![
        (4, any::<u16>().prop_map(Mutation::Truncate).boxed()),
        (3, (any::<u16>(), 0u8..8).prop_map(|(pos, bit)| Mutation::Flip { pos, bit }).boxed()),
        (4, (any::<u16>(), 1u8..=4, boundary_u32()).prop_map(|(pos, width, value)| Mutation::Overwrite { pos, width, value }).boxed()),
        (1, (any::<u16>(), prop::collection::vec(any::<u8>(), 1..6)).prop_map(|(pos, bytes)| Mutation::Insert { pos, bytes }).boxed()),
        (1, (any::<u16>(), 1u8..6).prop_map(|(pos, len)| Mutation::Delete { pos, len }).boxed()),
        (2, (any::<u16>(), any::<u16>()).prop_map(|(pos, pos2)| Mutation::Splice { pos, pos2 }).boxed()),
    ];
    if allow_none {
        alts.push((5, Just(Mutation::None).boxed()));
    }
    proptest::strategy::Union::new_weighted(alts).boxed()
}

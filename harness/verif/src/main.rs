//! edp-rs verification harness: `verif <ID> --tier quick|thorough --seed N [--replay file]`

use verif_lib::engine::{Run, Tier};
use verif_lib::{alloc_track, engine, isolate, props};

#[global_allocator]
static GLOBAL: alloc_track::Counting = alloc_track::Counting;

fn usage() -> ! {
    eprintln!("usage: verif <C01..C20> [--tier quick|thorough] [--seed N] [--replay FILE]");
    std::process::exit(2)
}

fn main() {
    let args: Vec<String> = std::env::args().collect();
    if args.len() < 2 {
        usage();
    }
    let id = args[1].clone();
    if id == "__depthprobe" {
        // largest nesting depth each entry point survives on a 2 MiB stack, per container kind
        let mut w = isolate::Worker::new();
        for kind in 0..8u8 {
            let mut line = format!("kind {kind}:");
            for e in [0usize, 1] {
                let (mut lo, mut hi) = (1u32, 400_000u32);
                while lo < hi {
                    let mid = (lo + hi + 1) / 2;
                    let (b, _) = props::c02::bytes_of(&props::c02::Case::Depth { kind, k: mid });
                    match w.eval(&b, 1 << e) {
                        Ok(Ok(_)) => lo = mid,
                        _ => hi = mid - 1,
                    }
                }
                line.push_str(&format!(" {}={}", isolate::ENTRY_NAMES[e], lo));
            }
            println!("{line}");
        }
        return;
    }
    if id == "__c16probe" {
        props::c16::probe();
        return;
    }
    if id == "__fuzz" {
        // verif __fuzz <property> <target> <runs> [seed]: one fuzz campaign by hand
        engine::install_panic_hook();
        let mut run = Run::new(&args[2], Tier::Thorough, args.get(5).and_then(|s| s.parse().ok()).unwrap_or(1));
        verif_lib::fuzzbridge::campaign(&mut run, &args[3], args[4].parse().unwrap_or(100_000), 300);
        println!("{}", serde_json::to_string_pretty(run.campaigns.last().unwrap_or(&serde_json::Value::Null)).unwrap());
        for i in &run.inconclusive {
            println!("INCONCLUSIVE: {i}");
        }
        for v in &run.violations {
            println!("VIOLATION {} {} {}", v.signature, engine::truncate(&v.detail, 600), v.replay);
        }
        return;
    }
    if id == "__worker" {
        engine::install_panic_hook();
        isolate::worker_main();
    }
    let mut tier = match std::env::var("VERIF_TIER").as_deref() {
        Ok("thorough") => Tier::Thorough,
        _ => Tier::Quick,
    };
    let mut seed: u64 = std::env::var("VERIF_SEED").ok().and_then(|s| s.parse().ok()).unwrap_or(1);
    let mut replay: Option<String> = None;
    let mut i = 2;
    while i < args.len() {
        match args[i].as_str() {
            "--tier" => {
                i += 1;
                tier = match args.get(i).map(|s| s.as_str()) {
                    Some("quick") => Tier::Quick,
                    Some("thorough") => Tier::Thorough,
                    _ => usage(),
                };
            }
            "--seed" => {
                i += 1;
                seed = args.get(i).and_then(|s| s.parse().ok()).unwrap_or_else(|| usage());
            }
            "--replay" => {
                i += 1;
                replay = Some(args.get(i).cloned().unwrap_or_else(|| usage()));
            }
            _ => usage(),
        }
        i += 1;
    }
    engine::install_panic_hook();
    refmodel::md5::self_test();

    let Some(prop) = props::find(&id) else {
        eprintln!("unknown property {id}");
        std::process::exit(2)
    };

    if let Some(path) = replay {
        std::process::exit(do_replay(&id, &prop, &path));
    }

    let mut run = Run::new(&id, tier, seed);
    // regression corpus first: stored inputs that must keep passing
    replay_regressions(&mut run, &prop);
    (prop.run)(&mut run);
    std::process::exit(run.finish());
}

fn do_replay(id: &str, prop: &props::Property, path: &str) -> i32 {
    let text = match std::fs::read_to_string(path) {
        Ok(t) => t,
        Err(e) => {
            eprintln!("cannot read {path}: {e}");
            return 2;
        }
    };
    let v: serde_json::Value = match serde_json::from_str(&text) {
        Ok(v) => v,
        Err(e) => {
            eprintln!("cannot parse {path}: {e}");
            return 2;
        }
    };
    let campaign = v["campaign"].as_str().unwrap_or("");
    let entries = (prop.replays)();
    let Some(entry) = entries.iter().find(|e| e.campaign == campaign) else {
        eprintln!("no campaign {campaign} in {id}");
        return 2;
    };
    match (entry.eval)(v["input"].clone()) {
        Err(e) => {
            eprintln!("{e}");
            2
        }
        Ok(engine::Verdict::Pass(_)) => {
            println!("replay {path}: PASS");
            0
        }
        Ok(engine::Verdict::Fail { signature, detail }) | Ok(engine::Verdict::Known { signature, detail, .. }) => {
            println!("VIOLATION property={id} replay={path}");
            println!("  campaign={campaign} signature={signature} detail={}", engine::truncate(&detail, 3000));
            1
        }
    }
}

fn replay_regressions(run: &mut Run, prop: &props::Property) {
    let dir = format!("{}/regress", run.verif_root);
    let Ok(rd) = std::fs::read_dir(&dir) else { return };
    let mut files: Vec<_> = rd
        .filter_map(|e| e.ok())
        .map(|e| e.path())
        .filter(|p| p.file_name().and_then(|n| n.to_str()).map_or(false, |n| n.starts_with(&format!("{}-", run.id)) && n.ends_with(".json")))
        .collect();
    files.sort();
    let entries = (prop.replays)();
    let mut n = 0;
    for f in files {
        let Ok(text) = std::fs::read_to_string(&f) else { continue };
        let Ok(v) = serde_json::from_str::<serde_json::Value>(&text) else { continue };
        let campaign = v["campaign"].as_str().unwrap_or("").to_string();
        let Some(entry) = entries.iter().find(|e| e.campaign == campaign) else { continue };
        if let Ok(verdict) = (entry.eval)(v["input"].clone()) {
            n += 1;
            let name = format!("regress:{}", f.file_name().unwrap().to_string_lossy());
            // a failing regression input is reported with the stored file itself as the replay
            match verdict {
                engine::Verdict::Fail { signature, detail } if !run.is_known(&signature) => {
                    run.stats.evaluations += 1;
                    run.violations.push(engine::Violation {
                        campaign: name,
                        signature,
                        detail,
                        replay: f.to_string_lossy().to_string(),
                    });
                }
                other => {
                    run.custom(&name, &v["input"], other);
                }
            }
        }
    }
    if n > 0 {
        run.note_campaign(serde_json::json!({"name": "regression-corpus", "kind": "replay", "evaluations": n}));
    }
}

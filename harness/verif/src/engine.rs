//! Campaign engine: seeded proptest runner / exhaustive enumerator wrappers, counters,
//! known-finding split, replay files, evidence writer.

use proptest::strategy::{Strategy, ValueTree};
use proptest::test_runner::{Config, RngAlgorithm, TestCaseError, TestError, TestRng, TestRunner};
use serde::de::DeserializeOwned;
use serde::Serialize;
use serde_json::json;
use std::cell::RefCell;
use std::collections::{BTreeMap, HashSet};
use std::fmt::Debug;
use std::hash::{Hash, Hasher};
use std::panic::{catch_unwind, AssertUnwindSafe};
use std::time::Instant;

#[derive(Clone, Copy, Debug, PartialEq, Eq)]
pub enum Tier {
    Quick,
    Thorough,
}

impl Tier {
    pub fn name(self) -> &'static str {
        match self {
            Tier::Quick => "quick",
            Tier::Thorough => "thorough",
        }
    }
    /// pick by tier
    pub fn pick<T>(self, quick: T, thorough: T) -> T {
        match self {
            Tier::Quick => quick,
            Tier::Thorough => thorough,
        }
    }
}

#[derive(Default, Debug)]
pub struct CaseInfo {
    /// Some(fingerprint) if the case is non-trivial by the property's rule
    pub nontrivial: Option<u64>,
    pub classes: Vec<&'static str>,
}

impl CaseInfo {
    pub fn trivial() -> Self {
        CaseInfo::default()
    }
    pub fn nt(fp: u64) -> Self {
        CaseInfo { nontrivial: Some(fp), classes: vec![] }
    }
    pub fn class(mut self, c: &'static str) -> Self {
        self.classes.push(c);
        self
    }
    pub fn class_if(mut self, cond: bool, c: &'static str) -> Self {
        if cond {
            self.classes.push(c);
        }
        self
    }
}

#[derive(Debug)]
pub enum Verdict {
    Pass(CaseInfo),
    /// `signature`: short stable identifier of the failure kind (matched against known findings);
    /// `detail`: human readable explanation
    Fail { signature: String, detail: String },
    /// the case exhibits a defect whose exact outcome the oracle models (`signature`), and is otherwise
    /// fine: counted like a pass (with `info`) if the signature is listed as an open known finding,
    /// reported as a violation if it is not
    Known { signature: String, detail: String, info: CaseInfo },
}

pub fn fail(signature: &str, detail: String) -> Verdict {
    Verdict::Fail { signature: signature.to_string(), detail }
}

#[macro_export]
macro_rules! vfail {
    ($sig:expr, $($arg:tt)*) => {
        return $crate::engine::Verdict::Fail { signature: $sig.to_string(), detail: format!($($arg)*) }
    };
}

pub fn fp<T: Hash + ?Sized>(t: &T) -> u64 {
    let mut h = std::collections::hash_map::DefaultHasher::new();
    t.hash(&mut h);
    h.finish()
}

#[derive(Clone, Debug, serde::Deserialize)]
pub struct KnownFinding {
    pub id: String,
    pub property: String,
    pub status: String,
    pub signature: String,
    pub what: String,
}

#[derive(Debug, serde::Deserialize, Default)]
pub struct KnownFile {
    #[serde(default)]
    pub findings: Vec<KnownFinding>,
    #[serde(default)]
    pub fixed: Vec<String>,
}

pub struct Violation {
    pub campaign: String,
    pub signature: String,
    pub detail: String,
    pub replay: String,
}

#[derive(Default)]
pub struct Stats {
    pub evaluations: u64,
    pub nontrivial: HashSet<u64>,
    pub classes: BTreeMap<String, u64>,
    pub samples: Vec<String>,
    pub known_hits: BTreeMap<String, (u64, String)>,
}

impl Stats {
    pub fn record_pass(&mut self, info: CaseInfo, render: &dyn Fn() -> String) {
        self.evaluations += 1;
        for c in &info.classes {
            *self.classes.entry((*c).to_string()).or_insert(0) += 1;
        }
        if let Some(f) = info.nontrivial {
            if self.nontrivial.insert(f) && self.samples.len() < MAX_SAMPLES {
                let n = self.nontrivial.len();
                if n == 1 || n % 37 == 0 || self.samples.len() < 2 {
                    self.samples.push(truncate(&render(), 500));
                }
            }
        }
    }
    pub fn record_known(&mut self, signature: &str, render: &dyn Fn() -> String) {
        self.evaluations += 1;
        let e = self.known_hits.entry(signature.to_string()).or_insert((0, String::new()));
        e.0 += 1;
        if e.1.is_empty() {
            e.1 = truncate(&render(), 160);
        }
    }
    pub fn merge(&mut self, o: Stats) {
        self.evaluations += o.evaluations;
        self.nontrivial.extend(o.nontrivial);
        for (k, v) in o.classes {
            *self.classes.entry(k).or_insert(0) += v;
        }
        for s in o.samples {
            if self.samples.len() < MAX_SAMPLES {
                self.samples.push(s);
            }
        }
        for (k, (n, ex)) in o.known_hits {
            let e = self.known_hits.entry(k).or_insert((0, String::new()));
            e.0 += n;
            if e.1.is_empty() {
                e.1 = ex;
            }
        }
    }
}

pub struct Run {
    pub id: String,
    pub tier: Tier,
    pub seed: u64,
    pub start: Instant,
    pub stats: Stats,
    pub campaigns: Vec<serde_json::Value>,
    pub violations: Vec<Violation>,
    pub known: Vec<KnownFinding>,
    pub rule: String,
    pub assumptions: Vec<String>,
    pub exhaustive_parts: Vec<String>,
    pub extra: BTreeMap<String, serde_json::Value>,
    pub inconclusive: Vec<String>,
    pub verif_root: String,
    /// when set, stop after the first violation per campaign (always true) and skip remaining campaigns
    pub strict_replay: bool,
}

const MAX_SAMPLES: usize = 8;

pub fn verif_root() -> String {
    std::env::var("VERIF_ROOT").unwrap_or_else(|_| "/verif".to_string())
}

impl Run {
    pub fn new(id: &str, tier: Tier, seed: u64) -> Run {
        let root = verif_root();
        let known: Vec<KnownFinding> = std::fs::read_to_string(format!("{root}/known_findings.json"))
            .ok()
            .and_then(|s| serde_json::from_str::<KnownFile>(&s).ok())
            .map(|k| k.findings)
            .unwrap_or_default()
            .into_iter()
            .filter(|k| k.property == id && k.status == "open")
            .collect();
        Run {
            id: id.to_string(),
            tier,
            seed,
            start: Instant::now(),
            stats: Stats::default(),
            campaigns: vec![],
            violations: vec![],
            known,
            rule: String::new(),
            assumptions: vec![],
            exhaustive_parts: vec![],
            extra: BTreeMap::new(),
            inconclusive: vec![],
            verif_root: root,
            strict_replay: false,
        }
    }

    pub fn is_known(&self, signature: &str) -> bool {
        self.known.iter().any(|k| k.signature == signature)
    }

    pub fn seed_for(&self, campaign: &str) -> [u8; 32] {
        let mut s = [0u8; 32];
        let a = fp(&(self.seed, &self.id, campaign, 0u8));
        let b = fp(&(self.seed, &self.id, campaign, 1u8));
        let c = fp(&(self.seed, &self.id, campaign, 2u8));
        let d = fp(&(self.seed, &self.id, campaign, 3u8));
        s[0..8].copy_from_slice(&a.to_le_bytes());
        s[8..16].copy_from_slice(&b.to_le_bytes());
        s[16..24].copy_from_slice(&c.to_le_bytes());
        s[24..32].copy_from_slice(&d.to_le_bytes());
        s
    }

    fn record_pass(&mut self, info: CaseInfo, render: &dyn Fn() -> String) {
        self.stats.record_pass(info, render)
    }

    fn record_known(&mut self, signature: &str, render: &dyn Fn() -> String) {
        self.stats.record_known(signature, render)
    }

    pub fn write_replay<T: Serialize>(&self, campaign: &str, input: &T, signature: &str, detail: &str) -> String {
        let body = json!({
            "property": self.id,
            "campaign": campaign,
            "signature": signature,
            "detail": truncate(detail, 2000),
            "seed": self.seed,
            "tier": self.tier.name(),
            "input": input,
        });
        let text = serde_json::to_string_pretty(&body).unwrap();
        let dir = format!("{}/replays", self.verif_root);
        let _ = std::fs::create_dir_all(&dir);
        let path = format!("{}/{}-{}-{:016x}.json", dir, self.id, sanitize(campaign), fp(&text));
        let _ = std::fs::write(&path, text);
        path
    }

    /// Run a seeded proptest campaign, sharded over a fixed number of threads.  The shard count
    /// is a constant (not the machine's core count) so a seed always yields the same cases.
    pub fn prop<T, S, MK, F>(&mut self, name: &str, make_strategy: MK, cases: u32, oracle: F)
    where
        S: Strategy<Value = T>,
        MK: Fn() -> S + Sync,
        T: Debug + Serialize + Clone + Send,
        F: Fn(&T) -> Verdict + Sync,
    {
        self.prop_opts(name, make_strategy, cases, true, oracle)
    }

    /// `shrink = false` is for oracles whose outcome depends on an unpinned OS schedule: the first failing input is
    /// kept as it is, with the signature it failed with (a shrunk input could pass on re-evaluation).
    pub fn prop_opts<T, S, MK, F>(&mut self, name: &str, make_strategy: MK, cases: u32, shrink: bool, oracle: F)
    where
        S: Strategy<Value = T>,
        MK: Fn() -> S + Sync,
        T: Debug + Serialize + Clone + Send,
        F: Fn(&T) -> Verdict + Sync,
    {
        let t0 = Instant::now();
        let shards: u32 = if cases >= 64 { SHARDS } else { 1 };
        let before_nt = self.stats.nontrivial.len();
        let before_ev = self.stats.evaluations;
        let known: Vec<String> = self.known.iter().map(|k| k.signature.clone()).collect();
        let seeds: Vec<[u8; 32]> = (0..shards).map(|i| self.seed_for(&format!("{name}#{i}"))).collect();
        let results: Vec<(Stats, Option<(T, String, String)>, Option<String>)> = std::thread::scope(|sc| {
            let handles: Vec<_> = (0..shards)
                .map(|i| {
                    let seed = seeds[i as usize];
                    let known = &known;
                    let oracle = &oracle;
                    let make_strategy = &make_strategy;
                    let n = cases / shards + if i < cases % shards { 1 } else { 0 };
                    std::thread::Builder::new()
                        .stack_size(32 << 20)
                        .spawn_scoped(sc, move || run_shard(make_strategy(), seed, n, oracle, known, shrink))
                        .expect("spawn shard thread")
                })
                .collect();
            handles.into_iter().map(|h| h.join().expect("shard thread")).collect()
        });
        let mut first_fail: Option<(T, String, String)> = None;
        for (st, fail, abort) in results {
            self.stats.merge(st);
            if first_fail.is_none() {
                first_fail = fail;
            }
            if let Some(a) = abort {
                self.inconclusive.push(format!("campaign {name} aborted: {a}"));
            }
        }
        if let Some((value, signature, detail)) = first_fail {
            let replay = self.write_replay(name, &value, &signature, &detail);
            self.violations.push(Violation { campaign: name.to_string(), signature, detail, replay });
        }
        self.campaigns.push(json!({
            "name": name, "kind": "proptest", "cases_requested": cases, "shards": shards,
            "evaluations": self.stats.evaluations - before_ev,
            "new_distinct_nontrivial": self.stats.nontrivial.len() - before_nt,
            "wall_s": t0.elapsed().as_secs_f64(),
        }));
    }

    /// Exhaustively evaluate every item of a finite enumeration.
    pub fn enumerate<T, I, F>(&mut self, name: &str, items: I, oracle: F)
    where
        I: Iterator<Item = T>,
        T: Debug + Serialize,
        F: Fn(&T) -> Verdict,
    {
        let t0 = Instant::now();
        let before_nt = self.stats.nontrivial.len();
        let before_ev = self.stats.evaluations;
        let mut complete = true;
        let infra: RefCell<Option<String>> = RefCell::new(None);
        for v in items {
            let verdict = match evaluate(&oracle, &v, &infra) {
                Verdict::Known { signature, detail, info } => {
                    if self.is_known(&signature) {
                        self.record_known(&signature, &|| format!("{:?}", v));
                        self.stats.evaluations -= 1;
                        Verdict::Pass(info)
                    } else {
                        Verdict::Fail { signature, detail }
                    }
                }
                other => other,
            };
            match verdict {
                Verdict::Known { .. } => unreachable!(),
                Verdict::Pass(info) => self.record_pass(info, &|| format!("{:?}", v)),
                Verdict::Fail { signature, detail } => {
                    if self.is_known(&signature) {
                        self.record_known(&signature, &|| format!("{:?}", v));
                    } else {
                        self.stats.evaluations += 1;
                        let replay = self.write_replay(name, &v, &signature, &detail);
                        self.violations.push(Violation { campaign: name.to_string(), signature, detail, replay });
                        complete = false;
                        break;
                    }
                }
            }
        }
        if let Some(i) = infra.into_inner() {
            self.inconclusive.push(format!("campaign {name}: {i}"));
            complete = false;
        }
        if complete {
            self.exhaustive_parts.push(name.to_string());
        }
        self.campaigns.push(json!({
            "name": name, "kind": "exhaustive", "complete": complete,
            "evaluations": self.stats.evaluations - before_ev,
            "new_distinct_nontrivial": self.stats.nontrivial.len() - before_nt,
            "wall_s": t0.elapsed().as_secs_f64(),
        }));
    }

    /// Record a result computed by custom machinery (schedulers, network test-bed ...).
    pub fn custom<T: Debug + Serialize>(&mut self, campaign: &str, input: &T, verdict: Verdict) -> bool {
        let verdict = match verdict {
            Verdict::Known { signature, detail, info } => {
                if self.is_known(&signature) {
                    self.record_known(&signature, &|| format!("{:?}", input));
                    self.stats.evaluations -= 1;
                    Verdict::Pass(info)
                } else {
                    Verdict::Fail { signature, detail }
                }
            }
            other => other,
        };
        match verdict {
            Verdict::Known { .. } => unreachable!(),
            Verdict::Pass(info) => {
                self.record_pass(info, &|| format!("{:?}", input));
                true
            }
            Verdict::Fail { signature, detail } => {
                if signature.starts_with("harness:") {
                    self.inconclusive.push(format!("campaign {campaign}: {signature}: {detail}"));
                    true
                } else if self.is_known(&signature) {
                    self.record_known(&signature, &|| format!("{:?}", input));
                    true
                } else {
                    self.stats.evaluations += 1;
                    let replay = self.write_replay(campaign, input, &signature, &detail);
                    self.violations.push(Violation { campaign: campaign.to_string(), signature, detail, replay });
                    false
                }
            }
        }
    }

    pub fn note_campaign(&mut self, v: serde_json::Value) {
        self.campaigns.push(v);
    }

    /// Write evidence, print verdict lines, return the process exit code.
    pub fn finish(mut self) -> i32 {
        let wall = self.start.elapsed().as_secs_f64();
        let mut known_json = vec![];
        for k in &self.known {
            if let Some((n, sample)) = self.stats.known_hits.get(&k.signature) {
                println!("KNOWN-FINDING: property={} {} [{}; {} cases, e.g. {}]", self.id, k.what, k.id, n, sample);
                known_json.push(json!({"id": k.id, "signature": k.signature, "cases": n, "example": sample}));
            } else {
                known_json.push(json!({"id": k.id, "signature": k.signature, "cases": 0,
                    "note": "listed as open but not reproduced by this run"}));
            }
        }
        if self.stats.samples.is_empty() {
            self.stats.samples.push("(no non-trivial sample recorded)".to_string());
        }
        let mut coverage = json!({
            "evaluations": self.stats.evaluations,
            "distinct_nontrivial": self.stats.nontrivial.len(),
            "rule": self.rule,
            "samples": self.stats.samples,
            "classes": self.stats.classes,
            "campaigns": self.campaigns,
            "known_findings": known_json,
            "exhaustive": false,
            "exhaustive_campaigns": self.exhaustive_parts,
        });
        for (k, v) in &self.extra {
            coverage[k] = v.clone();
        }
        let notes: Vec<String> = SOFT_NOTES.lock().unwrap().clone();
        if !notes.is_empty() {
            coverage["notes"] = json!(notes);
        }
        if !self.inconclusive.is_empty() {
            coverage["inconclusive"] = json!(self.inconclusive);
        }
        let ev = json!({
            "property_id": self.id,
            "tier": self.tier.name(),
            "seed": self.seed,
            "level": "exploration",
            "coverage": coverage,
            "assumptions": self.assumptions,
            "wall_s": wall,
            "violations": self.violations.len(),
        });
        let dir = format!("{}/evidence", self.verif_root);
        let _ = std::fs::create_dir_all(&dir);
        let path = format!("{}/{}.json", dir, self.id);
        if let Err(e) = std::fs::write(&path, serde_json::to_string_pretty(&ev).unwrap()) {
            eprintln!("cannot write evidence {path}: {e}");
            return 2;
        }
        for v in &self.violations {
            println!("VIOLATION property={} replay={}", self.id, v.replay);
            println!("  campaign={} signature={} detail={}", v.campaign, v.signature, truncate(&v.detail, 1500));
        }
        println!(
            "{} {}: evaluations={} distinct_nontrivial={} violations={} known_hit={} wall={:.1}s",
            self.id,
            self.tier.name(),
            self.stats.evaluations,
            self.stats.nontrivial.len(),
            self.violations.len(),
            self.stats.known_hits.len(),
            wall
        );
        if !self.violations.is_empty() {
            1
        } else if !self.inconclusive.is_empty() {
            for i in &self.inconclusive {
                eprintln!("INCONCLUSIVE: {i}");
            }
            2
        } else {
            0
        }
    }
}

pub const SHARDS: u32 = 12;

fn run_shard<T, S, F>(
    strategy: S,
    seed: [u8; 32],
    cases: u32,
    oracle: &F,
    known: &[String],
    shrink: bool,
) -> (Stats, Option<(T, String, String)>, Option<String>)
where
    S: Strategy<Value = T>,
    T: Debug + Clone,
    F: Fn(&T) -> Verdict,
{
    let config = Config {
        cases,
        failure_persistence: None,
        max_shrink_iters: if shrink { 4000 } else { 0 },
        max_shrink_time: 60_000,
        max_global_rejects: 1_000_000,
        max_local_rejects: 1_000_000,
        verbose: 0,
        ..Config::default()
    };
    let rng = TestRng::from_seed(RngAlgorithm::ChaCha, &seed);
    let mut runner = TestRunner::new_with_rng(config, rng);
    let stats = RefCell::new(Stats::default());
    let failed = RefCell::new(false);
    if cases == 0 {
        return (stats.into_inner(), None, None);
    }
    let infra: RefCell<Option<String>> = RefCell::new(None);
    let first_failure: RefCell<Option<(String, String)>> = RefCell::new(None);
    let result = runner.run(&strategy, |v| match evaluate(oracle, &v, &infra) {
        Verdict::Pass(info) => {
            if !*failed.borrow() {
                stats.borrow_mut().record_pass(info, &|| format!("{:?}", v));
            }
            Ok(())
        }
        Verdict::Fail { signature, detail } => {
            if known.iter().any(|k| *k == signature) {
                if !*failed.borrow() {
                    stats.borrow_mut().record_known(&signature, &|| format!("{:?}", v));
                }
                Ok(())
            } else {
                *failed.borrow_mut() = true;
                first_failure.borrow_mut().get_or_insert((signature.clone(), detail.clone()));
                Err(TestCaseError::fail(format!("{signature}: {detail}")))
            }
        }
        Verdict::Known { signature, detail, info } => {
            if known.iter().any(|k| *k == signature) {
                if !*failed.borrow() {
                    let mut st = stats.borrow_mut();
                    st.record_known(&signature, &|| format!("{:?}", v));
                    st.evaluations -= 1;
                    st.record_pass(info, &|| format!("{:?}", v));
                }
                Ok(())
            } else {
                *failed.borrow_mut() = true;
                Err(TestCaseError::fail(format!("{signature}: {detail}")))
            }
        }
    });
    let stats = stats.into_inner();
    match result {
        Ok(()) => (stats, None, infra.into_inner()),
        Err(TestError::Fail(_reason, value)) if !shrink && first_failure.borrow().is_some() => {
            let (signature, detail) = first_failure.into_inner().unwrap();
            (stats, Some((value, signature, detail)), None)
        }
        Err(TestError::Fail(_reason, value)) => {
            let (signature, detail) = match evaluate(oracle, &value, &infra) {
                Verdict::Fail { signature, detail } | Verdict::Known { signature, detail, .. } => (signature, detail),
                Verdict::Pass(_) => (
                    "flaky".to_string(),
                    format!(
                        "minimal input passes on re-evaluation; first failure seen: {}",
                        first_failure.borrow().as_ref().map(|(s, d)| format!("{s}: {}", truncate(d, 400))).unwrap_or_default()
                    ),
                ),
            };
            (stats, Some((value, signature, detail)), None)
        }
        Err(TestError::Abort(reason)) => (stats, None, Some(reason.to_string())),
    }
}

/// One evaluation of the oracle with the two infrastructure rules applied:
/// * a `harness:*` signature (the test-bed itself could not be set up, or an unpinned parallel run hit its
///   real-time cap) is never a violation: the case is skipped and the run ends inconclusive (exit 2);
/// * a `*-hangs` signature (real-time watchdog on a deterministic, virtual-time case) counts only when the
///   same input hangs again on an immediate second evaluation.
pub static SOFT_NOTES: std::sync::Mutex<Vec<String>> = std::sync::Mutex::new(Vec::new());

pub fn evaluate<T, F: Fn(&T) -> Verdict>(oracle: &F, v: &T, infra: &RefCell<Option<String>>) -> Verdict {
    let mut verdict = guarded(|| oracle(v));
    if let Verdict::Fail { signature, .. } = &verdict {
        if signature.ends_with("-hangs") {
            let first = signature.clone();
            verdict = guarded(|| oracle(v));
            if matches!(verdict, Verdict::Pass(_)) {
                // a real-time cap hit that does not repeat is the machine's doing (overload), not a verdict; it is
                // recorded in the evidence and the case counts with the outcome of its second evaluation
                SOFT_NOTES.lock().unwrap().push(format!("{first}: the real-time watchdog fired once for a case that completed on immediate re-evaluation"));
            }
        }
    }
    if let Verdict::Fail { signature, detail } = &verdict {
        if signature.starts_with("harness:") {
            infra.borrow_mut().get_or_insert(format!("{signature}: {detail}"));
            return Verdict::Pass(CaseInfo::trivial());
        }
    }
    verdict
}

pub fn truncate(s: &str, n: usize) -> String {
    if s.len() <= n {
        s.to_string()
    } else {
        let mut end = n;
        while !s.is_char_boundary(end) {
            end -= 1;
        }
        format!("{}…[{} bytes]", &s[..end], s.len())
    }
}

fn sanitize(s: &str) -> String {
    s.chars().map(|c| if c.is_ascii_alphanumeric() { c } else { '_' }).collect()
}

thread_local! {
    pub static LAST_PANIC: RefCell<Option<String>> = const { RefCell::new(None) };
}

/// Install a quiet panic hook that records message + location (used by `guarded` and the
/// network test-bed).
pub fn install_panic_hook() {
    std::panic::set_hook(Box::new(|info| {
        let loc = info.location().map(|l| format!("{}:{}", l.file(), l.line())).unwrap_or_default();
        let msg = if let Some(s) = info.payload().downcast_ref::<&str>() {
            s.to_string()
        } else if let Some(s) = info.payload().downcast_ref::<String>() {
            s.clone()
        } else {
            "<non-string panic>".to_string()
        };
        let text = format!("{msg} @ {loc}");
        GLOBAL_PANICS.lock().unwrap().push((std::thread::current().id(), text.clone()));
        LAST_PANIC.with(|p| *p.borrow_mut() = Some(text));
    }));
}

pub static GLOBAL_PANICS: std::sync::Mutex<Vec<(std::thread::ThreadId, String)>> = std::sync::Mutex::new(Vec::new());

/// Run an oracle, turning a panic (in library or harness code) into a failing verdict.
pub fn guarded<F: FnOnce() -> Verdict>(f: F) -> Verdict {
    match catch_unwind(AssertUnwindSafe(f)) {
        Ok(v) => v,
        Err(_) => {
            let msg = LAST_PANIC.with(|p| p.borrow_mut().take()).unwrap_or_else(|| "panic".into());
            Verdict::Fail { signature: "panic".into(), detail: msg }
        }
    }
}

/// Catch a panic from a library call; Err(message) on panic.
pub fn no_panic<T, F: FnOnce() -> T>(f: F) -> Result<T, String> {
    match catch_unwind(AssertUnwindSafe(f)) {
        Ok(v) => Ok(v),
        Err(_) => Err(LAST_PANIC.with(|p| p.borrow_mut().take()).unwrap_or_else(|| "panic".into())),
    }
}

/// A replayable campaign: name + how to evaluate a stored JSON input.
pub struct ReplayEntry {
    pub campaign: &'static str,
    pub eval: Box<dyn Fn(serde_json::Value) -> Result<Verdict, String>>,
}

pub fn replay_entry<T: DeserializeOwned + 'static, F: Fn(&T) -> Verdict + 'static>(
    campaign: &'static str,
    oracle: F,
) -> ReplayEntry {
    ReplayEntry {
        campaign,
        eval: Box::new(move |v| {
            let t: T = serde_json::from_value(v).map_err(|e| format!("cannot parse replay input: {e}"))?;
            Ok(guarded(|| oracle(&t)))
        }),
    }
}

/// Generate one value from a strategy with a fixed seed (for building corpora / universes).
pub fn sample_strategy<S: Strategy>(s: &S, seed: [u8; 32], n: usize) -> Vec<S::Value> {
    let rng = TestRng::from_seed(RngAlgorithm::ChaCha, &seed);
    let mut runner = TestRunner::new_with_rng(Config::default(), rng);
    (0..n).map(|_| s.new_tree(&mut runner).expect("strategy").current()).collect()
}
